#!/usr/bin/env python3
"""Runs all 20 checks on behaviour-preserving refactorings (sub-agent written): every alarm is a false alarm.
usage: reftest.py /tmp/refout [A3 A5 ...]"""
import glob, json, os, re, shutil, subprocess, sys, tempfile
VERIF = os.path.dirname(os.path.abspath(__file__))
def run(patch):
    tmp = tempfile.mkdtemp(prefix="vref.")
    try:
        dst = os.path.join(tmp, "repo")
        shutil.copytree("/repo", dst, ignore=shutil.ignore_patterns(".git"))
        r = subprocess.run(["patch", "-s", "-p1", "--fuzz=3", "-i", patch], cwd=dst, capture_output=True, text=True)
        if r.returncode != 0:
            return None, "patch failed"
        tv = os.path.join(tmp, "verif"); os.makedirs(tv)
        shutil.copy(os.path.join(VERIF, "known_findings.json"), tv)
        os.makedirs(os.path.join(tv, "checker"), exist_ok=True)
        shutil.copy(os.path.join(VERIF, "checker", "known_funcs.txt"), os.path.join(tv, "checker"))
        r = subprocess.run([os.environ.get("VERIFCHECK_BIN", os.path.join(VERIF, "bin/verifcheck")), "-repo", dst, "-verif", tv, "-prop", "all"], capture_output=True, text=True)
        out = r.stdout + r.stderr
        alarms = re.findall(r"^\s+(?:VIOLATION|UNDECIDED) (R-C\d\d-[A-Z0-9]+:\S+)", out, re.M)
        return alarms, out[-400:] if r.returncode == 2 else ""
    finally:
        shutil.rmtree(tmp, ignore_errors=True)
root = sys.argv[1]
areas = sys.argv[2:] or sorted(os.path.basename(p) for p in glob.glob(os.path.join(root, "A*")))
res = {}
for a in areas:
    for d in sorted(glob.glob(os.path.join(root, a, "r?"))):
        p = os.path.join(d, "patch.diff")
        if not os.path.exists(p): continue
        alarms, err = run(p)
        key = a + "/" + os.path.basename(d)
        note = open(os.path.join(d, "notes.md")).read().strip().split("\n")[0][:110] if os.path.exists(os.path.join(d, "notes.md")) else ""
        res[key] = alarms
        print(key, "ERROR " + err if alarms is None or err else ("silent" if not alarms else "ALARM " + " ".join(sorted(set(alarms)))), "|", note, flush=True)
json.dump(res, open(os.path.join(VERIF, "sweep_out", "reftest.json") if os.path.isdir(os.path.join(VERIF, "sweep_out")) else "/tmp/reftest.json", "w"), indent=1)
