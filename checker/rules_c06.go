package main

import (
	"fmt"
	"go/token"
	"strings"

	"golang.org/x/tools/go/ssa"
)

func init() {
	register(&PropCheck{
		ID: "C06",
		Explanation: "Decides the structural conditions of 'with room to spare the cache is a faithful map; Wait makes writes visible': " +
			"(R-C06-WAIT) Wait stores a fresh unbuffered channel in Item.wait, sends the item with a blocking send on setBuf and returns only after receiving on that channel; every receiver of setBuf tests i.wait != nil before touching any other field and only closes it; nobody else closes a wait channel; " +
			"(R-C06-ORDER) single FIFO and single consumer (shared with C05) and Del's unconditional tombstone; " +
			"(R-C06-SYNCUPDATE) in SetWithTTL every path to the buffered send or to `return true` has passed storedItems.Update(i) for the item that is sent, and Update mutates under the shard write lock; " +
			"(R-C06-FASTPATH) in defaultPolicy.Add, past the resident/oversize tests, a rejection, an evict.del or a sampling call is reachable only across an edge on which a fresh roomLeft(cost) is negative: an item that fits is admitted without victims; " +
			"(R-C06-ACCOUNT) the accounted cost consulted by that test is exact (used == sum of keyCosts preserved by every writer, shared with C03); " +
			"(R-C06-REMOVERS) removal from lockedMap.data happens only in lockedMap.Del/Clear, which are unreachable (call graph) from Get, GetTTL, IterValues, Wait, MaxCost, RemainingCost, UpdateMaxCost, the Metrics readers and SetWithTTL; every store.Del of the applier/sweep has a key that is a policy victim, a tombstone's key, or an expiry-bucket key; " +
			"(R-C06-ADDSTORE) an admitted new item always reaches store.Set; " +
			"(R-C06-REFUSALS) lockedMap.get/Set/Update/Del decline only across a documented refusal edge (absent key, conflict mismatch, shouldUpdate veto, nil item, elapsed TTL for reads); " +
			"(R-C06-CLEAR) Cache.Clear empties the cost accounting and the map together, after the applier was stopped (shared with C13/C15). " +
			"NOT decided: equivalence with a reference map over all histories and applier lags.",
		Run: runC06,
	})
}

func runC06(c *Ctx) {
	L, P := c.L, c.P
	L.Rule("R-C06-WAIT", "Wait marker protocol: fresh unbuffered chan in Item.wait, blocking send on setBuf, return only after <-wait; receivers test wait first and only close it; no other closer", 5)
	L.Rule("R-C06-ORDER", "single FIFO, single consumer, unconditional tombstone (shared with C05)", 8)
	L.Rule("R-C06-SYNCUPDATE", "SetWithTTL passes storedItems.Update(i) before any send / return true; Update mutates under the write lock", 2)
	L.Rule("R-C06-FASTPATH", "defaultPolicy.Add: reject / evict.del / sampling only behind an edge where a fresh roomLeft(cost) < 0", 1)
	L.Rule("R-C06-ACCOUNT", "the accounted cost the fast path consults is exact: every writer keeps used == sum(keyCosts) (shared with C03)", 4)
	L.Rule("R-C06-REMOVERS", "map removal only in lockedMap.Del/Clear; unreachable from read-only API and SetWithTTL; applier Del keys are victims, tombstones or expiry keys", 12)
	L.Rule("R-C06-CLEAR", "Cache.Clear empties the cost accounting and the map together and only after the applier was stopped: a policy that keeps keys the map lost rejects their next Set as a duplicate", 3)
	L.Rule("R-C06-REFUSALS", "lockedMap.Update/Set/get decline only for the documented reasons (absent key, conflict mismatch, shouldUpdate veto, nil item, elapsed TTL on reads): any other refusal makes a write vanish or a resident entry unreadable", 4)
	L.Rule("R-C06-ADDSTORE", "admitted new item always reaches store.Set", 1)
	L.Rule("R-C06-ARMS", "no ghost accounting entries: sampledLFU.add only on the admission path, policy Add/Update/Del each on its own applier arm and on every path of it (a key the policy still tracks after its delete is refused as a duplicate on its next Set)", 4)

	// ---- R-C06-WAIT
	waitRule(c, "R-C06-WAIT")
	for _, name := range []string{"processItems", "Clear"} {
		name := name
		c.Group("R-C06-WAIT", "Cache."+name+"#marker-first", func() {
			fn := P.Fn("ristretto", "Cache", name)
			L.Analysed(fname(fn))
			tb := newTB(fn)
			var sel *ssa.Select
			var state int
			for _, r := range recvsIn(fn) {
				if r.Sel != nil && Match("fld[setBuf](p[0])", tb.T(r.Chan), nil) {
					sel, state = r.Sel, r.State
				}
			}
			if sel == nil {
				L.Undecided("R-C06-WAIT", "Cache."+name+"#marker-first", "no select receiving from setBuf", fn.Pos())
				return
			}
			iv := selectRecvValue(sel, state)
			I := tb.T(iv).String()
			notMarker := edgesWhere(fn, tb, "ne(fld[wait]("+I+"),c[nil])", nil, false)
			if len(notMarker) == 0 {
				L.Fail("R-C06-WAIT", "Cache."+name+"#marker-first", "received items are never tested for being a Wait marker", sel.Pos())
				return
			}
			touches := func(in ssa.Instruction) bool {
				fa, ok := in.(*ssa.FieldAddr)
				return ok && fa.X == iv && fieldName(fa.X.Type(), fa.Field) != "wait"
			}
			bad, path := reach(after(sel), touches, isInstr(sel), cutSet(notMarker))
			if bad != nil {
				L.Fail("R-C06-WAIT", "Cache."+name+"#marker-first", "a received item's "+fieldName(bad.(*ssa.FieldAddr).X.Type(), bad.(*ssa.FieldAddr).Field)+" field is interpreted before (or without) the `i.wait != nil` test (block path "+pathString(path)+"): a Wait marker would be handled as a write", bad.Pos())
				return
			}
			// on the marker side: close and straight back to the select
			marker := edgesWhere(fn, tb, "ne(fld[wait]("+I+"),c[nil])", nil, true)
			okClose := true
			for e := range marker {
				tgt := e.From.Succs[e.Succ]
				isClose := func(in ssa.Instruction) bool {
					cl, ok := in.(*ssa.Call)
					return ok && calleeName(&cl.Call) == "close" && Match("fld[wait]("+I+")", tb.T(cl.Call.Args[0]), nil)
				}
				if r, _ := reach(Pos{tgt, 0}, func(in ssa.Instruction) bool { return in == ssa.Instruction(sel) || isReturn(in) }, isClose, nil); r != nil {
					okClose = false
				}
			}
			L.Check(okClose, "R-C06-WAIT", "Cache."+name+"#marker-first", "i.wait tested first; marker side closes the channel before the next receive", "a marker can be dropped without close(i.wait): the waiting goroutine hangs", sel.Pos())
		})
	}
	c.Group("R-C06-WAIT", "wait#closers", func() {
		var who []string
		for _, fn := range P.SrcFuncs {
			if fn.Pkg != P.Pkgs["ristretto"] {
				continue
			}
			tb := newTB(fn)
			for _, cl := range builtinCalls(fn, "close") {
				if Match("fld[wait](_)", tb.T(cl.Call.Args[0]), nil) {
					who = append(who, fname(fn))
				}
			}
			for _, s := range sendsIn(fn) {
				if Match("fld[wait](_)", tb.T(s.Chan), nil) {
					who = append(who, fname(fn)+"(send)")
				}
			}
		}
		L.Check(strings.Join(who, ",") == "Cache.Clear,Cache.processItems", "R-C06-WAIT", "wait#closers", "wait channels are closed only by the two receivers of setBuf", "wait channels are closed/sent on by {"+strings.Join(who, ",")+"}", 0)
	})

	// ---- R-C06-ORDER (shared)
	fifoRule(c, "R-C06-ORDER")
	oneConsumerRule(c, "R-C06-ORDER")
	delTombstoneRule(c, "R-C06-ORDER")

	// ---- R-C06-SYNCUPDATE
	c.Group("R-C06-SYNCUPDATE", "Cache.SetWithTTL", func() {
		fn := P.Fn("ristretto", "Cache", "SetWithTTL")
		L.Analysed(fname(fn))
		tb := newTB(fn)
		ups := callsTo(fn, "iface:store.Update")
		if len(ups) != 1 {
			L.Fail("R-C06-SYNCUPDATE", "Cache.SetWithTTL", fmt.Sprintf("expected one storedItems.Update call, found %d", len(ups)), fn.Pos())
			return
		}
		up := ups[0].(ssa.Instruction)
		item := ups[0].Common().Args[0]
		target := func(in ssa.Instruction) bool {
			if s, ok := in.(*ssa.Select); ok {
				for _, st := range s.States {
					if st.Send != nil && Match("fld[setBuf](p[0])", tb.T(st.Chan), nil) {
						return true
					}
				}
			}
			if s, ok := in.(*ssa.Send); ok && Match("fld[setBuf](p[0])", tb.T(s.Chan), nil) {
				return true
			}
			if r, ok := in.(*ssa.Return); ok {
				return !isConst(returnValues(r)[0], "false")
			}
			return false
		}
		bad, path := reach(entryPos(fn), target, isInstr(up), nil)
		if bad != nil {
			L.Fail("R-C06-SYNCUPDATE", "Cache.SetWithTTL", "the item can be buffered / reported as accepted without storedItems.Update having been tried (block path "+pathString(path)+"): an overwrite of a resident key would not be visible immediately", instrPos(bad))
			return
		}
		sameItem := true
		for _, s := range sendsIn(fn) {
			if Match("fld[setBuf](p[0])", tb.T(s.Chan), nil) && s.Val != item {
				sameItem = false
			}
		}
		L.Check(sameItem, "R-C06-SYNCUPDATE", "Cache.SetWithTTL", "Update(i) precedes every send of the same i and every non-false return", "the item given to Update is not the item that is buffered", up.Pos())
	})
	c.Group("R-C06-SYNCUPDATE", "lockedMap.Update", func() {
		fn := P.Fn("ristretto", "lockedMap", "Update")
		lc := newLockCtx(P, "ristretto")
		tb := lc.tb(fn)
		mus := mapUpdatesOf(fn, tb, dataPat)
		ok := len(mus) > 0
		for _, mu := range mus {
			if !lc.At(mu).HasClass("lockedMap.RWMutex", "W") {
				ok = false
			}
		}
		L.Check(ok, "R-C06-SYNCUPDATE", "lockedMap.Update", "replaces the entry under the shard write lock before returning", "the entry is not replaced under the shard write lock", fn.Pos())
	})

	// ---- R-C06-FASTPATH
	fastPathRule(c, "R-C06-FASTPATH")
	// "the item fits in the remaining capacity" includes cost == MaxCost: the oversize refusal is strict
	importRulesWhere(c, runC03, map[string]string{"R-C03-ROOM": "R-C06-FASTPATH"}, func(o *Obligation) bool {
		return o.Construct == "defaultPolicy.Add#oversize" || o.Construct == "sampledLFU.roomLeft"
	})
	entryRule(c, "R-C06-SYNCUPDATE") // the overwrite that is visible at once carries the new value AND the new expiration of the same item
	// "fits in the remaining capacity" is only meaningful if the accounted cost is exact
	accountingInvRule(c, "R-C06-ACCOUNT")

	// ---- R-C06-REMOVERS
	c.Group("R-C06-REMOVERS", "lockedMap.data", func() {
		removers := map[*ssa.Function]bool{}
		for _, fn := range P.SrcFuncs {
			if fn.Pkg != P.Pkgs["ristretto"] {
				continue
			}
			tb := newTB(fn)
			rem := false
			for _, cl := range builtinCalls(fn, "delete") {
				if Match("fld[data](_)", tb.T(cl.Call.Args[0]), nil) {
					rem = true
				}
			}
			if len(fieldStoresIn(fn, "lockedMap", "data")) > 0 && fname(fn) != "newLockedMap" {
				rem = true
			}
			if rem {
				removers[fn] = true
				if n := fname(fn); n != "lockedMap.Del" && n != "lockedMap.Clear" {
					L.Fail("R-C06-REMOVERS", "remover:"+n, "removes entries from lockedMap.data; only lockedMap.Del and lockedMap.Clear may", fn.Pos())
				}
			}
		}
		L.Check(len(removers) >= 2, "R-C06-REMOVERS", "lockedMap.data", "entries are removed only by lockedMap.Del and lockedMap.Clear", "fewer than two removers found", 0)
		g := buildCallGraph(P)
		type root struct{ recv, name string }
		roots := []root{{"Cache", "Get"}, {"Cache", "GetTTL"}, {"Cache", "IterValues"}, {"Cache", "Wait"}, {"Cache", "MaxCost"},
			{"Cache", "RemainingCost"}, {"Cache", "UpdateMaxCost"}, {"Cache", "SetWithTTL"}, {"Cache", "Set"},
			{"Metrics", "Hits"}, {"Metrics", "Misses"}, {"Metrics", "KeysAdded"}, {"Metrics", "KeysUpdated"}, {"Metrics", "KeysEvicted"},
			{"Metrics", "CostAdded"}, {"Metrics", "CostEvicted"}, {"Metrics", "SetsDropped"}, {"Metrics", "SetsRejected"},
			{"Metrics", "GetsDropped"}, {"Metrics", "GetsKept"}, {"Metrics", "Ratio"}, {"Metrics", "String"}, {"Metrics", "LifeExpectancySeconds"}}
		for _, r := range roots {
			fn := P.FnOpt("ristretto", r.recv, r.name)
			if fn == nil {
				L.Undecided("R-C06-REMOVERS", "root:"+r.recv+"."+r.name, "exported method not found", 0)
				continue
			}
			path := g.Reaches(fn, func(f *ssa.Function) bool { return removers[f] })
			L.Check(path == nil, "R-C06-REMOVERS", "root:"+r.recv+"."+r.name, "cannot reach a map removal", "reaches a map removal: "+callPathString(path)+" — a reader/overwrite must never remove an entry", fn.Pos())
		}
	})
	c.Group("R-C06-REMOVERS", "applier Del keys", func() {
		itemDelete := P.Const("ristretto", "itemDelete").Value.Value.ExactString()
		for _, fname2 := range []struct{ recv, name string }{{"Cache", "processItems"}, {"expirationMap", "cleanup"}, {"Cache", "Clear"}, {"Cache", "Close"}} {
			fn := P.FnOpt("ristretto", fname2.recv, fname2.name)
			if fn == nil {
				continue
			}
			tb := newTB(fn)
			for i, d := range callsTo(fn, "iface:store.Del") {
				cons := fmt.Sprintf("%s#Del%d", fname(fn), i)
				key := tb.T(d.Common().Args[0])
				switch {
				case Match("fld[Key](idx(ext[0](call[defaultPolicy.Add](_,_,_)),_))", key, nil):
					L.Ok("R-C06-REMOVERS", cons, "key is a victim returned by cachePolicy.Add", d.Pos())
				case Match("ext[1](next(_))", key, nil) && fname(fn) == "expirationMap.cleanup":
					L.Ok("R-C06-REMOVERS", cons, "key comes from an expiry bucket", d.Pos())
				case Match("fld[Key](ext(select))", key, nil):
					// must be governed by flag == itemDelete
					item := key.Args[0].String()
					sel, _, _ := applierSelect(fn, tb)
					del := edgesWhere(fn, tb, "eq(fld[flag]("+item+"),c["+itemDelete+"])", nil, true)
					var bad ssa.Instruction
					if sel != nil {
						bad, _ = reach(after(sel), isInstr(d.(ssa.Instruction)), isInstr(sel), cutSet(del))
					}
					L.Check(sel != nil && bad == nil && len(del) > 0, "R-C06-REMOVERS", cons, "key of a buffered item, only on the flag == itemDelete side", "the applier deletes the key of a buffered item that is not a tombstone", d.Pos())
				default:
					L.Fail("R-C06-REMOVERS", cons, "store.Del on key "+key.String()+": not a policy victim, a tombstone or an expiry key", d.Pos())
				}
			}
		}
	})

	// ---- R-C06-CLEAR (shared with C13/C15): a Clear that leaves policy and map disagreeing makes later Sets of the forgotten keys bounce as duplicates
	clearResetParts(c, "R-C06-CLEAR", "cache", "evict")

	// ---- R-C06-REFUSALS
	evictClearRule(c, "R-C06-CLEAR")
	addersRule(c, "R-C06-ARMS")
	applierArmsRule(c, "R-C06-ARMS")
	refusalsRule(c, "R-C06-REFUSALS")
	dispatcherRule(c, "R-C06-REFUSALS")
	updateCallersRule(c, "R-C06-SYNCUPDATE")
	defaultUpdateRule(c, "R-C06-REFUSALS")

	// ---- R-C06-ADDSTORE
	c.Group("R-C06-ADDSTORE", "Cache.processItems", func() {
		fn := P.Fn("ristretto", "Cache", "processItems")
		tb := newTB(fn)
		sel, _, I := applierSelect(fn, tb)
		adds := callsTo(fn, "defaultPolicy.Add")
		if sel == nil || len(adds) != 1 {
			L.Undecided("R-C06-ADDSTORE", "Cache.processItems", "applier select or policy.Add call not found", fn.Pos())
			return
		}
		add := adds[0].(*ssa.Call)
		rejected := edgesWhere(fn, tb, "ext[1]("+tb.T(add).String()+")", nil, false)
		isSet := func(in ssa.Instruction) bool {
			cl, ok := in.(*ssa.Call)
			return ok && Match("call[iface:store.Set](_,"+I+")", tb.T(cl), nil)
		}
		bad, path := reach(after(add), func(in ssa.Instruction) bool { return in == ssa.Instruction(sel) || isReturn(in) }, isSet, cutSet(rejected))
		L.Check(bad == nil, "R-C06-ADDSTORE", "Cache.processItems", "on the admitted side store.Set(i) is always called", "an admitted item can skip store.Set (block path "+pathString(path)+")", add.Pos())
	})
}

// fastPathRule: in defaultPolicy.Add a rejection, an eviction or sampling is reachable
// (past the duplicate test) only across an edge on which a fresh roomLeft(cost) < 0.
func fastPathRule(c *Ctx, ruleID string) {
	L, P := c.L, c.P
	c.Group(ruleID, "defaultPolicy.Add", func() {
		fn := P.Fn("ristretto", "defaultPolicy", "Add")
		L.Analysed(fname(fn))
		tb := newTB(fn)
		ev := "fld[evict](p[0])"
		roomCall := "call[sampledLFU.roomLeft](" + ev + ",p[2])"
		isFreshRoom := func(t *Term) bool {
			if t.String() == roomCall {
				return true
			}
			if t.Op == "phi" {
				for _, a := range t.Args {
					if a.String() != roomCall && a.Op != "phiref" {
						return false
					}
				}
				return len(t.Args) > 0
			}
			return false
		}
		neg := map[Edge]bool{}
		roomIfs := map[*ssa.BasicBlock]bool{} // blocks ending in a comparison of a fresh room with a constant
		for _, b := range fn.Blocks {
			iff := lastIf(b)
			if iff == nil {
				continue
			}
			env := Env{}
			pol := condPolarity(tb.T(iff.Cond), "lt(?r,c[0])", env)
			if pol == 0 {
				env = Env{}
				pol = condPolarity(tb.T(iff.Cond), "le(?r,c[-1])", env)
			}
			if pol == 0 || !isFreshRoom(env["r"]) {
				// a different comparison of the fresh room (e.g. room <= 0): neither edge proves room < 0
				ct := tb.T(iff.Cond)
				for ct.Op == "not" {
					ct = ct.Args[0]
				}
				if len(ct.Args) == 2 && (isFreshRoom(ct.Args[0]) && ct.Args[1].Op == "c" || isFreshRoom(ct.Args[1]) && ct.Args[0].Op == "c") {
					roomIfs[b] = true
				}
				continue
			}
			roomIfs[b] = true
			if pol > 0 {
				neg[Edge{b, 0}] = true
			} else {
				neg[Edge{b, 1}] = true
			}
		}
		ups := callsTo(fn, "sampledLFU.updateIfHas")
		if len(ups) != 1 {
			L.Undecided(ruleID, "defaultPolicy.Add", "expected one updateIfHas call", fn.Pos())
			return
		}
		notResident := edgesWhere(fn, tb, tb.T(ups[0].(*ssa.Call)).String(), nil, false)
		if len(notResident) != 1 {
			L.Undecided(ruleID, "defaultPolicy.Add", "residency test not found", fn.Pos())
			return
		}
		var start Pos
		for e := range notResident {
			start = Pos{e.From.Succs[e.Succ], 0}
		}
		target := func(in ssa.Instruction) bool {
			if ci, ok := in.(ssa.CallInstruction); ok {
				switch calleeName(ci.Common()) {
				case "sampledLFU.del", "sampledLFU.fillSample":
					return true
				}
			}
			if r, ok := in.(*ssa.Return); ok {
				return !isConst(returnValues(r)[1], "true")
			}
			return false
		}
		bad, path := reach(start, target, nil, cutSet(neg))
		if bad != nil {
			what := "a rejection"
			if _, ok := bad.(*ssa.Return); !ok {
				what = "an eviction/sampling step"
			}
			L.Fail(ruleID, "defaultPolicy.Add", what+" is reachable for a new key without a fresh roomLeft(cost) having been negative (block path "+pathString(path)+"): an item that fits could be rejected or cause evictions", instrPos(bad))
			return
		}
		// every decision on a fresh room, taken on a side that does not prove room < 0, leads to no
		// reject/evict/sample before the room is tested again (the loop condition included: `room <= 0`
		// keeps evicting after an exact fit)
		isRoomIf := func(in ssa.Instruction) bool {
			_, isIf := in.(*ssa.If)
			return isIf && roomIfs[in.Block()]
		}
		for b := range roomIfs {
			for succ := 0; succ < 2; succ++ {
				if neg[Edge{b, succ}] {
					continue
				}
				if r, path := reach(Pos{b.Succs[succ], 0}, target, isRoomIf, nil); r != nil {
					L.Fail(ruleID, "defaultPolicy.Add", "after a test of the fresh room that does not establish roomLeft(cost) < 0 (at "+P.pos(lastIf(b).Pos())+") an eviction/sampling/rejection follows (block path "+pathString(path)+"): with room == 0 the item fits exactly, yet another victim is taken or the newcomer is turned away", instrPos(r))
					return
				}
			}
		}
		L.Ok(ruleID, "defaultPolicy.Add", fmt.Sprintf("past the residency test, reject/evict/sample only behind %d edge(s) where roomLeft(cost) < 0; %d room test(s), none continues evicting on its non-negative side", len(neg), len(roomIfs)), fn.Pos())
	})
}

// waitRule: Cache.Wait stores a fresh unbuffered channel in Item.wait, sends the marker with a
// blocking send on setBuf on every path and returns only after receiving on that very channel
// (no select, no timeout). Shared by C06 and C05.
func waitRule(c *Ctx, ruleID string) {
	L, P := c.L, c.P
	c.Group(ruleID, "Cache.Wait", func() {
		fn := P.Fn("ristretto", "Cache", "Wait")
		L.Analysed(fname(fn))
		tb := newTB(fn)
		var mkc *ssa.MakeChan
		eachInstr(fn, func(in ssa.Instruction) {
			if m, ok := in.(*ssa.MakeChan); ok {
				mkc = m
			}
		})
		if mkc == nil || !isConst(mkc.Size, "0") {
			L.Fail(ruleID, "Cache.Wait#chan", "Wait does not create a fresh unbuffered channel for its marker", fn.Pos())
			return
		}
		var send *ssa.Send
		problem := ""
		for _, s := range sendsIn(fn) {
			if !Match("fld[setBuf](p[0])", tb.T(s.Chan), nil) {
				continue
			}
			if s.Sel != nil {
				problem = "the marker is sent from a select: it can be dropped or reordered and Wait would return (or hang) without the writes being applied"
				continue
			}
			send = s.In.(*ssa.Send)
		}
		if send == nil {
			if problem == "" {
				problem = "Wait does not send a marker on setBuf"
			}
			L.Fail(ruleID, "Cache.Wait#send", problem, fn.Pos())
			return
		}
		a := structValueAlloc(send.X)
		lf := litFields(a)
		if a == nil || len(lf["wait"]) != 1 || lf["wait"][0].Val != ssa.Value(mkc) {
			L.Fail(ruleID, "Cache.Wait#send", "the item sent does not carry the fresh channel in its wait field", send.Pos())
			return
		}
		if len(lf) != 1 {
			L.Fail(ruleID, "Cache.Wait#send", "the marker item sets fields other than wait", send.Pos())
			return
		}
		isRecv := func(in ssa.Instruction) bool {
			for _, r := range recvsIn(fn) {
				if r.In == in && r.Sel == nil && r.Chan == ssa.Value(mkc) {
					return true
				}
			}
			return false
		}
		// from the entry: every path that is not the inert nil/closed return sends the marker (a
		// shortcut such as "buffer looks empty, nothing to wait for" returns while the applier may
		// still be applying the item it has just dequeued)
		inert := cutSet(edgesWhere(fn, tb, "eq(p[0],c[nil])", nil, true), edgesWhere(fn, tb, "call[atomic.Bool.Load](addr(fld[isClosed](p[0])))", nil, true))
		bad1, p1 := mustPass(entryPos(fn), isInstr(send), inert)
		bad2, p2 := mustPass(after(send), isRecv, nil)
		if bad1 != nil {
			L.Fail(ruleID, "Cache.Wait#send", "a path past the nil/closed guard returns without sending the marker (block path "+pathString(p1)+")", instrPos(bad1))
		} else if bad2 != nil {
			L.Fail(ruleID, "Cache.Wait#recv", "Wait can return without receiving on its marker channel (block path "+pathString(p2)+")", instrPos(bad2))
		} else {
			L.Ok(ruleID, "Cache.Wait#send", "fresh unbuffered channel in Item.wait, blocking send on setBuf on every path", send.Pos())
			L.Ok(ruleID, "Cache.Wait#recv", "returns only after <-wait", send.Pos())
		}
	})
}

// defaultUpdateRule: the update predicate a new shard starts with accepts every overwrite, and
// SetShouldUpdateFn keeps it when the user supplies none.
func defaultUpdateRule(c *Ctx, ruleID string) {
	L, P := c.L, c.P
	c.Group(ruleID, "newLockedMap#shouldUpdate", func() {
		fn := P.Fn("ristretto", "", "newLockedMap")
		L.Analysed(fname(fn))
		var lit *ssa.Alloc
		eachInstr(fn, func(in ssa.Instruction) {
			if a, ok := in.(*ssa.Alloc); ok && recvName(a.Type()) == "lockedMap" {
				lit = a
			}
		})
		if lit == nil {
			L.Undecided(ruleID, "newLockedMap#shouldUpdate", "no lockedMap literal", fn.Pos())
			return
		}
		sts := litFields(lit)["shouldUpdate"]
		if len(sts) == 0 {
			L.OkTrivial(ruleID, "newLockedMap#shouldUpdate", "no default predicate (nil means always update)", fn.Pos())
			return
		}
		var f *ssa.Function
		val := sts[0].Val
		for {
			if ct, ok := val.(*ssa.ChangeType); ok {
				val = ct.X
				continue
			}
			break
		}
		switch v := val.(type) {
		case *ssa.MakeClosure:
			f, _ = v.Fn.(*ssa.Function)
		case *ssa.Function:
			f = v
		}
		if f == nil {
			L.Undecided(ruleID, "newLockedMap#shouldUpdate", "default predicate is not a function literal", sts[0].Pos())
			return
		}
		ok := true
		for _, r := range returnsOf(f) {
			if !isConst(returnValues(r)[0], "true") {
				ok = false
			}
		}
		L.Check(ok, ruleID, "newLockedMap#shouldUpdate", "the default update predicate returns true", "the default update predicate can refuse: without Config.ShouldUpdate overwrites of resident keys would be dropped", f.Pos())
	})
}

// refusalsRule: lockedMap.Update/Set/get/Del answer "not done / not found" only behind one of the
// documented refusal edges (absent key, conflict mismatch, shouldUpdate veto, nil item, and — for
// reads only — an elapsed TTL). A refusal for any other reason makes a write vanish (the policy
// still knows the key, so the buffered re-Set bounces as a duplicate) or hides a resident entry.
func refusalsRule(c *Ctx, ruleID string, only ...string) {
	L, P := c.L, c.P
	type lm struct {
		name, keyPat, incPat string
		verdict              int // index of the result that carries the verdict
		refusedPat           string
	}
	for _, f := range []lm{
		{"get", "p[1]", "p[2]", 1, "c[false]"},
		{"Del", "p[1]", "p[2]", 0, "c[0]"},
		{"Set", "fld[Key](p[1])", "fld[Conflict](p[1])", 0, "c[false]"},
		{"Update", "fld[Key](p[1])", "fld[Conflict](p[1])", 1, "c[false]"},
	} {
		f := f
		if len(only) > 0 {
			want := false
			for _, o := range only {
				want = want || o == f.name
			}
			if !want {
				continue
			}
		}
		c.Group(ruleID, "lockedMap."+f.name, func() {
			fn := P.Fn("ristretto", "lockedMap", f.name)
			L.Analysed(fname(fn))
			tb := newTB(fn)
			lks := lookupsOf(fn, tb, dataPat)
			if len(lks) != 1 {
				L.Undecided(ruleID, "lockedMap."+f.name, fmt.Sprintf("expected exactly one lookup of m.data, found %d", len(lks)), fn.Pos())
				return
			}
			lkT := tb.T(lks[0]).String()
			allowed := []map[Edge]bool{
				edgesWhere(fn, tb, "ok("+lkT+")", nil, false),
				edgesWhere(fn, tb, "ne("+f.incPat+",fld[conflict]("+lkT+"))", nil, true),
			}
			reasons := "absent key, conflict mismatch"
			if f.name == "Set" || f.name == "Update" {
				allowed = append(allowed, edgesWhere(fn, tb, "call[dyn](fld[shouldUpdate](p[0]),_,_)", nil, false))
				reasons += ", shouldUpdate veto"
			}
			if f.name == "Set" {
				allowed = append(allowed, edgesWhere(fn, tb, "eq(p[1],c[nil])", nil, true))
				reasons += ", nil item"
			}
			if f.name == "get" {
				expired, _ := expiryEdges(fn, tb, "fld[expiration]("+lkT+")")
				allowed = append(allowed, expired)
				reasons += ", elapsed TTL"
			}
			nRef, undec := 0, false
			isRefusal := func(in ssa.Instruction) bool {
				r, ok := in.(*ssa.Return)
				if !ok || in.Block() == fn.Recover {
					return false
				}
				rv := returnValues(r)
				if f.verdict >= len(rv) {
					return false
				}
				t := tb.T(rv[f.verdict]).String()
				if f.refusedPat == "c[false]" && t != "c[false]" && t != "c[true]" {
					undec = true
				}
				return t == f.refusedPat
			}
			eachInstr(fn, func(in ssa.Instruction) {
				if isRefusal(in) {
					nRef++
				}
			})
			if undec {
				L.Undecided(ruleID, "lockedMap."+f.name, "the verdict result is not a constant on some return", fn.Pos())
				return
			}
			bad, path := reach(entryPos(fn), isRefusal, nil, cutSet(allowed...))
			if bad != nil {
				L.Fail(ruleID, "lockedMap."+f.name, fmt.Sprintf("declines (returns %s) on a path that crosses none of the documented refusal edges {%s} (block path %s): a write to / read of a resident entry is refused for an undocumented reason", f.refusedPat, reasons, pathString(path)), instrPos(bad))
				return
			}
			L.Ok(ruleID, "lockedMap."+f.name, fmt.Sprintf("%d declining return(s), each behind one of {%s}", nRef, reasons), fn.Pos())
		})
	}
}

// dispatcherRule: the sharded map adds nothing to the decisions of a shard - Get/Set/Update/Del/Expiration
// pick the shard by key %% numShards, call the shard's method of the same name once with their own
// arguments on every path, and return its results unchanged. A pre-check in the dispatcher (e.g. "probe
// with get first") brings in another method's refusal reasons: an overwrite of an expired but unswept key
// would be refused as absent, and the rewritten item stays hidden by the old TTL.
func dispatcherRule(c *Ctx, ruleID string) {
	L, P := c.L, c.P
	for _, d := range []struct{ name, callee string }{{"Get", "get"}, {"Set", "Set"}, {"Update", "Update"}, {"Del", "Del"}, {"Expiration", "Expiration"}} {
		d := d
		c.Group(ruleID, "shardedMap."+d.name+"#dispatch", func() {
			fn := P.Fn("ristretto", "shardedMap", d.name)
			L.Analysed(fname(fn))
			tb := newTB(fn)
			var calls []ssa.CallInstruction
			var problems []string
			for _, ci := range allCalls(fn) {
				sc := staticCallee(ci.Common())
				if sc == nil || !isModuleFunc(sc) {
					continue
				}
				if fname(origin(sc)) == "lockedMap."+d.callee {
					calls = append(calls, ci)
				} else {
					problems = append(problems, "also calls "+fname(origin(sc)))
				}
			}
			if len(calls) != 1 {
				problems = append(problems, fmt.Sprintf("%d calls of lockedMap.%s (want one)", len(calls), d.callee))
			} else {
				call := calls[0]
				nilItem := edgesWhere(fn, tb, "eq(p[1],c[nil])", nil, true) // Set(nil) stores nothing: a documented refusal
				if b, _ := mustPass(entryPos(fn), isInstr(call), cutSet(nilItem)); b != nil {
					problems = append(problems, "the shard's method is not called on every path")
				}
				a := call.Common().Args
				for i := 1; i < len(a); i++ {
					if want := fmt.Sprintf("p[%d]", i); tb.T(a[i]).String() != want {
						problems = append(problems, "argument "+fmt.Sprint(i)+" is "+tb.T(a[i]).String()+", not the dispatcher's own")
					}
				}
				for _, r := range returnsOf(fn) {
					if hit, _ := reach(entryPos(fn), isInstr(r), nil, cutSet(nilItem)); hit == nil {
						continue // the nil-item return
					}
					for j, v := range returnValues(r) {
						t := tb.T(v).String()
						ct := tb.T(call.(ssa.Value)).String()
						if t != ct && t != fmt.Sprintf("ext[%d](%s)", j, ct) {
							problems = append(problems, "returns "+t+" instead of the shard's result")
						}
					}
				}
			}
			L.Check(len(problems) == 0, ruleID, "shardedMap."+d.name+"#dispatch", "one call of the shard's "+d.callee+" with the same arguments on every path, result returned unchanged", strings.Join(problems, "; "), fn.Pos())
		})
	}
}

// updateCallersRule: an overwrite is applied synchronously by SetWithTTL and by nobody else - the applier
// never writes a buffered item over a resident entry (store.Update has SetWithTTL as its only caller): a
// buffered item carries the value and the call-time expiration of an OLDER write.
func updateCallersRule(c *Ctx, ruleID string) {
	L, P := c.L, c.P
	c.Group(ruleID, "store.Update#callers", func() {
		var who []string
		var pos token.Pos
		n := 0
		for _, fn := range P.SrcFuncs {
			if fn.Pkg != P.Pkgs["ristretto"] {
				continue
			}
			for _, ci := range allCalls(fn) {
				cc := ci.Common()
				isUpd := cc.IsInvoke() && recvName(cc.Value.Type()) == "store" && cc.Method.Name() == "Update"
				if sc := staticCallee(cc); sc != nil && fname(origin(sc)) == "shardedMap.Update" {
					isUpd = true
				}
				if !isUpd {
					continue
				}
				n++
				if fname(fn) != "Cache.SetWithTTL" {
					who = append(who, fname(fn))
					pos = ci.Pos()
				}
			}
		}
		L.Check(len(who) == 0 && n >= 1, ruleID, "store.Update#callers", "store.Update is called by SetWithTTL only", "store.Update is also called from "+strings.Join(who, ", ")+": a buffered (older) write can overwrite a newer value together with its expiration", pos)
	})
}
