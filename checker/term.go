package main

import (
	"fmt"
	"go/constant"
	"go/token"
	"go/types"
	"sort"
	"strings"

	"golang.org/x/tools/go/ssa"
)

// Term is a normalised, provenance-level description of an SSA value (shared analysis
// A2/A7 of DESIGN.md). Two values with equal Term strings were computed by the same
// expression over the same origins (modulo commutativity, mirrored comparisons, and
// transparent conversions). Memory is not versioned: a field load is `fld[F](base)`
// wherever it occurs; rules that care about intervening stores check dominance themselves.
type Term struct {
	Op   string
	Sym  string
	Args []*Term
	V    ssa.Value
	s    string
}

func (t *Term) String() string {
	if t == nil {
		return "<nil>"
	}
	if t.s != "" {
		return t.s
	}
	var sb strings.Builder
	sb.WriteString(t.Op)
	if t.Sym != "" {
		sb.WriteString("[" + t.Sym + "]")
	}
	if len(t.Args) > 0 {
		sb.WriteString("(")
		for i, a := range t.Args {
			if i > 0 {
				sb.WriteString(",")
			}
			sb.WriteString(a.String())
		}
		sb.WriteString(")")
	}
	t.s = sb.String()
	return t.s
}

func mk(op, sym string, v ssa.Value, args ...*Term) *Term {
	return &Term{Op: op, Sym: sym, Args: args, V: v}
}

var commutative = map[string]bool{"add": true, "mul": true, "and": true, "or": true, "xor": true, "eq": true, "ne": true}

var binopName = map[token.Token]string{
	token.ADD: "add", token.SUB: "sub", token.MUL: "mul", token.QUO: "quo", token.REM: "rem",
	token.AND: "and", token.OR: "or", token.XOR: "xor", token.SHL: "shl", token.SHR: "shr",
	token.AND_NOT: "andnot", token.EQL: "eq", token.NEQ: "ne", token.LSS: "lt", token.LEQ: "le",
	token.GTR: "gt", token.GEQ: "ge",
}

// TB builds terms for the values of one function.
type TB struct {
	fn    *ssa.Function
	memo  map[ssa.Value]*Term
	stack map[ssa.Value]bool
}

func newTB(fn *ssa.Function) *TB {
	return &TB{fn: fn, memo: map[ssa.Value]*Term{}, stack: map[ssa.Value]bool{}}
}

func constSym(c *ssa.Const) string {
	if c.Value == nil {
		if c.IsNil() {
			return "nil"
		}
		return "zero"
	}
	switch c.Value.Kind() {
	case constant.Bool:
		return fmt.Sprint(constant.BoolVal(c.Value))
	case constant.String:
		return fmt.Sprintf("%q", constant.StringVal(c.Value))
	case constant.Int:
		return c.Value.ExactString()
	}
	return c.Value.String()
}

func paramIndex(fn *ssa.Function, p *ssa.Parameter) int {
	for i, q := range fn.Params {
		if q == p {
			return i
		}
	}
	return -1
}

// calleeName gives a stable description of what a call invokes.
func calleeName(c *ssa.CallCommon) string {
	if c.IsInvoke() {
		return "iface:" + recvName(c.Value.Type()) + "." + c.Method.Name()
	}
	switch f := c.Value.(type) {
	case *ssa.Builtin:
		return f.Name()
	case *ssa.Function:
		return funcDesc(f)
	case *ssa.MakeClosure:
		if fn, ok := f.Fn.(*ssa.Function); ok {
			return "closure:" + fname(fn)
		}
	}
	return "dyn"
}

func origin(f *ssa.Function) *ssa.Function {
	if f == nil {
		return nil
	}
	if o := f.Origin(); o != nil {
		return o
	}
	return f
}

// funcDesc: Cache.Del, lockedMap.get, z.KeyToHash, time.Now, time.Time.After,
// sync.RWMutex.RLock, atomic.AddUint64.
func funcDesc(f *ssa.Function) string {
	f = origin(f)
	if f.Pkg != nil && strings.HasPrefix(f.Pkg.Pkg.Path(), modPath) {
		return fname(f)
	}
	pk := ""
	if f.Pkg != nil {
		pk = f.Pkg.Pkg.Name() + "."
	} else if f.Object() != nil && f.Object().Pkg() != nil {
		pk = f.Object().Pkg().Name() + "."
	}
	if f.Signature != nil && f.Signature.Recv() != nil {
		return pk + recvName(f.Signature.Recv().Type()) + "." + f.Name()
	}
	return pk + f.Name()
}

// staticCallee returns the generic-origin callee of a call if statically known.
func staticCallee(c *ssa.CallCommon) *ssa.Function {
	if f := c.StaticCallee(); f != nil {
		return origin(f)
	}
	return nil
}

func fieldName(structPtrOrVal types.Type, idx int) string {
	t := structPtrOrVal
	if p, ok := t.Underlying().(*types.Pointer); ok {
		t = p.Elem()
	}
	if st, ok := t.Underlying().(*types.Struct); ok && idx < st.NumFields() {
		return st.Field(idx).Name()
	}
	return fmt.Sprintf("#%d", idx)
}

// wholeStores returns the stores whose address operand is exactly a.
func wholeStores(a ssa.Value) []*ssa.Store {
	var out []*ssa.Store
	if a.Referrers() == nil {
		return nil
	}
	for _, r := range *a.Referrers() {
		if s, ok := r.(*ssa.Store); ok && s.Addr == a {
			out = append(out, s)
		}
	}
	return out
}

// T returns the term of v.
func (b *TB) T(v ssa.Value) *Term {
	if v == nil {
		return mk("_", "", nil)
	}
	if t, ok := b.memo[v]; ok {
		return t
	}
	if b.stack[v] {
		return mk("phiref", v.Name(), v)
	}
	b.stack[v] = true
	t := b.build(v)
	delete(b.stack, v)
	b.memo[v] = t
	return t
}

// pointee describes the object a pointer value points to (used as base of field/index).
func (b *TB) pointee(p ssa.Value) *Term {
	switch p := p.(type) {
	case *ssa.Alloc:
		st := wholeStores(p)
		if len(st) == 1 {
			return b.T(st[0].Val)
		}
		if p.Heap {
			return mk("new", p.Name(), p)
		}
		return mk("alloc", p.Name(), p)
	case *ssa.FieldAddr:
		return mk("fld", fieldName(p.X.Type(), p.Field), p, b.pointee(p.X))
	case *ssa.IndexAddr:
		return mk("idx", "", p, b.sliceBase(p.X), b.T(p.Index))
	}
	// A pointer-typed value (param, load, call result): the object is named by the pointer.
	return b.T(p)
}

func (b *TB) sliceBase(x ssa.Value) *Term {
	// IndexAddr on *array uses a pointer; on slice uses the slice value
	if _, ok := x.Type().Underlying().(*types.Pointer); ok {
		return b.pointee(x)
	}
	return b.T(x)
}

func (b *TB) build(v ssa.Value) *Term {
	switch v := v.(type) {
	case *ssa.Parameter:
		return mk("p", fmt.Sprint(paramIndex(v.Parent(), v)), v)
	case *ssa.FreeVar:
		for i, fv := range v.Parent().FreeVars {
			if fv == v {
				return mk("fv", fmt.Sprintf("%d:%s", i, v.Name()), v)
			}
		}
		return mk("fv", v.Name(), v)
	case *ssa.Const:
		return mk("c", constSym(v), v)
	case *ssa.Global:
		return mk("global", v.Name(), v)
	case *ssa.Function:
		return mk("func", funcDesc(v), v)
	case *ssa.Builtin:
		return mk("builtin", v.Name(), v)
	case *ssa.BinOp:
		op := binopName[v.Op]
		x, y := b.T(v.X), b.T(v.Y)
		switch op {
		case "gt":
			op, x, y = "lt", y, x
		case "ge":
			op, x, y = "le", y, x
		}
		if commutative[op] && x.String() > y.String() {
			x, y = y, x
		}
		return mk(op, "", v, x, y)
	case *ssa.UnOp:
		switch v.Op {
		case token.NOT:
			x := b.T(v.X)
			if x.Op == "not" {
				return x.Args[0]
			}
			return mk("not", "", v, x)
		case token.SUB:
			return mk("neg", "", v, b.T(v.X))
		case token.XOR:
			return mk("compl", "", v, b.T(v.X))
		case token.ARROW:
			return mk("recv", "", v, b.T(v.X))
		case token.MUL:
			switch x := v.X.(type) {
			case *ssa.FieldAddr, *ssa.IndexAddr:
				t := b.pointee(x)
				return &Term{Op: t.Op, Sym: t.Sym, Args: t.Args, V: v}
			case *ssa.Alloc:
				st := wholeStores(x)
				if len(st) == 1 {
					return b.T(st[0].Val)
				}
				return mk("load", "", v, b.pointee(x))
			case *ssa.Global:
				return mk("global", x.Name(), v)
			case *ssa.FreeVar:
				return mk("load", "", v, b.T(x))
			}
			return mk("load", "", v, b.T(v.X))
		}
	case *ssa.FieldAddr:
		return mk("addr", "", v, b.pointee(v))
	case *ssa.IndexAddr:
		return mk("addr", "", v, b.pointee(v))
	case *ssa.Field:
		return mk("fld", fieldName(v.X.Type(), v.Field), v, b.T(v.X))
	case *ssa.Index:
		return mk("idx", "", v, b.T(v.X), b.T(v.Index))
	case *ssa.Lookup:
		return mk("lookup", "", v, b.T(v.X), b.T(v.Index))
	case *ssa.Extract:
		switch tup := v.Tuple.(type) {
		case *ssa.Lookup:
			if v.Index == 0 {
				t := b.T(tup)
				return &Term{Op: t.Op, Sym: t.Sym, Args: t.Args, V: v}
			}
			return mk("ok", "", v, b.T(tup))
		case *ssa.TypeAssert:
			if v.Index == 0 {
				return b.T(tup)
			}
			return mk("ok", "", v, b.T(tup))
		case *ssa.UnOp: // comma-ok receive
			if v.Index == 0 {
				return b.T(tup)
			}
			return mk("ok", "", v, b.T(tup))
		}
		return mk("ext", fmt.Sprint(v.Index), v, b.T(v.Tuple))
	case *ssa.Call:
		return b.callTerm(v, &v.Call)
	case *ssa.Phi:
		var args []*Term
		seen := map[string]bool{}
		for _, e := range v.Edges {
			t := b.T(e)
			if !seen[t.String()] {
				seen[t.String()] = true
				args = append(args, t)
			}
		}
		sort.Slice(args, func(i, j int) bool { return args[i].String() < args[j].String() })
		return mk("phi", v.Name(), v, args...)
	case *ssa.Alloc:
		if v.Heap {
			return mk("new", v.Name(), v)
		}
		return mk("alloc", v.Name(), v)
	case *ssa.MakeInterface:
		return b.T(v.X)
	case *ssa.ChangeType:
		return b.T(v.X)
	case *ssa.ChangeInterface:
		return b.T(v.X)
	case *ssa.Convert:
		return mk("conv", types.TypeString(v.Type(), func(p *types.Package) string { return p.Name() }), v, b.T(v.X))
	case *ssa.Slice:
		return mk("slice", "", v, b.sliceBase(v.X), b.T(v.Low), b.T(v.High), b.T(v.Max))
	case *ssa.MakeSlice:
		return mk("make", "slice:"+v.Name(), v, b.T(v.Len), b.T(v.Cap))
	case *ssa.MakeMap:
		return mk("make", "map:"+v.Name(), v)
	case *ssa.MakeChan:
		return mk("make", "chan:"+v.Name(), v, b.T(v.Size))
	case *ssa.MakeClosure:
		var args []*Term
		for _, x := range v.Bindings {
			args = append(args, b.T(x))
		}
		return mk("closure", fname(v.Fn.(*ssa.Function)), v, args...)
	case *ssa.TypeAssert:
		return mk("assert", types.TypeString(v.AssertedType, func(p *types.Package) string { return p.Name() }), v, b.T(v.X))
	case *ssa.Range:
		return mk("range", "", v, b.T(v.X))
	case *ssa.Next:
		return mk("next", v.Name(), v, b.T(v.Iter))
	case *ssa.Select:
		return mk("select", v.Name(), v)
	case *ssa.SliceToArrayPointer:
		return b.T(v.X)
	}
	return mk("opaque", v.Name(), v)
}

func (b *TB) callTerm(v ssa.Value, c *ssa.CallCommon) *Term {
	name := calleeName(c)
	var args []*Term
	if c.IsInvoke() {
		args = append(args, b.T(c.Value))
	} else if name == "dyn" {
		args = append(args, b.T(c.Value))
	}
	for _, a := range c.Args {
		args = append(args, b.T(a))
	}
	return mk("call", name, v, args...)
}

// ---------------------------------------------------------------------------------
// Patterns: same syntax as Term.String(), plus ?x metavariables and _ wildcards.
// An omitted [sym] in a pattern matches any sym.

type patNode struct {
	op, sym string
	hasSym  bool
	args    []*patNode
	hasArgs bool
	mvar    string
	wild    bool
}

func parsePat(s string) *patNode {
	p := &patParser{s: s}
	n := p.node()
	p.ws()
	if p.i != len(p.s) {
		panic("pattern trailing garbage: " + s)
	}
	return n
}

type patParser struct {
	s string
	i int
}

func (p *patParser) ws() {
	for p.i < len(p.s) && (p.s[p.i] == ' ' || p.s[p.i] == '\n' || p.s[p.i] == '\t') {
		p.i++
	}
}

func (p *patParser) node() *patNode {
	p.ws()
	if p.i >= len(p.s) {
		panic("pattern ended early: " + p.s)
	}
	if p.s[p.i] == '_' && (p.i+1 == len(p.s) || strings.ContainsRune(",) ", rune(p.s[p.i+1]))) {
		p.i++
		return &patNode{wild: true}
	}
	if p.s[p.i] == '?' {
		j := p.i + 1
		for j < len(p.s) && (isIdent(p.s[j])) {
			j++
		}
		n := &patNode{mvar: p.s[p.i+1 : j]}
		p.i = j
		return n
	}
	j := p.i
	for j < len(p.s) && isIdent(p.s[j]) {
		j++
	}
	if j == p.i {
		panic("bad pattern at " + p.s[p.i:])
	}
	n := &patNode{op: p.s[p.i:j]}
	p.i = j
	if p.i < len(p.s) && p.s[p.i] == '[' {
		depth := 0
		k := p.i
		for ; k < len(p.s); k++ {
			if p.s[k] == '[' {
				depth++
			} else if p.s[k] == ']' {
				depth--
				if depth == 0 {
					break
				}
			}
		}
		n.sym = p.s[p.i+1 : k]
		n.hasSym = true
		p.i = k + 1
	}
	if p.i < len(p.s) && p.s[p.i] == '(' {
		p.i++
		n.hasArgs = true
		for {
			p.ws()
			if p.s[p.i] == ')' {
				p.i++
				break
			}
			n.args = append(n.args, p.node())
			p.ws()
			if p.s[p.i] == ',' {
				p.i++
			}
		}
	}
	return n
}

func isIdent(c byte) bool {
	return c == '_' || c == '$' || c == '.' || c == ':' || c == '-' || c >= '0' && c <= '9' || c >= 'a' && c <= 'z' || c >= 'A' && c <= 'Z'
}

type Env map[string]*Term

func (e Env) clone() Env {
	n := Env{}
	for k, v := range e {
		n[k] = v
	}
	return n
}

var patCache = map[string]*patNode{}

// Match matches term t against pattern pat; env may carry pre-bound metavariables and is
// extended on success.
func Match(pat string, t *Term, env Env) bool {
	pn, ok := patCache[pat]
	if !ok {
		pn = parsePat(pat)
		patCache[pat] = pn
	}
	if env == nil {
		env = Env{}
	}
	trial := env.clone()
	if matchNode(pn, t, trial) {
		for k, v := range trial {
			env[k] = v
		}
		return true
	}
	return false
}

func matchNode(p *patNode, t *Term, env Env) bool {
	if p.wild {
		return true
	}
	if p.mvar != "" {
		if old, ok := env[p.mvar]; ok {
			return old.String() == t.String()
		}
		env[p.mvar] = t
		return true
	}
	if p.op != t.Op {
		return false
	}
	if p.hasSym && p.sym != t.Sym {
		return false
	}
	if !p.hasArgs {
		return true
	}
	if len(p.args) != len(t.Args) {
		return false
	}
	try := func(order []int) bool {
		e2 := env.clone()
		for i, pa := range p.args {
			if !matchNode(pa, t.Args[order[i]], e2) {
				return false
			}
		}
		for k, v := range e2 {
			env[k] = v
		}
		return true
	}
	if len(p.args) == 2 && commutative[p.op] {
		return try([]int{0, 1}) || try([]int{1, 0})
	}
	idx := make([]int, len(p.args))
	for i := range idx {
		idx[i] = i
	}
	return try(idx)
}

// Find returns the first sub-term of t (pre-order) matching pat.
func Find(pat string, t *Term, env Env) *Term {
	var res *Term
	var walk func(x *Term, depth int) bool
	walk = func(x *Term, depth int) bool {
		if depth > 40 {
			return false
		}
		if Match(pat, x, env) {
			res = x
			return true
		}
		for _, a := range x.Args {
			if walk(a, depth+1) {
				return true
			}
		}
		return false
	}
	walk(t, 0)
	return res
}

// Contains reports whether t has a sub-term whose string equals sub's.
func Contains(t, sub *Term) bool {
	s := sub.String()
	var walk func(x *Term, d int) bool
	walk = func(x *Term, d int) bool {
		if d > 40 {
			return false
		}
		if x.String() == s {
			return true
		}
		for _, a := range x.Args {
			if walk(a, d+1) {
				return true
			}
		}
		return false
	}
	return walk(t, 0)
}
