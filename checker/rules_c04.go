package main

import (
	"fmt"
	"strings"

	"golang.org/x/tools/go/ssa"
)

func init() {
	register(&PropCheck{
		ID: "C04",
		Explanation: "Decides, by path-sensitive ownership typestate at every site where a value changes hands, the exactly-once skeleton of 'every accepted value leaves through OnExit exactly once': " +
			"(R-C04-SET) in SetWithTTL `return false` implies the item was neither sent nor stored by Update, `return true` implies sent or stored, the previous value is reported exactly once iff Update succeeded and no other callback sees the item; " +
			"(R-C04-APPLY) per applier iteration: a new item ends in exactly one of {stored by store.Set, onReject}, selected by the policy's verdict and store.Set's result; each victim gets one Del and one onEvict; a tombstone one policy.Del, one store.Del and one onExit of the Del's value; an update none; a Wait marker only close(); " +
			"(R-C04-DETACH) lockedMap.Update/Del return a stored value only after removing/replacing it with the shard write lock held since the lookup, so one caller receives it; " +
			"(R-C04-TRANSFER) lockedMap.Set returns true exactly on paths that stored i.Value and shardedMap.Set forwards that result (the repaired finding F2); " +
			"(R-C04-CLEAR) Clear's drain reports buffered non-update items exactly once, never updates or markers, always reaches store.Clear(c.onEvict); lockedMap.Clear reports every ranged entry exactly once; Close passes Clear before tearing down; " +
			"(R-C04-WRAP) the onEvict/onReject wrappers call cache.onExit(item.Value) exactly once on every path, fields assigned once in NewCache; the applier's local onEvict forwards to c.onEvict; " +
			"(R-C04-SWEEP) the expiry sweep does one policy.Del, one store.Del and one report per key that passes the re-check. " +
			"NOT decided: liveness ('no later than the next Clear/Close') beyond must-pass-through, and cross-goroutine double detaches (each detach is one critical section, C02/C08).",
		Run: runC04,
	})
}

func trackItemFlag(typ, field string) bool { return typ == "Item" && field == "flag" }

// callTermsOnPath returns the terms of the call steps of a path.
func callTermsOnPath(p *XPath, tb *TB) []*Term {
	var out []*Term
	for _, s := range p.Steps {
		if c, ok := s.In.(*ssa.Call); ok {
			out = append(out, tb.T(c))
		}
	}
	return out
}

func countCalls(p *XPath, tb *TB, pat string, env Env) int {
	n := 0
	for _, t := range callTermsOnPath(p, tb) {
		var e Env
		if env != nil {
			e = env.clone()
		}
		if Match(pat, t, e) {
			n++
		}
	}
	return n
}

// handOversOnPath lists hand-over callback calls on a path with their argument terms.
func handOversOnPath(p *XPath, tb *TB) []*Term {
	var out []*Term
	for _, s := range p.Steps {
		c, ok := s.In.(*ssa.Call)
		if !ok {
			continue
		}
		cc := &c.Call
		if cc.IsInvoke() || len(cc.Args) != 1 || !isHandOverSig(cc.Value.Type()) {
			continue
		}
		n := calleeName(cc)
		if n != "dyn" && !strings.HasPrefix(n, "closure:") {
			continue
		}
		out = append(out, tb.T(c))
	}
	return out
}

func runC04(c *Ctx) {
	L, P := c.L, c.P
	L.Rule("R-C04-SET", "SetWithTTL: false => not sent and not stored; true => sent or stored; prev reported exactly once iff Update succeeded; no other callback", 4)
	L.Rule("R-C04-APPLY", "applier iteration typestate: new item => exactly one of {store.Set stored it, onReject}; victim => one Del + one onEvict; tombstone => policy.Del, store.Del, onExit(result); update/marker => no hand-over", 5)
	L.Rule("R-C04-DETACH", "single transfer of ownership: lockedMap.Update/Del hand a stored value to exactly one caller (mutation under the write lock held since the lookup); lockedMap.Clear drains under the write lock", 3)
	L.Rule("R-C04-TRANSFER", "store.Set reports whether it stored: true exactly on paths that put i.Value into the map", 2)
	L.Rule("R-C04-CLEAR", "Clear drains: non-update buffered items reported once, updates/markers never; store.Clear(c.onEvict) on every path; lockedMap.Clear reports each entry once; Close passes Clear first", 5)
	L.Rule("R-C04-WRAP", "onEvict/onReject wrappers chain to onExit(item.Value) exactly once; callback fields assigned once in NewCache; applier's onEvict forwards", 6)
	L.Rule("R-C04-VICTIMS", "inside policy.Add a key is forgotten (evict.del) only on the path that also reports it as a victim: arg-min, reject-before-evict and victim bookkeeping (C09's rules)", 6)
	L.Rule("R-C04-SWEEP", "expiry sweep: per key passing the re-check one policy.Del, one store.Del, one report", 1)

	// ---- R-C04-SET
	c.Group("R-C04-SET", "Cache.SetWithTTL", func() {
		fn := P.Fn("ristretto", "Cache", "SetWithTTL")
		L.Analysed(fname(fn))
		tb := newTB(fn)
		var sel *ssa.Select
		for _, s := range sendsIn(fn) {
			if Match("fld[setBuf](p[0])", tb.T(s.Chan), nil) {
				if s.Sel == nil {
					L.Fail("R-C04-SET", "Cache.SetWithTTL#send", "item is sent with a blocking send; the dropped-Set contract needs a select with default", s.In.Pos())
					return
				}
				sel = s.Sel
			}
		}
		if sel == nil {
			L.Fail("R-C04-SET", "Cache.SetWithTTL#send", "no send on setBuf", fn.Pos())
			return
		}
		paths, ok := explore(fn, tb, ExploreOpts{Start: entryPos(fn), TrackField: trackItemFlag})
		if !ok {
			L.Undecided("R-C04-SET", "Cache.SetWithTTL", "too many paths", fn.Pos())
			return
		}
		updPat := "call[iface:store.Update](_,?i)"
		nTrue, nFalse := 0, 0
		bad := map[string]bool{}
		for _, p := range paths {
			ret, isRet := p.End.(*ssa.Return)
			if !isRet {
				continue
			}
			rt := tb.T(returnValues(ret)[0]).String()
			if bv, ok := p.EvalBool(returnValues(ret)[0]); ok {
				rt = map[bool]string{true: "c[true]", false: "c[false]"}[bv]
			}
			found := p.CondHeld(tb, "ext[1]("+updPat+")", nil) == 1
			sent := p.SelectTaken(sel, 0)
			var exitPrev, other int
			for _, h := range handOversOnPath(p, tb) {
				if Match("call[dyn](fld[onExit](p[0]),ext[0]("+updPat+"))", h, nil) {
					exitPrev++
				} else {
					other++
				}
			}
			where := "(block path " + p.BlockPath() + ")"
			switch rt {
			case "c[false]":
				nFalse++
				if sent || found {
					bad["ret-false"] = true
					L.Fail("R-C04-SET", "Cache.SetWithTTL#ret-false", fmt.Sprintf("returns false although the item was %s %s: a value whose Set returned false would later reach a callback", map[bool]string{true: "handed to the write buffer", false: "stored by Update"}[sent], where), ret.Pos())
				}
			case "c[true]":
				nTrue++
				if !sent && !found {
					bad["ret-true"] = true
					L.Fail("R-C04-SET", "Cache.SetWithTTL#ret-true", "returns true although the item was neither buffered nor stored "+where+": it will never reach OnExit", ret.Pos())
				}
			default:
				bad["ret"] = true
				L.Undecided("R-C04-SET", "Cache.SetWithTTL#ret", "result is not a constant: "+rt, ret.Pos())
			}
			want := 0
			if found {
				want = 1
			}
			if exitPrev != want {
				bad["prev"] = true
				L.Fail("R-C04-SET", "Cache.SetWithTTL#prev", fmt.Sprintf("previous value reported %d time(s) on a path where Update found=%v %s", exitPrev, found, where), ret.Pos())
			}
			if other != 0 {
				bad["other"] = true
				L.Fail("R-C04-SET", "Cache.SetWithTTL#other", "a callback other than onExit(prev) fires inside SetWithTTL "+where, ret.Pos())
			}
		}
		if nTrue == 0 || nFalse == 0 {
			L.Undecided("R-C04-SET", "Cache.SetWithTTL", fmt.Sprintf("paths returning true: %d, false: %d", nTrue, nFalse), fn.Pos())
			return
		}
		for _, k := range []struct{ key, msg string }{
			{"ret-false", "return false only when neither buffered nor stored"},
			{"ret-true", "return true only when buffered or stored"},
			{"prev", "onExit(prev) exactly once iff Update succeeded"},
			{"other", "no other callback"},
		} {
			if !bad[k.key] && !bad["ret"] {
				L.Ok("R-C04-SET", "Cache.SetWithTTL#"+k.key, fmt.Sprintf("%s (%d feasible paths, flag-sensitive)", k.msg, len(paths)), fn.Pos())
			}
		}
	})
	c.Group("R-C04-SET", "Cache.Set", func() {
		fn := P.Fn("ristretto", "Cache", "Set")
		tb := newTB(fn)
		ok := false
		for _, r := range returnsOf(fn) {
			if Match("call[Cache.SetWithTTL](p[0],p[1],p[2],p[3],c[0])", tb.T(returnValues(r)[0]), nil) {
				ok = true
			} else {
				ok = false
				break
			}
		}
		L.Check(ok, "R-C04-SET", "Cache.Set", "forwards to SetWithTTL(key,value,cost,0)", "does not simply forward to SetWithTTL(key,value,cost,0)", fn.Pos())
	})

	// ---- R-C04-APPLY
	c.Group("R-C04-APPLY", "Cache.processItems", func() {
		fn := P.Fn("ristretto", "Cache", "processItems")
		L.Analysed(fname(fn))
		tb := newTB(fn)
		var sel *ssa.Select
		eachInstr(fn, func(in ssa.Instruction) {
			if s, ok := in.(*ssa.Select); ok && s.Blocking {
				sel = s
			}
		})
		if sel == nil {
			L.Undecided("R-C04-APPLY", "Cache.processItems", "no blocking select", fn.Pos())
			return
		}
		bufState := -1
		for i, st := range sel.States {
			if Match("fld[setBuf](p[0])", tb.T(st.Chan), nil) {
				bufState = i
			}
		}
		if bufState < 0 {
			L.Undecided("R-C04-APPLY", "Cache.processItems", "select does not receive from setBuf", sel.Pos())
			return
		}
		I := tb.T(selectRecvValue(sel, bufState)).String()
		paths, ok := explore(fn, tb, ExploreOpts{Start: after(sel), StopAt: isInstr(sel), TrackField: trackItemFlag})
		if !ok {
			L.Undecided("R-C04-APPLY", "Cache.processItems", "too many paths", fn.Pos())
			return
		}
		itemNew := P.Const("ristretto", "itemNew").Value.Value.ExactString()
		itemDelete := P.Const("ristretto", "itemDelete").Value.Value.ExactString()
		itemUpdate := P.Const("ristretto", "itemUpdate").Value.Value.ExactString()
		flagT := "fld[flag](" + I + ")"
		addPat := "call[defaultPolicy.Add](_,fld[Key](" + I + "),_)"
		setPat := "call[iface:store.Set](_," + I + ")"
		rejectPat := "call[dyn](fld[onReject](p[0])," + I + ")"
		counts := map[string]int{}
		bad := map[string]bool{}
		for _, p := range paths {
			if !p.SelectTaken(sel, bufState) {
				continue
			}
			where := "(block path " + p.BlockPath() + ")"
			hands := handOversOnPath(p, tb)
			onItem := 0 // callbacks whose argument is the item or its value
			for _, h := range hands {
				a := h.Args[len(h.Args)-1].String()
				if a == I || a == "fld[Value]("+I+")" {
					onItem++
				}
			}
			pos := sel.Pos()
			if p.CondHeld(tb, "ne(fld[wait]("+I+"),c[nil])", nil) == 1 {
				counts["marker"]++
				nClose := countCalls(p, tb, "call[close](fld[wait]("+I+"))", nil)
				others := len(callTermsOnPath(p, tb)) - nClose
				if nClose != 1 || others != 0 || len(hands) != 0 {
					bad["marker"] = true
					L.Fail("R-C04-APPLY", "Cache.processItems#marker", fmt.Sprintf("a Wait marker must only be closed: close=%d other calls=%d callbacks=%d %s", nClose, others, len(hands), where), pos)
				}
				continue
			}
			flag := ""
			for _, k := range []string{itemNew, itemDelete, itemUpdate} {
				if p.CondHeld(tb, "eq("+flagT+",c["+k+"])", nil) == 1 {
					flag = k
				}
			}
			switch flag {
			case itemNew:
				counts["new"]++
				nAdd := countCalls(p, tb, addPat, nil)
				added := p.CondHeld(tb, "ext[1]("+addPat+")", nil)
				nSet := countCalls(p, tb, setPat, nil)
				stored := nSet == 1 && p.CondHeld(tb, setPat, nil) == 1
				nRej := countCalls(p, tb, rejectPat, nil)
				okp := nAdd == 1 && added != 0
				if added == 1 {
					okp = okp && nSet == 1 && ((stored && nRej == 0) || (!stored && nRej == 1))
				} else {
					okp = okp && nSet == 0 && nRej == 1
				}
				okp = okp && onItem == nRej
				if !okp {
					bad["new"] = true
					L.Fail("R-C04-APPLY", "Cache.processItems#itemNew", fmt.Sprintf("new item is not released exactly once: policy.Add calls=%d admitted=%v store.Set calls=%d stored=%v onReject=%d callbacks on the item=%d %s", nAdd, added == 1, nSet, stored, nRej, onItem, where), pos)
				}
				// victims: one Del per report
				nVDel := countCalls(p, tb, "call[iface:store.Del](_,fld[Key](idx(ext[0]("+addPat+"),_)),_)", nil)
				nVRep := 0
				for _, h := range hands {
					if Match("idx(ext[0]("+addPat+"),_)", h.Args[len(h.Args)-1], nil) {
						nVRep++
					}
				}
				if nVDel != nVRep {
					bad["victim"] = true
					L.Fail("R-C04-APPLY", "Cache.processItems#victim", fmt.Sprintf("victims: %d store.Del vs %d onEvict on one path %s", nVDel, nVRep, where), pos)
				}
				if nVRep > 0 {
					counts["victim"]++
				}
			case itemUpdate:
				counts["update"]++
				if len(hands) != 0 || countCalls(p, tb, setPat, nil) != 0 {
					bad["update"] = true
					L.Fail("R-C04-APPLY", "Cache.processItems#itemUpdate", "a buffered update triggers a callback or a store.Set (its value already lives in the map) "+where, pos)
				}
			case itemDelete:
				counts["delete"]++
				nPD := countCalls(p, tb, "call[defaultPolicy.Del](_,fld[Key]("+I+"))", nil)
				delPat := "call[iface:store.Del](_,fld[Key](" + I + "),fld[Conflict](" + I + "))"
				nSD := countCalls(p, tb, delPat, nil)
				nExit := countCalls(p, tb, "call[dyn](fld[onExit](p[0]),ext[1]("+delPat+"))", nil)
				if nPD != 1 || nSD != 1 || nExit != 1 || len(hands) != 1 {
					bad["delete"] = true
					L.Fail("R-C04-APPLY", "Cache.processItems#itemDelete", fmt.Sprintf("tombstone: policy.Del=%d store.Del=%d onExit(result)=%d callbacks=%d, want 1/1/1/1 %s", nPD, nSD, nExit, len(hands), where), pos)
				}
			default:
				if len(hands) != 0 {
					bad["other"] = true
					L.Fail("R-C04-APPLY", "Cache.processItems#otherflag", "callback on a path with an unrecognised flag "+where, pos)
				}
			}
		}
		for _, k := range []struct{ key, cons, msg string }{
			{"marker", "marker", "Wait marker: close(i.wait) and nothing else"},
			{"new", "itemNew", "exactly one of {stored, onReject} per new item, chosen by policy verdict and store.Set result"},
			{"victim", "victim", "each victim: one store.Del and one onEvict"},
			{"update", "itemUpdate", "buffered update: no hand-over"},
			{"delete", "itemDelete", "tombstone: policy.Del, store.Del, onExit(result) once each"},
		} {
			if counts[k.key] == 0 {
				L.Undecided("R-C04-APPLY", "Cache.processItems#"+k.cons, "no feasible path of this kind found in the applier", sel.Pos())
			} else if !bad[k.key] {
				L.Ok("R-C04-APPLY", "Cache.processItems#"+k.cons, fmt.Sprintf("%s (%d paths)", k.msg, counts[k.key]), sel.Pos())
			}
		}
		// exhaustiveness of the flag switch (shared with C05)
		nFlags := 0
		for _, m := range P.Pkgs["ristretto"].Members {
			if nc, ok := m.(*ssa.NamedConst); ok && recvName(nc.Type()) == "itemFlag" {
				nFlags++
				k := nc.Value.Value.ExactString()
				if len(ifsMatching(fn, tb, "eq("+flagT+",c["+k+"])", nil)) == 0 {
					L.Fail("R-C04-APPLY", "Cache.processItems#flag:"+nc.Name(), "item flag "+nc.Name()+" has no arm in the applier's switch", fn.Pos())
				}
			}
		}
		if nFlags < 3 {
			L.Undecided("R-C04-APPLY", "Cache.processItems#flags", "fewer than 3 itemFlag constants found", fn.Pos())
		}
	})

	// ---- R-C04-DETACH (single transfer of ownership)
	{
		tbs := map[*ssa.Function]*TB{}
		tbOf := func(f *ssa.Function) *TB {
			if t, ok := tbs[f]; ok {
				return t
			}
			t := newTB(f)
			tbs[f] = t
			return t
		}
		var lc *LockCtx
		locks := func() *LockCtx {
			if lc == nil {
				lc = newLockCtx(P, "ristretto")
			}
			return lc
		}
		detachRule(c, "R-C04-DETACH", tbOf, locks)
		// lockedMap.Clear's drain happens under the write lock with the map replaced before release
		c.Group("R-C04-DETACH", "lockedMap.Clear", func() {
			for _, s := range handOverSites(P, tbOf) {
				if fname(s.fn) != "lockedMap.Clear" {
					continue
				}
				sub := &Ctx{L: newLedger("C04"), P: P, Tier: c.Tier}
				sub.L.P = P
				sub.originOfItem(s, tbOf(s.fn), "lockedMap.Clear", tbOf(s.fn).T(s.arg), "2", locks)
				for _, o := range sub.L.Obls {
					o.Rule = "R-C04-DETACH"
					L.add(o)
				}
			}
		})
	}

	// ---- R-C04-TRANSFER
	transferRule(c, "R-C04-TRANSFER")

	// ---- R-C04-CLEAR
	clearDrainRule(c, "R-C04-CLEAR")
	closeDrainsRule(c, "R-C04-CLEAR")
	importRules(c, runC09, map[string]string{"R-C09-VICTIM": "R-C04-VICTIMS", "R-C09-REJECT": "R-C04-VICTIMS"})
	lockedMapClearRule(c, "R-C04-CLEAR")
	c.Group("R-C04-CLEAR", "shardedMap.Clear", func() {
		fn := P.Fn("ristretto", "shardedMap", "Clear")
		tb := newTB(fn)
		numShards := P.Const("ristretto", "numShards").Value.Value.ExactString()
		cs := callsTo(fn, "lockedMap.Clear")
		if len(cs) != 1 {
			L.Fail("R-C04-CLEAR", "shardedMap.Clear", "expected one lockedMap.Clear call in a loop over all shards", fn.Pos())
			return
		}
		call := cs[0].(*ssa.Call)
		t := tb.T(call)
		env := Env{}
		if !Match("call[lockedMap.Clear](idx(fld[shards](p[0]),?i),p[1])", t, env) {
			L.Fail("R-C04-CLEAR", "shardedMap.Clear", "does not pass its onEvict parameter to every shard: "+t.String(), call.Pos())
			return
		}
		// the loop runs i = 0 .. numShards-1 with the header as the only exit
		b := call.Block()
		hdrOK := false
		for _, pr := range b.Preds {
			if iff := lastIf(pr); iff != nil && (condPolarity(tb.T(iff.Cond), "lt(_,c["+numShards+"])", nil) != 0 || condPolarity(tb.T(iff.Cond), "lt(_,call[len](fld[shards](p[0])))", nil) != 0) {
				hdrOK = true
			}
		}
		single := len(b.Succs) == 1
		L.Check(hdrOK && single, "R-C04-CLEAR", "shardedMap.Clear", "every one of the numShards shards is cleared with the caller's onEvict",
			"the shard loop is not `for i < numShards` without early exit", call.Pos())
	})
	c.Group("R-C04-CLEAR", "Cache.Close", func() {
		fn := P.Fn("ristretto", "Cache", "Close")
		tb := newTB(fn)
		cl := callsTo(fn, "Cache.Clear")
		if len(cl) != 1 {
			L.Fail("R-C04-CLEAR", "Cache.Close", "Close does not call Clear: resident and buffered values are never released", fn.Pos())
			return
		}
		_ = tb
		teardown := func(in ssa.Instruction) bool {
			switch x := in.(type) {
			case *ssa.Send:
				return true
			case *ssa.Call:
				n := calleeName(&x.Call)
				return n == "close" || n == "defaultPolicy.Close" || n == "atomic.Bool.Store"
			}
			return false
		}
		bad, _ := reach(entryPos(fn), teardown, isInstr(cl[0].(ssa.Instruction)), nil)
		L.Check(bad == nil, "R-C04-CLEAR", "Cache.Close", "Clear() precedes every teardown step", "a teardown step is reachable before Clear()", instrPos(bad))
	})

	// ---- R-C04-WRAP
	c.Group("R-C04-WRAP", "NewCache", func() {
		nc := P.Fn("ristretto", "", "NewCache")
		L.Analysed(fname(nc))
		// single assignment of the callback fields, in NewCache only
		want := map[string]string{"onExit": "NewCache$1", "onEvict": "NewCache$2", "onReject": "NewCache$3"}
		for _, fn := range P.SrcFuncs {
			if fn.Pkg != P.Pkgs["ristretto"] {
				continue
			}
			for fld := range want {
				for _, st := range fieldStoresIn(fn, "Cache", fld) {
					if fn != nc {
						L.Fail("R-C04-WRAP", "Cache."+fld+"#writer:"+fname(fn), "callback field re-assigned outside NewCache", st.Pos())
					}
				}
			}
		}
		tbn := newTB(nc)
		closureOf := map[string]*ssa.Function{}
		for fld := range want {
			sts := fieldStoresIn(nc, "Cache", fld)
			if len(sts) != 1 {
				L.Fail("R-C04-WRAP", "Cache."+fld, fmt.Sprintf("assigned %d times in NewCache, want once", len(sts)), nc.Pos())
				continue
			}
			mc, ok := sts[0].Val.(*ssa.MakeClosure)
			if !ok {
				L.Undecided("R-C04-WRAP", "Cache."+fld, "not assigned a closure literal: "+tbn.T(sts[0].Val).String(), sts[0].Pos())
				continue
			}
			closureOf[fld] = mc.Fn.(*ssa.Function)
			L.OkTrivial("R-C04-WRAP", "Cache."+fld, "assigned once, in NewCache, closure "+fname(mc.Fn.(*ssa.Function)), sts[0].Pos())
		}
		for _, fld := range []string{"onEvict", "onReject"} {
			w := closureOf[fld]
			if w == nil {
				continue
			}
			tb := newTB(w)
			paths, _ := explore(w, tb, ExploreOpts{Start: entryPos(w)})
			good := len(paths) > 0
			for _, p := range paths {
				nExit := 0
				var order []string
				for _, h := range handOversOnPath(p, tb) {
					if Match("call[dyn](fld[onExit](_),fld[Value](p[0]))", h, nil) {
						nExit++
						order = append(order, "exit")
					} else {
						order = append(order, "user")
						if !Match("call[dyn](_,p[0])", h, nil) {
							good = false
							L.Fail("R-C04-WRAP", "wrapper:"+fld, "user callback is not handed the wrapper's item: "+h.String(), w.Pos())
						}
					}
				}
				if nExit != 1 {
					good = false
					L.Fail("R-C04-WRAP", "wrapper:"+fld, fmt.Sprintf("cache.onExit(item.Value) called %d time(s) on a path of the %s wrapper (block path %s), want exactly once", nExit, fld, p.BlockPath()), w.Pos())
				} else if order[len(order)-1] != "exit" {
					good = false
					L.Fail("R-C04-WRAP", "wrapper:"+fld, "onExit fires before the user's "+fld+" callback", w.Pos())
				}
			}
			if good {
				L.Ok("R-C04-WRAP", "wrapper:"+fld, fmt.Sprintf("every path: optional user callback, then cache.onExit(item.Value) exactly once (%d paths)", len(paths)), w.Pos())
			}
		}
		if w := closureOf["onExit"]; w != nil {
			tb := newTB(w)
			paths, _ := explore(w, tb, ExploreOpts{Start: entryPos(w)})
			good := len(paths) > 0
			for _, p := range paths {
				nonNil := p.CondHeld(tb, "ne(fld[OnExit](_),c[nil])", nil)
				n := countCalls(p, tb, "call[dyn](fld[OnExit](_),p[0])", nil)
				if (nonNil == 1 && n != 1) || (nonNil != 1 && n != 0) {
					good = false
					L.Fail("R-C04-WRAP", "wrapper:onExit", fmt.Sprintf("config.OnExit(val) called %d time(s) on a path where OnExit!=nil is %v", n, nonNil == 1), w.Pos())
				}
			}
			if good {
				L.Ok("R-C04-WRAP", "wrapper:onExit", "forwards val to config.OnExit exactly once when it is set", w.Pos())
			}
		}
	})
	c.Group("R-C04-WRAP", "Cache.processItems#onEvict-wrapper", func() {
		w := P.ApplierOnEvict()
		tb := newTB(w)
		paths, _ := explore(w, tb, ExploreOpts{Start: entryPos(w)})
		good := len(paths) > 0
		for _, p := range paths {
			n := countCalls(p, tb, "call[dyn](fld[onEvict](_),p[0])", nil)
			nonNil := p.CondHeld(tb, "ne(fld[onEvict](_),c[nil])", nil)
			if !(n == 1 || (nonNil == -1 && n == 0)) || len(handOversOnPath(p, tb)) != n {
				good = false
				L.Fail("R-C04-WRAP", "Cache.processItems#onEvict-wrapper", fmt.Sprintf("the applier's onEvict forwards to c.onEvict %d time(s) on a path (block path %s)", n, p.BlockPath()), w.Pos())
			}
		}
		if good {
			L.Ok("R-C04-WRAP", "Cache.processItems#onEvict-wrapper", "forwards its item to c.onEvict exactly once on every path where it is set", w.Pos())
		}
	})

	// ---- R-C04-SWEEP
	sweepOnceRule(c, "R-C04-SWEEP")
}

// sweepOnceRule: the expiry sweep does one policy.Del, one store.Del and one report per
// key that passes the re-check. Shared by C04, C13 and C14.
func sweepOnceRule(c *Ctx, ruleID string) {
	L, P := c.L, c.P
	c.Group(ruleID, "expirationMap.cleanup", func() {
		fn := P.Fn("ristretto", "expirationMap", "cleanup")
		L.Analysed(fname(fn))
		tb := newTB(fn)
		var next *ssa.Next
		eachInstr(fn, func(in ssa.Instruction) {
			if n, ok := in.(*ssa.Next); ok {
				next = n
			}
		})
		if next == nil {
			L.Undecided(ruleID, "expirationMap.cleanup", "no range over a bucket", fn.Pos())
			return
		}
		key := "ext[1](" + tb.T(next).String() + ")"
		conf := "ext[2](" + tb.T(next).String() + ")"
		paths, _ := explore(fn, tb, ExploreOpts{Start: after(next), StopAt: isInstr(next)})
		good, n := true, 0
		for _, p := range paths {
			if p.CondHeld(tb, "ext[0]("+tb.T(next).String()+")", nil) != 1 {
				continue
			}
			nPD := countCalls(p, tb, "call[defaultPolicy.Del](p[2],"+key+")", nil)
			nSD := countCalls(p, tb, "call[iface:store.Del](p[1],"+key+","+conf+")", nil)
			hands := handOversOnPath(p, tb)
			if nPD == 0 && nSD == 0 && len(hands) == 0 {
				continue // skipped by the re-check
			}
			n++
			cbSet := p.CondHeld(tb, "ne(p[3],c[nil])", nil)
			wantCB := 0
			if cbSet == 1 {
				wantCB = 1
			}
			if nPD != 1 || nSD != 1 || len(hands) != wantCB {
				good = false
				L.Fail(ruleID, "expirationMap.cleanup", fmt.Sprintf("per swept key: policy.Del=%d store.Del=%d reports=%d (callback set=%v), want 1/1/%d (block path %s)", nPD, nSD, len(hands), cbSet == 1, wantCB, p.BlockPath()), next.Pos())
			}
		}
		if n == 0 {
			L.Undecided(ruleID, "expirationMap.cleanup", "no removing path found in the sweep", next.Pos())
		} else if good {
			L.Ok(ruleID, "expirationMap.cleanup", fmt.Sprintf("one policy.Del, one store.Del, one report per swept key (%d paths)", n), next.Pos())
		}
	})
}

// clearDrainRule: Cache.Clear's drain loop (markers closed, updates skipped, other
// buffered items reported once) and store.Clear(c.onEvict) on every path. Shared by C04 and C15.
func clearDrainRule(c *Ctx, ruleID string) {
	L, P := c.L, c.P
	c.Group(ruleID, "Cache.Clear", func() {
		fn := P.Fn("ristretto", "Cache", "Clear")
		L.Analysed(fname(fn))
		tb := newTB(fn)
		var sel *ssa.Select
		for _, r := range recvsIn(fn) {
			if r.Sel != nil && Match("fld[setBuf](p[0])", tb.T(r.Chan), nil) {
				sel = r.Sel
			}
		}
		if sel == nil || sel.Blocking {
			L.Fail(ruleID, "Cache.Clear#drain", "no non-blocking drain loop on setBuf", fn.Pos())
			return
		}
		I := tb.T(selectRecvValue(sel, 0)).String()
		itemUpdate := P.Const("ristretto", "itemUpdate").Value.Value.ExactString()
		paths, ok := explore(fn, tb, ExploreOpts{Start: after(sel), StopAt: isInstr(sel), TrackField: trackItemFlag})
		if !ok {
			L.Undecided(ruleID, "Cache.Clear#drain", "too many paths", fn.Pos())
			return
		}
		good := true
		kinds := map[string]int{}
		for _, p := range paths {
			if !p.SelectTaken(sel, 0) {
				continue
			}
			if p.End != ssa.Instruction(sel) {
				good = false
				L.Fail(ruleID, "Cache.Clear#drain", "a drained item leads out of the drain loop (block path "+p.BlockPath()+"): later buffered items are never released", sel.Pos())
				continue
			}
			hands := handOversOnPath(p, tb)
			nEv := countCalls(p, tb, "call[dyn](fld[onEvict](p[0]),"+I+")", nil)
			where := "(block path " + p.BlockPath() + ")"
			switch {
			case p.CondHeld(tb, "ne(fld[wait]("+I+"),c[nil])", nil) == 1:
				kinds["marker"]++
				if countCalls(p, tb, "call[close](fld[wait]("+I+"))", nil) != 1 || len(hands) != 0 {
					good = false
					L.Fail(ruleID, "Cache.Clear#drain", "a buffered Wait marker must be closed and nothing else "+where, sel.Pos())
				}
			case p.CondHeld(tb, "eq(fld[flag]("+I+"),c["+itemUpdate+"])", nil) == 1:
				kinds["update"]++
				if len(hands) != 0 {
					good = false
					L.Fail(ruleID, "Cache.Clear#drain", "a buffered update is reported although its value lives in the map and will be reported by store.Clear again "+where, sel.Pos())
				}
			case p.CondHeld(tb, "eq(fld[flag]("+I+"),c["+itemUpdate+"])", nil) == -1:
				kinds["other"]++
				if nEv != 1 || len(hands) != 1 {
					good = false
					L.Fail(ruleID, "Cache.Clear#drain", fmt.Sprintf("a buffered non-update item is reported %d time(s) (callbacks %d), want exactly once %s", nEv, len(hands), where), sel.Pos())
				}
			default:
				good = false
				L.Fail(ruleID, "Cache.Clear#drain", "drained item is handled without testing flag against itemUpdate "+where, sel.Pos())
			}
		}
		if good {
			if kinds["marker"] == 0 || kinds["update"] == 0 || kinds["other"] == 0 {
				L.Undecided(ruleID, "Cache.Clear#drain", fmt.Sprintf("drain paths found: %v", kinds), sel.Pos())
			} else {
				L.Ok(ruleID, "Cache.Clear#drain", "markers closed, updates skipped, every other buffered item reported exactly once", sel.Pos())
			}
		}
		// store.Clear(c.onEvict) and policy.Clear on every path after the handshake
		var firstSend ssa.Instruction
		for _, s := range sendsIn(fn) {
			if Match("fld[stop](p[0])", tb.T(s.Chan), nil) {
				firstSend = s.In
			}
		}
		if firstSend == nil {
			L.Fail(ruleID, "Cache.Clear#storeclear", "no stop handshake", fn.Pos())
			return
		}
		isStoreClear := func(in ssa.Instruction) bool {
			c, ok := in.(*ssa.Call)
			return ok && Match("call[iface:store.Clear](fld[storedItems](p[0]),fld[onEvict](p[0]))", tb.T(c), nil)
		}
		badRet, path := mustPass(after(firstSend), isStoreClear, nil)
		if badRet != nil {
			L.Fail(ruleID, "Cache.Clear#storeclear", "a path through Clear returns without storedItems.Clear(c.onEvict) (block path "+pathString(path)+"): resident values are never released", instrPos(badRet))
		} else {
			L.Ok(ruleID, "Cache.Clear#storeclear", "storedItems.Clear(c.onEvict) on every path", firstSend.Pos())
		}
	})
}

// transferRule: store.Set reports whether it stored — true exactly on the paths that put
// i.Value into the map — and shardedMap.Set forwards that verdict (shared by C04 and C02).
func transferRule(c *Ctx, ruleID string) {
	L, P := c.L, c.P
	c.Group(ruleID, "lockedMap.Set", func() {
		fn := P.Fn("ristretto", "lockedMap", "Set")
		L.Analysed(fname(fn))
		tb := newTB(fn)
		paths, ok := explore(fn, tb, ExploreOpts{Start: entryPos(fn)})
		if !ok {
			L.Undecided(ruleID, "lockedMap.Set", "too many paths", fn.Pos())
			return
		}
		good := true
		n := 0
		for _, p := range paths {
			ret, isRet := p.End.(*ssa.Return)
			if !isRet {
				continue
			}
			n++
			rv := returnValues(ret)
			if len(rv) != 1 {
				L.Fail(ruleID, "lockedMap.Set", "store.Set does not report whether it stored the item: a refused item is silently dropped (finding F2)", fn.Pos())
				return
			}
			stored := p.Has(func(in ssa.Instruction) bool {
				mu, ok := in.(*ssa.MapUpdate)
				return ok && Match(dataPat, tb.T(mu.Map), nil)
			})
			rt := tb.T(rv[0]).String()
			if (rt == "c[true]") != stored || (rt != "c[true]" && rt != "c[false]") {
				good = false
				L.Fail(ruleID, "lockedMap.Set", fmt.Sprintf("returns %s on a path where stored=%v (block path %s)", rt, stored, p.BlockPath()), ret.Pos())
			}
		}
		if good && n > 0 {
			L.Ok(ruleID, "lockedMap.Set", fmt.Sprintf("returns true exactly on the storing paths (%d paths)", n), fn.Pos())
		}
	})
	c.Group(ruleID, "shardedMap.Set", func() {
		fn := P.Fn("ristretto", "shardedMap", "Set")
		tb := newTB(fn)
		good, n := true, 0
		for _, r := range returnsOf(fn) {
			rv := returnValues(r)
			if len(rv) != 1 {
				L.Fail(ruleID, "shardedMap.Set", "does not forward lockedMap.Set's result", r.Pos())
				return
			}
			t := tb.T(rv[0])
			if Match("call[lockedMap.Set](_,p[1])", t, nil) {
				n++
			} else if t.String() != "c[false]" {
				good = false
				L.Fail(ruleID, "shardedMap.Set", "returns "+t.String()+" instead of the shard's verdict", r.Pos())
			}
		}
		if good {
			L.Check(n > 0, ruleID, "shardedMap.Set", "forwards the shard's verdict (false for a nil item)", "never returns lockedMap.Set's result", fn.Pos())
		}
	})
}

// lockedMapClearRule: lockedMap.Clear reports every ranged entry exactly once through its onEvict
// parameter — unconditionally: no entry (expired or not) is dropped without being released.
// Shared by C04 and C15.
func lockedMapClearRule(c *Ctx, ruleID string) {
	L, P := c.L, c.P
	c.Group(ruleID, "lockedMap.Clear", func() {
		fn := P.Fn("ristretto", "lockedMap", "Clear")
		L.Analysed(fname(fn))
		tb := newTB(fn)
		var next *ssa.Next
		eachInstr(fn, func(in ssa.Instruction) {
			if n, ok := in.(*ssa.Next); ok && Match("next(range("+dataPat+"))", tb.T(n), nil) {
				next = n
			}
		})
		if next == nil {
			L.Fail(ruleID, "lockedMap.Clear", "does not range over m.data", fn.Pos())
			return
		}
		paths, _ := explore(fn, tb, ExploreOpts{Start: after(next), StopAt: isInstr(next)})
		good, n := true, 0
		for _, p := range paths {
			if p.CondHeld(tb, "ext[0]("+tb.T(next).String()+")", nil) != 1 {
				continue // loop exit
			}
			n++
			if p.End != ssa.Instruction(next) {
				good = false
				L.Fail(ruleID, "lockedMap.Clear", "the drain loop is left before all entries are reported", next.Pos())
			}
			hands := handOversOnPath(p, tb)
			if len(hands) != 1 || !Match("call[dyn](p[1],_)", hands[0], nil) {
				good = false
				L.Fail(ruleID, "lockedMap.Clear", fmt.Sprintf("an entry is reported %d time(s) per iteration, want exactly once through the onEvict parameter", len(hands)), next.Pos())
			}
		}
		// the loop is entered whenever onEvict != nil
		if good && n > 0 {
			L.Ok(ruleID, "lockedMap.Clear", "each ranged entry reported exactly once", next.Pos())
		} else if n == 0 {
			L.Undecided(ruleID, "lockedMap.Clear", "no loop iteration path found", next.Pos())
		}
	})
}
