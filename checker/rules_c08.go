package main

import (
	"fmt"
	"go/token"
	"go/types"
	"sort"
	"strings"

	"golang.org/x/tools/go/ssa"
)

func init() {
	register(&PropCheck{
		ID: "C08",
		Explanation: "Decides the locking/atomic discipline behind 'concurrent use of the public API is free of data races, panics and deadlocks': " +
			"(R-C08-GUARD) every access to lockedMap.data, expirationMap.buckets/lastCleanedBucketNum (and bucket maps), sampledLFU.used/keyCosts, tinyLFU and cmSketch state and Metrics.life happens with the owning mutex held in a sufficient mode (must-lockset, interprocedural for unexported helpers; constructors exempt by freshness of the object); " +
			"(R-C08-ATOMIC) sampledLFU.maxCost and the metric cells are touched only through sync/atomic; " +
			"(R-C08-CONSTRUCTION) fields written without a lock are written only on NewCache's construction path before the applier is started; " +
			"(R-C08-PAIR) every Lock/RLock is released on every path to every return, never twice, never upgraded; " +
			"(R-C08-ORDER) the held-while-acquiring graph over lock classes (interprocedural) is acyclic with no nested same-class lock; " +
			"(R-C08-NOBLOCK) no blocking channel operation, WaitGroup.Wait or Sleep while a mutex is held (directly or through a module callee); " +
			"(R-C08-NONBLOCK) Get-side and Set-side hand-offs use select with default; " +
			"(R-C08-HANDSHAKE) each goroutine body is a select loop with a stop arm that answers on done and returns, each stopper sends stop then receives done; " +
			"(R-C08-RING) a stripe taken from the pool is put back on every path and a batch accepted by the consumer is replaced by a fresh slice before further use; " +
			"(R-C08-CONFINED) the applier-local map is captured only by closures invoked synchronously by the applier; " +
			"(R-C08-NOPANIC) no explicit panic/log.Fatal/os.Exit is reachable from the listed API (constructors excepted), *Metrics methods guard nil, metric stripe index stays inside the allocation, shard index is taken modulo the allocation length, KeyToHash covers the Key constraint. " +
			"(R-C08-WAITFOR) wait-for structure: the applier and the policy goroutine block on nothing but their own select and the done answer (transitively over everything they call synchronously, bound callbacks included); every blocking operation reachable from an API method is one of a frozen table (Wait/Del: send setBuf; Wait: receive on its marker; Clear: stop/done) whose completing arm exists in the consumer; no sleep/timer/WaitGroup wait is reachable. " +
			"NOT decided: full deadlock freedom through channel capacities (liveness of the applier), runtime internals (sync.Pool, timers), unsafe code in z.",
		Run: runC08,
	})
}

type guardSpec struct {
	typ, field string
	class      string // lock class protecting it
	reason     string
}

var guardTable = []guardSpec{
	{"lockedMap", "data", "lockedMap.RWMutex", "shard map"},
	{"expirationMap", "buckets", "expirationMap.RWMutex", "expiry index"},
	{"expirationMap", "lastCleanedBucketNum", "expirationMap.RWMutex", "sweep cursor"},
	{"sampledLFU", "used", "defaultPolicy.Mutex", "accounted cost"},
	{"sampledLFU", "keyCosts", "defaultPolicy.Mutex", "accounted keys"},
	{"tinyLFU", "freq", "defaultPolicy.Mutex", "count-min sketch"},
	{"tinyLFU", "door", "defaultPolicy.Mutex", "doorkeeper"},
	{"tinyLFU", "incrs", "defaultPolicy.Mutex", "increment counter"},
	{"cmSketch", "rows", "defaultPolicy.Mutex", "sketch rows"},
	{"Metrics", "life", "Metrics.mu", "life histogram"},
}

// isWriteUse: does the value loaded/addressed by in get written (store through the
// address, map update/delete on the loaded map, append-assign)?
func fieldAccessIsWrite(in ssa.Instruction) bool {
	fa, ok := in.(*ssa.FieldAddr)
	if !ok {
		return false
	}
	for _, r := range *fa.Referrers() {
		switch x := r.(type) {
		case *ssa.Store:
			if x.Addr == fa {
				return true
			}
		case *ssa.UnOp:
			if x.Op != token.MUL {
				continue
			}
			for _, rr := range *x.Referrers() {
				switch y := rr.(type) {
				case *ssa.MapUpdate:
					if y.Map == x {
						return true
					}
				case *ssa.Call:
					if b, ok := y.Call.Value.(*ssa.Builtin); ok && (b.Name() == "delete") && len(y.Call.Args) > 0 && y.Call.Args[0] == x {
						return true
					}
				}
			}
		}
	}
	return false
}

// baseIsFresh: the struct whose field is accessed was allocated in this function (a
// constructor building an unpublished object).
func baseIsFresh(v ssa.Value) bool {
	switch x := v.(type) {
	case *ssa.Alloc:
		return true
	case *ssa.FieldAddr:
		return baseIsFresh(x.X)
	case *ssa.UnOp:
		if x.Op == token.MUL {
			if a, ok := x.X.(*ssa.Alloc); ok {
				st := wholeStores(a)
				if len(st) == 1 {
					return baseIsFresh(st[0].Val)
				}
			}
		}
	}
	return false
}

func runC08(c *Ctx) {
	L, P := c.L, c.P
	L.Rule("R-C08-GUARD", "guarded-by: each access to a tabled field holds the owning mutex (W for writes, R|W for reads)", 25)
	L.Rule("R-C08-ATOMIC", "atomic-only fields are touched only through sync/atomic", 3)
	L.Rule("R-C08-CONSTRUCTION", "lock-free field writes happen only on NewCache's path before the applier starts", 4)
	L.Rule("R-C08-PAIR", "every lock acquisition is released exactly once on every path to every return", 15)
	L.Rule("R-C08-ORDER", "held-while-acquiring graph over lock classes is acyclic, no nested same-class lock", 1)
	L.Rule("R-C08-NOBLOCK", "no blocking operation while a mutex is held", 1)
	L.Rule("R-C08-NONBLOCK", "Push and SetWithTTL hand off through select-with-default", 2)
	L.Rule("R-C08-HANDSHAKE", "goroutine bodies have a stop arm (done<-; return); stoppers do stop<- then <-done", 4)
	L.Rule("R-C08-RING", "stripe returned to the pool on every path; accepted batch replaced by a fresh slice", 3)
	L.Rule("R-C08-CONFINED", "applier-local state is captured only by synchronously invoked closures", 1)
	L.Rule("R-C08-NOPANIC", "no reachable explicit panic; nil-guarded Metrics; indexes within allocations; KeyToHash exhaustive", 8)
	L.Rule("R-C08-WAITFOR", "consumer goroutines block only on their own select and stop answer; every blocking wait reachable from the API is in the frozen wait-for table", 17)

	waitForRule(c, "R-C08-WAITFOR")

	lc := newLockCtx(P, "ristretto")
	inPkg := func(fn *ssa.Function) bool { return fn.Pkg == P.Pkgs["ristretto"] }

	// ---- R-C08-GUARD
	c.Group("R-C08-GUARD", "guard table", func() {
		counts := map[string]int{}
		for _, fn := range P.SrcFuncs {
			if !inPkg(fn) {
				continue
			}
			if lc.Dead[fn] {
				L.OkTrivial("R-C08-GUARD", "dead:"+fname(fn), "no call site in the library (reachable from tests only): cannot run concurrently with the API", fn.Pos())
				continue
			}
			for _, g := range guardTable {
				for _, acc := range fieldAccessesIn(fn, g.typ, g.field) {
					var base ssa.Value
					switch x := acc.(type) {
					case *ssa.FieldAddr:
						base = x.X
					case *ssa.Field:
						base = x.X
					}
					if baseIsFresh(base) {
						continue // constructor, object not yet published
					}
					L.Analysed(fname(fn))
					counts[g.typ+"."+g.field]++
					held := lc.At(acc)
					write := fieldAccessIsWrite(acc)
					need := "WR"
					if write {
						need = "W"
					}
					kind := "read"
					if write {
						kind = "write"
					}
					cons := fmt.Sprintf("%s.%s@%s", g.typ, g.field, fname(fn))
					if held.HasClass(g.class, need) {
						L.Ok("R-C08-GUARD", cons, kind+" under "+g.class, acc.Pos())
					} else if held.HasClass(g.class, "WR") {
						L.Fail("R-C08-GUARD", cons, fmt.Sprintf("%s of %s.%s (%s) with %s held only in read mode", kind, g.typ, g.field, g.reason, g.class), acc.Pos())
					} else {
						L.Fail("R-C08-GUARD", cons, fmt.Sprintf("%s of %s.%s (%s) without %s held (held here: %s; callers considered)", kind, g.typ, g.field, g.reason, g.class, held.String()), acc.Pos())
					}
				}
			}
			// bucket maps (type bucket): contents accessed under the expiration-map lock, except
			// buckets already detached by cleanup (ranged from the local slice after the unlock)
			tb := lc.tb(fn)
			eachInstr(fn, func(in ssa.Instruction) {
				var m ssa.Value
				kind := ""
				switch x := in.(type) {
				case *ssa.MapUpdate:
					m, kind = x.Map, "write"
				case *ssa.Lookup:
					m, kind = x.X, "read"
				case *ssa.Range:
					m, kind = x.X, "read"
				case *ssa.Call:
					if calleeName(&x.Call) == "delete" {
						m, kind = x.Call.Args[0], "write"
					}
				}
				if m == nil || recvName(m.Type()) != "bucket" {
					return
				}
				mt := tb.T(m)
				cons := fmt.Sprintf("bucket@%s", fname(fn))
				counts["bucket"]++
				if lc.At(in).HasClass("expirationMap.RWMutex", "W") {
					L.Ok("R-C08-GUARD", cons, "bucket "+kind+" under expirationMap.RWMutex", in.Pos())
					return
				}
				// detached idiom: element of the local slice built while holding the lock, each appended
				// bucket deleted from m.buckets in the same locked loop
				if fname(fn) == "expirationMap.cleanup" && kind == "read" && strings.HasPrefix(mt.String(), "idx(phi") {
					// every bucket read out of the index is deleted from it, in the same critical section,
					// before this unlocked iteration can start
					dels := builtinCalls(fn, "delete")
					lks := lookupsOf(fn, tb, "fld[buckets](p[0])")
					ok := len(lks) > 0
					for _, lk := range lks {
						var del *ssa.Call
						for _, d := range dels {
							if Match("fld[buckets](p[0])", tb.T(d.Call.Args[0]), nil) && d.Call.Args[1] == lk.Index && lc.At(d).HasClass("expirationMap.RWMutex", "W") {
								del = d
							}
						}
						if del == nil {
							ok = false
							continue
						}
						isUnlock := func(x ssa.Instruction) bool {
							cl, isCall := x.(*ssa.Call)
							return isCall && strings.HasSuffix(calleeName(&cl.Call), "Mutex.Unlock")
						}
						if r, _ := reach(after(lk), func(x ssa.Instruction) bool { return x == in || isReturn(x) || isUnlock(x) }, isInstr(del), nil); r != nil {
							ok = false
						}
					}
					if ok {
						L.Ok("R-C08-GUARD", cons, "bucket ranged only after it was removed from the index, in the critical section that read it out (detach idiom)", in.Pos())
						return
					}
				}
				L.Fail("R-C08-GUARD", cons, "bucket map "+kind+" ("+mt.String()+") without the expiration-map lock and not a detached bucket", in.Pos())
			})
		}
		for _, g := range guardTable {
			if counts[g.typ+"."+g.field] == 0 {
				L.Undecided("R-C08-GUARD", g.typ+"."+g.field, "no access to this guarded field found: the guard table no longer matches the code", 0)
			}
		}
	})
	// single ownership of the policy's parts: evict/admit assigned once, in the constructor
	c.Group("R-C08-GUARD", "ownership", func() {
		for _, f := range []string{"evict", "admit"} {
			n := 0
			for _, fn := range P.SrcFuncs {
				if !inPkg(fn) {
					continue
				}
				for _, st := range fieldStoresIn(fn, "defaultPolicy", f) {
					n++
					if fname(fn) != "newDefaultPolicy" {
						L.Fail("R-C08-GUARD", "ownership:defaultPolicy."+f, "re-assigned outside the constructor: the policy mutex would no longer own it", st.Pos())
					}
				}
			}
			L.Check(n == 1, "R-C08-GUARD", "ownership:defaultPolicy."+f, "assigned once in newDefaultPolicy", fmt.Sprintf("assigned %d times", n), 0)
		}
	})

	// ---- R-C08-ATOMIC
	c.Group("R-C08-ATOMIC", "sampledLFU.maxCost", func() {
		n := 0
		for _, fn := range P.SrcFuncs {
			if !inPkg(fn) {
				continue
			}
			for _, acc := range fieldAccessesIn(fn, "sampledLFU", "maxCost") {
				fa, ok := acc.(*ssa.FieldAddr)
				if !ok || baseIsFresh(fa.X) {
					continue
				}
				n++
				for _, r := range *fa.Referrers() {
					call, ok := r.(*ssa.Call)
					if ok && strings.HasPrefix(calleeName(&call.Call), "atomic.") && call.Call.Args[0] == ssa.Value(fa) {
						continue
					}
					L.Fail("R-C08-ATOMIC", "sampledLFU.maxCost@"+fname(fn), "maxCost is accessed non-atomically; UpdateMaxCost/MaxCost run concurrently with the applier", r.Pos())
				}
			}
		}
		L.Check(n >= 2, "R-C08-ATOMIC", "sampledLFU.maxCost", fmt.Sprintf("%d accesses, all through sync/atomic", n), "fewer than two accesses found", 0)
	})
	c.Group("R-C08-ATOMIC", "Metrics.all", func() {
		n := 0
		for _, fn := range P.SrcFuncs {
			if !inPkg(fn) || fname(fn) == "newMetrics" {
				continue
			}
			for _, acc := range fieldAccessesIn(fn, "Metrics", "all") {
				// follow: &p.all -> [t] index -> load slice -> index -> load *uint64 -> must only feed atomic.*
				var cells []ssa.Value
				var walk func(v ssa.Value, depth int)
				walk = func(v ssa.Value, depth int) {
					if depth > 8 || v.Referrers() == nil {
						return
					}
					if pt, ok := v.Type().Underlying().(*types.Pointer); ok {
						if b, ok := pt.Elem().Underlying().(*types.Basic); ok && b.Kind() == types.Uint64 {
							if _, isIdx := v.(*ssa.IndexAddr); !isIdx {
								cells = append(cells, v)
								return
							}
						}
					}
					for _, r := range *v.Referrers() {
						if rv, ok := r.(ssa.Value); ok {
							switch r.(type) {
							case *ssa.IndexAddr, *ssa.UnOp, *ssa.Index, *ssa.Slice, *ssa.Phi:
								walk(rv, depth+1)
							}
						}
					}
				}
				walk(acc.(ssa.Value), 0)
				for _, cell := range cells {
					n++
					for _, r := range *cell.Referrers() {
						call, ok := r.(*ssa.Call)
						if ok && strings.HasPrefix(calleeName(&call.Call), "atomic.") && call.Call.Args[0] == cell {
							continue
						}
						if _, isStore := r.(*ssa.Store); isStore && r.(*ssa.Store).Val == cell {
							continue // storing the pointer itself is not an access to the cell
						}
						L.Fail("R-C08-ATOMIC", "Metrics.all@"+fname(fn), "a metric cell is accessed without sync/atomic", r.Pos())
					}
				}
			}
		}
		L.Check(n >= 3, "R-C08-ATOMIC", "Metrics.all", fmt.Sprintf("%d cell uses, all through sync/atomic", n), "fewer than three metric-cell uses found", 0)
	})
	c.Group("R-C08-ATOMIC", "64-bit alignment", func() {
		// sync/atomic: on 32-bit platforms 64-bit atomic operands must be 64-bit aligned; only the
		// first word of an allocated struct is guaranteed to be. Evaluated with the gc/386 size model.
		sizes := types.SizesFor("gc", "386")
		n := 0
		for _, fn := range P.SrcFuncs {
			if !isModuleFunc(fn) {
				continue
			}
			for _, ci := range allCalls(fn) {
				cn := calleeName(ci.Common())
				if !strings.HasPrefix(cn, "atomic.") || !strings.HasSuffix(cn, "64") {
					continue
				}
				fa, ok := ci.Common().Args[0].(*ssa.FieldAddr)
				if !ok {
					continue
				}
				pt, ok := fa.X.Type().Underlying().(*types.Pointer)
				if !ok {
					continue
				}
				st, ok := pt.Elem().Underlying().(*types.Struct)
				if !ok {
					continue
				}
				var fields []*types.Var
				for i := 0; i < st.NumFields(); i++ {
					fields = append(fields, st.Field(i))
				}
				off := sizes.Offsetsof(fields)[fa.Field]
				n++
				cons := "align:" + recvName(fa.X.Type()) + "." + fieldName(fa.X.Type(), fa.Field)
				L.Check(off%8 == 0, "R-C08-ATOMIC", cons, fmt.Sprintf("offset %d on 386: 64-bit aligned", off), fmt.Sprintf("field is at offset %d in the gc/386 layout: 64-bit atomic operations on it panic on 32-bit platforms", off), ci.Pos())
			}
		}
		if n == 0 {
			L.Undecided("R-C08-ATOMIC", "64-bit alignment", "no 64-bit atomic on a struct field found", 0)
		}
	})
	c.Group("R-C08-ATOMIC", "Cache.isClosed", func() {
		ct := P.Named("ristretto", "Cache")
		st := ct.Underlying().(*types.Struct)
		ft := st.Field(P.FieldIndex("ristretto", "Cache", "isClosed")).Type()
		L.Check(types.TypeString(ft, nil) == "sync/atomic.Bool", "R-C08-ATOMIC", "Cache.isClosed", "has type atomic.Bool", "Cache.isClosed is "+types.TypeString(ft, nil)+", not atomic.Bool", 0)
	})

	// ---- R-C08-CONSTRUCTION
	c.Group("R-C08-CONSTRUCTION", "lock-free fields", func() {
		g := buildCallGraph(P)
		nc := P.Fn("ristretto", "", "NewCache")
		type lf struct{ typ, field string }
		fields := []lf{{"lockedMap", "shouldUpdate"}, {"defaultPolicy", "metrics"}, {"sampledLFU", "metrics"}, {"Cache", "Metrics"},
			{"Cache", "onExit"}, {"Cache", "onEvict"}, {"Cache", "onReject"}, {"Cache", "keyToHash"}, {"Cache", "cost"}, {"Cache", "ignoreInternalCost"}}
		writers := map[*ssa.Function]bool{}
		for _, f := range fields {
			for _, fn := range P.SrcFuncs {
				if !inPkg(fn) {
					continue
				}
				for _, st := range fieldStoresIn(fn, f.typ, f.field) {
					if baseIsFresh(st.Addr.(*ssa.FieldAddr).X) {
						continue
					}
					writers[fn] = true
				}
			}
		}
		// callers of each writer must all lie on NewCache's call tree
		fromNC := map[*ssa.Function]bool{}
		var mark func(f *ssa.Function)
		mark = func(f *ssa.Function) {
			if fromNC[f] {
				return
			}
			fromNC[f] = true
			for _, cal := range g.edges[f] {
				mark(cal)
			}
		}
		mark(nc)
		exported := []*ssa.Function{}
		for _, fn := range P.SrcFuncs {
			if inPkg(fn) && fn != nc && fn.Parent() == nil && fn.Object() != nil && fn.Object().Exported() {
				if fn.Signature.Recv() == nil || strings.Contains("Cache Metrics", recvName(fn.Signature.Recv().Type())) {
					exported = append(exported, fn)
				}
			}
		}
		for w := range writers {
			cons := "writer:" + fname(w)
			if !fromNC[w] {
				L.Fail("R-C08-CONSTRUCTION", cons, "writes a lock-free field but is not on NewCache's call tree", w.Pos())
				continue
			}
			bad := false
			for _, e := range exported {
				if p := g.Reaches(e, func(f *ssa.Function) bool { return f == w }); p != nil {
					bad = true
					L.Fail("R-C08-CONSTRUCTION", cons, "lock-free field writer is reachable from the public API after construction: "+callPathString(p), w.Pos())
				}
			}
			if !bad {
				L.Ok("R-C08-CONSTRUCTION", cons, "reachable only from NewCache", w.Pos())
			}
		}
		// inside NewCache nothing of that happens after the applier is started
		var goIn ssa.Instruction
		eachInstr(nc, func(in ssa.Instruction) {
			if _, ok := in.(*ssa.Go); ok {
				goIn = in
			}
		})
		if goIn == nil {
			L.Undecided("R-C08-CONSTRUCTION", "NewCache#go", "no go statement in NewCache", nc.Pos())
			return
		}
		late, _ := reach(after(goIn), func(in ssa.Instruction) bool {
			if st, ok := in.(*ssa.Store); ok {
				if fa, ok := st.Addr.(*ssa.FieldAddr); ok && recvName(fa.X.Type()) == "Cache" {
					return true
				}
			}
			if ci, ok := in.(*ssa.Call); ok {
				if sc := staticCallee(&ci.Call); sc != nil && writers[sc] {
					return true
				}
				if ci.Call.IsInvoke() && ci.Call.Method.Name() == "SetShouldUpdateFn" {
					return true
				}
			}
			return false
		}, nil, nil)
		L.Check(late == nil, "R-C08-CONSTRUCTION", "NewCache#go", "the applier is started after the last lock-free initialisation", "NewCache writes cache state after starting the applier goroutine", instrPos(late))
		L.Advisory("defaultPolicy.isClosed is a plain bool written by Close and read by Push: races only with Close, which is outside C08's call list")
	})

	// ---- R-C08-PAIR
	c.Group("R-C08-PAIR", "lock pairing", func() {
		for _, fn := range P.SrcFuncs {
			if !inPkg(fn) {
				continue
			}
			li := lc.infos[fn]
			if li == nil || len(li.Ops) == 0 {
				continue
			}
			L.Analysed(fname(fn))
			tb := lc.tb(fn)
			cons := "pair@" + fname(fn)
			ok := true
			for _, pr := range li.Problems {
				ok = false
				L.Fail("R-C08-PAIR", cons, pr.msg, pr.in.Pos())
			}
			defers := deferredUnlocks(fn, tb)
			entry := lc.entry[fn]
			for _, r := range returnsOf(fn) {
				held := li.Before[r]
				for tok := range held {
					if entry[tok] {
						continue
					}
					d, has := defers[tok]
					if !has || !instrDominates(d, r) {
						ok = false
						L.Fail("R-C08-PAIR", cons, "returns with "+tok+" still held (no unlock on this path, no dominating deferred unlock): every later operation on it blocks for ever", r.Pos())
					}
				}
				for tok, d := range defers {
					if instrDominates(d, r) && !held[tok] {
						ok = false
						L.Fail("R-C08-PAIR", cons, "deferred unlock of "+tok+" runs at a return where the lock is no longer held (double unlock)", r.Pos())
					}
				}
			}
			// a goroutine body never returns, so the return-based pairing says nothing about its loop: an
			// acquisition must not be reachable again (next iteration) without an intervening release of the
			// same lock, and no blocking operation may be reached with it still held (may-analysis; the
			// must-lockset used elsewhere forgets a lock held on only one of the edges into the loop header)
			for in, op := range li.Ops {
				if !op.acq {
					continue
				}
				isRelease := func(x ssa.Instruction) bool {
					o, isOp := li.Ops[x]
					return isOp && !o.acq && o.class == op.class && o.base == op.base
				}
				if _, hasDefer := defers[op.token()]; hasDefer {
					continue
				}
				again, path := reach(after(in), func(x ssa.Instruction) bool {
					if x == in {
						return true
					}
					switch y := x.(type) {
					case *ssa.Select:
						return y.Blocking
					case *ssa.Send:
						return true
					case *ssa.UnOp:
						return y.Op == token.ARROW
					}
					return false
				}, isRelease, nil)
				if again != nil {
					ok = false
					what := "a blocking channel operation is reached"
					if again == in {
						what = "the same lock is acquired again (next iteration)"
					}
					L.Fail("R-C08-PAIR", cons, op.token()+" is not released on a path on which "+what+" (block path "+pathString(path)+"): the goroutine deadlocks on itself / every other user of the mutex stalls", in.Pos())
				}
			}
			if ok {
				L.Ok("R-C08-PAIR", cons, fmt.Sprintf("%d lock operation(s) paired on every path", len(li.Ops)), fn.Pos())
			}
		}
	})

	// ---- R-C08-ORDER and R-C08-NOBLOCK need per-function summaries
	g := buildCallGraph(P)
	acquires := map[*ssa.Function]map[string]bool{}
	blocks := map[*ssa.Function]ssa.Instruction{}
	isBlocking := func(in ssa.Instruction) bool {
		switch x := in.(type) {
		case *ssa.Send:
			return true
		case *ssa.UnOp:
			return x.Op == token.ARROW
		case *ssa.Select:
			return x.Blocking
		case *ssa.Call:
			n := calleeName(&x.Call)
			return n == "sync.WaitGroup.Wait" || n == "time.Sleep"
		}
		return false
	}
	for _, fn := range P.SrcFuncs {
		if !inPkg(fn) {
			continue
		}
		acquires[fn] = map[string]bool{}
		for _, op := range lc.infos[fn].Ops {
			if op.acq {
				acquires[fn][op.class] = true
			}
		}
		eachInstr(fn, func(in ssa.Instruction) {
			if blocks[fn] == nil && isBlocking(in) {
				blocks[fn] = in
			}
		})
	}
	for changed := true; changed; {
		changed = false
		for _, fn := range P.SrcFuncs {
			if !inPkg(fn) {
				continue
			}
			for _, cal := range g.edges[fn] {
				if !inPkg(cal) {
					continue
				}
				// a closure merely created here is not necessarily called here; only propagate for real calls
				called := false
				for _, ci := range allCalls(fn) {
					if _, isGo := ci.(*ssa.Go); isGo {
						continue
					}
					cc := ci.Common()
					if sc := staticCallee(cc); sc == cal {
						called = true
					} else if mc, ok := cc.Value.(*ssa.MakeClosure); ok && mc.Fn == cal {
						called = true
					} else if cc.IsInvoke() && P.FnOpt("ristretto", map[string]string{"store": "shardedMap", "ringConsumer": "defaultPolicy"}[recvName(cc.Value.Type())], cc.Method.Name()) == cal {
						called = true
					}
				}
				if !called {
					continue
				}
				for cl := range acquires[cal] {
					if !acquires[fn][cl] {
						acquires[fn][cl] = true
						changed = true
					}
				}
				if blocks[fn] == nil && blocks[cal] != nil {
					blocks[fn] = blocks[cal]
					changed = true
				}
			}
		}
	}
	calleesOf := func(ci ssa.CallInstruction) []*ssa.Function {
		cc := ci.Common()
		if sc := staticCallee(cc); sc != nil {
			return []*ssa.Function{sc}
		}
		if mc, ok := cc.Value.(*ssa.MakeClosure); ok {
			return []*ssa.Function{mc.Fn.(*ssa.Function)}
		}
		if cc.IsInvoke() {
			if f := P.FnOpt("ristretto", map[string]string{"store": "shardedMap", "ringConsumer": "defaultPolicy"}[recvName(cc.Value.Type())], cc.Method.Name()); f != nil {
				return []*ssa.Function{f}
			}
		}
		return nil
	}
	c.Group("R-C08-ORDER", "lock order", func() {
		edges := map[string]map[string]token.Pos{}
		addEdge := func(a, b string, p token.Pos) {
			if edges[a] == nil {
				edges[a] = map[string]token.Pos{}
			}
			if _, ok := edges[a][b]; !ok {
				edges[a][b] = p
			}
		}
		for _, fn := range P.SrcFuncs {
			if !inPkg(fn) {
				continue
			}
			li := lc.infos[fn]
			eachInstr(fn, func(in ssa.Instruction) {
				held := li.Before[in]
				if len(held) == 0 {
					return
				}
				var classes []string
				for _, cm := range held.Classes() {
					classes = append(classes, cm[:strings.Index(cm, "/")])
				}
				if op, ok := li.Ops[in]; ok && op.acq {
					for _, h := range classes {
						addEdge(h, op.class, in.Pos())
					}
				}
				if ci, ok := in.(ssa.CallInstruction); ok {
					if _, isGo := in.(*ssa.Go); isGo {
						return
					}
					for _, cal := range calleesOf(ci) {
						for cl := range acquires[cal] {
							for _, h := range classes {
								addEdge(h, cl, in.Pos())
							}
						}
					}
				}
			})
		}
		var desc []string
		ok := true
		for a, m := range edges {
			for b, p := range m {
				desc = append(desc, a+"→"+b)
				if a == b {
					ok = false
					L.Fail("R-C08-ORDER", "order:"+a+"→"+b, "a second lock of class "+a+" is acquired while one is held (256 shards: nested shard locks can deadlock)", p)
				}
			}
		}
		sort.Strings(desc)
		// cycle detection
		var visit func(n string, stack []string, seen map[string]bool) []string
		visit = func(n string, stack []string, seen map[string]bool) []string {
			for i, s := range stack {
				if s == n {
					return append(append([]string{}, stack[i:]...), n)
				}
			}
			if seen[n] {
				return nil
			}
			seen[n] = true
			for b := range edges[n] {
				if b == n {
					continue
				}
				if cyc := visit(b, append(stack, n), seen); cyc != nil {
					return cyc
				}
			}
			return nil
		}
		for a := range edges {
			if cyc := visit(a, nil, map[string]bool{}); cyc != nil {
				ok = false
				L.Fail("R-C08-ORDER", "order:cycle", "lock classes are acquired in a cycle: "+strings.Join(cyc, " → ")+" (two goroutines taking them in opposite order deadlock)", edges[cyc[0]][cyc[1]])
				break
			}
		}
		if ok {
			L.Ok("R-C08-ORDER", "order", "held-while-acquiring edges: {"+strings.Join(desc, ", ")+"}, acyclic", 0)
		}
	})
	c.Group("R-C08-NOBLOCK", "blocking under lock", func() {
		n := 0
		for _, fn := range P.SrcFuncs {
			if !inPkg(fn) {
				continue
			}
			li := lc.infos[fn]
			eachInstr(fn, func(in ssa.Instruction) {
				held := li.Before[in]
				if len(held) == 0 {
					return
				}
				n++
				if isBlocking(in) {
					L.Fail("R-C08-NOBLOCK", "block@"+fname(fn), "blocking operation while holding "+held.String()+": every other user of that mutex stalls until the channel partner shows up", in.Pos())
					return
				}
				if ci, ok := in.(ssa.CallInstruction); ok {
					if _, isGo := in.(*ssa.Go); isGo {
						return
					}
					for _, cal := range calleesOf(ci) {
						if b := blocks[cal]; b != nil {
							L.Fail("R-C08-NOBLOCK", "block@"+fname(fn), "calls "+fname(cal)+", which blocks on a channel at "+P.pos(b.Pos())+", while holding "+held.String(), in.Pos())
						}
					}
					cc := ci.Common()
					if !cc.IsInvoke() && calleeName(cc) == "dyn" {
						L.Advisory(fmt.Sprintf("user-supplied function called while %s is held in %s (%s): re-entrancy into the cache from it can self-deadlock", held.String(), fname(fn), P.pos(in.Pos())))
					}
				}
			})
		}
		L.Ok("R-C08-NOBLOCK", "blocking under lock", fmt.Sprintf("%d instructions execute under a mutex, none blocks on a channel/WaitGroup/Sleep (module callees included)", n), 0)
	})

	// ---- R-C08-NONBLOCK
	c.Group("R-C08-NONBLOCK", "defaultPolicy.Push", func() {
		fn := P.Fn("ristretto", "defaultPolicy", "Push")
		tb := newTB(fn)
		n := 0
		for _, s := range sendsIn(fn) {
			if Match("fld[itemsCh](p[0])", tb.T(s.Chan), nil) {
				n++
				if s.Blocking {
					L.Fail("R-C08-NONBLOCK", "defaultPolicy.Push", "Get-side hand-off to the policy goroutine is a blocking send: Get can stall behind the policy lock", s.In.Pos())
					return
				}
			}
		}
		L.Check(n == 1, "R-C08-NONBLOCK", "defaultPolicy.Push", "single non-blocking send on itemsCh", fmt.Sprintf("%d sends on itemsCh", n), fn.Pos())
	})
	c.Group("R-C08-NONBLOCK", "Cache.SetWithTTL", func() {
		fn := P.Fn("ristretto", "Cache", "SetWithTTL")
		tb := newTB(fn)
		n := 0
		for _, s := range sendsIn(fn) {
			if Match("fld[setBuf](p[0])", tb.T(s.Chan), nil) {
				n++
				if s.Blocking {
					L.Fail("R-C08-NONBLOCK", "Cache.SetWithTTL", "Set blocks on a full write buffer", s.In.Pos())
					return
				}
			}
		}
		L.Check(n == 1, "R-C08-NONBLOCK", "Cache.SetWithTTL", "single non-blocking send on setBuf", fmt.Sprintf("%d sends on setBuf", n), fn.Pos())
	})

	// ---- R-C08-HANDSHAKE
	handshakeRule(c, "R-C08-HANDSHAKE")

	// ---- R-C08-RING
	ringRule(c, "R-C08-RING")

	// ---- R-C08-CONFINED
	c.Group("R-C08-CONFINED", "Cache.processItems#startTs", func() {
		fn := P.Fn("ristretto", "Cache", "processItems")
		bad := ""
		for _, a := range fn.AnonFuncs {
			// every use of the closure value in processItems: call target, or argument of store.Cleanup
			eachInstr(fn, func(in ssa.Instruction) {
				mc, ok := in.(*ssa.MakeClosure)
				if !ok || mc.Fn != a {
					return
				}
				for _, r := range *mc.Referrers() {
					switch x := r.(type) {
					case *ssa.Call:
						if x.Call.Value == ssa.Value(mc) {
							continue
						}
						if calleeName(&x.Call) == "iface:store.Cleanup" {
							continue
						}
						bad = "closure " + fname(a) + " is passed to " + calleeName(&x.Call)
					case *ssa.Go:
						bad = "closure " + fname(a) + " is started as a goroutine"
					case *ssa.Store:
						bad = "closure " + fname(a) + " is stored"
					case *ssa.DebugRef:
					default:
						bad = "closure " + fname(a) + " escapes"
					}
				}
			})
		}
		L.Check(bad == "", "R-C08-CONFINED", "Cache.processItems#startTs", "the closures capturing the applier-local map are only called by the applier (directly or through store.Cleanup)", bad+": the unsynchronised map startTs would be shared between goroutines", fn.Pos())
	})

	// ---- R-C08-NOPANIC
	c.Group("R-C08-NOPANIC", "reachable panics", func() {
		roots := []struct{ recv, name string }{{"Cache", "Get"}, {"Cache", "Set"}, {"Cache", "SetWithTTL"}, {"Cache", "Del"}, {"Cache", "GetTTL"},
			{"Cache", "IterValues"}, {"Cache", "Wait"}, {"Cache", "Clear"}, {"Cache", "UpdateMaxCost"}, {"Cache", "MaxCost"}, {"Cache", "RemainingCost"},
			{"Cache", "processItems"}, {"defaultPolicy", "processItems"}, {"Metrics", "String"}, {"Metrics", "Ratio"}, {"Metrics", "Clear"}, {"Metrics", "LifeExpectancySeconds"}}
		hasPanic := func(f *ssa.Function) bool {
			found := false
			eachInstr(f, func(in ssa.Instruction) {
				switch x := in.(type) {
				case *ssa.Panic:
					if mi, ok := x.X.(*ssa.MakeInterface); ok {
						if cst, ok := mi.X.(*ssa.Const); ok && strings.Contains(constSym(cst), "blocking select matched no case") {
							return
						}
					}
					found = true
				case *ssa.Call:
					n := calleeName(&x.Call)
					if strings.HasPrefix(n, "log.Fatal") || n == "os.Exit" {
						found = true
					}
				}
			})
			return found
		}
		for _, r := range roots {
			fn := P.FnOpt("ristretto", r.recv, r.name)
			if fn == nil {
				L.Undecided("R-C08-NOPANIC", "root:"+r.recv+"."+r.name, "root not found", 0)
				continue
			}
			path := g.Reaches(fn, hasPanic)
			L.Check(path == nil, "R-C08-NOPANIC", "root:"+r.recv+"."+r.name, "no explicit panic/fatal reachable", "an explicit panic/fatal is reachable: "+callPathString(path), fn.Pos())
		}
	})
	c.Group("R-C08-NOPANIC", "Metrics nil guards", func() {
		mt := P.Named("ristretto", "Metrics")
		n := 0
		for i := 0; i < mt.NumMethods(); i++ {
			fn := P.SSA.FuncValue(mt.Method(i))
			if fn == nil || fn.Blocks == nil {
				continue
			}
			tb := newTB(fn)
			derefs := []ssa.Instruction{}
			eachInstr(fn, func(in ssa.Instruction) {
				if fa, ok := in.(*ssa.FieldAddr); ok && fa.X == ssa.Value(fn.Params[0]) {
					derefs = append(derefs, in)
				}
			})
			if len(derefs) == 0 {
				continue
			}
			n++
			nonNil := edgesWhere(fn, tb, "eq(p[0],c[nil])", nil, false)
			bad, _ := reach(entryPos(fn), isAnyInstr(derefs), nil, cutSet(nonNil))
			L.Check(bad == nil && len(nonNil) > 0, "R-C08-NOPANIC", "Metrics."+fn.Name()+"#nil", "dereferences p only after p != nil", "dereferences a nil *Metrics when metrics are disabled (Config.Metrics=false leaves Cache.Metrics nil)", instrPos(bad))
		}
		if n == 0 {
			L.Undecided("R-C08-NOPANIC", "Metrics nil guards", "no dereferencing Metrics method found", 0)
		}
	})
	c.Group("R-C08-NOPANIC", "Metrics.add#index", func() {
		fn := P.Fn("ristretto", "Metrics", "add")
		tb := newTB(fn)
		var idx *ssa.IndexAddr
		eachInstr(fn, func(in ssa.Instruction) {
			if ia, ok := in.(*ssa.IndexAddr); ok {
				if _, isSlice := ia.X.Type().Underlying().(*types.Slice); isSlice {
					idx = ia
				}
			}
		})
		if idx == nil {
			L.Undecided("R-C08-NOPANIC", "Metrics.add#index", "no slice index found", fn.Pos())
			return
		}
		env := Env{}
		it := tb.T(idx.Index)
		hi := int64(-1)
		if Match("mul(rem(_,?m),?k)", it, env) && env["m"].Op == "c" && env["k"].Op == "c" {
			var m, k int64
			fmt.Sscan(env["m"].Sym, &m)
			fmt.Sscan(env["k"].Sym, &k)
			hi = (m - 1) * k
		} else if Match("rem(_,?m)", it, env) && env["m"].Op == "c" {
			var m int64
			fmt.Sscan(env["m"].Sym, &m)
			hi = m - 1
		}
		// allocation length in newMetrics
		nm := P.Fn("ristretto", "", "newMetrics")
		alloc := int64(-1)
		eachInstr(nm, func(in ssa.Instruction) {
			if ms, ok := in.(*ssa.MakeSlice); ok {
				if cst, ok := ms.Len.(*ssa.Const); ok {
					fmt.Sscan(constSym(cst), &alloc)
				}
			}
			if al, ok := in.(*ssa.Alloc); ok {
				if at, ok := al.Type().Underlying().(*types.Pointer).Elem().Underlying().(*types.Array); ok && strings.Contains(al.Comment, "makeslice") {
					alloc = at.Len()
				}
			}
		})
		if hi < 0 || alloc < 0 {
			L.Undecided("R-C08-NOPANIC", "Metrics.add#index", fmt.Sprintf("cannot bound the stripe index %s against the allocation (%d)", it, alloc), idx.Pos())
			return
		}
		L.Check(hi < alloc, "R-C08-NOPANIC", "Metrics.add#index", fmt.Sprintf("stripe index ≤ %d < %d cells", hi, alloc), fmt.Sprintf("stripe index can reach %d but only %d cells are allocated: index out of range in Get/Set", hi, alloc), idx.Pos())
	})
	c.Group("R-C08-NOPANIC", "shard index", func() {
		numShards := P.Const("ristretto", "numShards").Value.Value.ExactString()
		n := 0
		for _, fn := range P.SrcFuncs {
			if !inPkg(fn) || !strings.HasPrefix(fname(fn), "shardedMap.") {
				continue
			}
			tb := newTB(fn)
			eachInstr(fn, func(in ssa.Instruction) {
				ia, ok := in.(*ssa.IndexAddr)
				if !ok || !Match("fld[shards](_)", tb.T(ia.X), nil) {
					return
				}
				it := tb.T(ia.Index)
				n++
				cons := "shards@" + fname(fn)
				if Match("rem(_,c["+numShards+"])", it, nil) || it.Op == "phi" || it.Op == "add" || strings.HasPrefix(it.String(), "ext[") {
					L.OkTrivial("R-C08-NOPANIC", cons, "index "+it.String()+" within numShards", ia.Pos())
				} else {
					L.Fail("R-C08-NOPANIC", cons, "shard index "+it.String()+" is not reduced modulo numShards", ia.Pos())
				}
			})
		}
		nsm := P.Fn("ristretto", "", "newShardedMap")
		tb := newTB(nsm)
		okAlloc := false
		eachInstr(nsm, func(in ssa.Instruction) {
			if ms, ok := in.(*ssa.MakeSlice); ok && strings.Contains(tb.T(ms.Len).String(), numShards) {
				okAlloc = true
			}
			if al, ok := in.(*ssa.Alloc); ok && strings.Contains(al.Comment, "makeslice") {
				if at, ok := al.Type().Underlying().(*types.Pointer).Elem().Underlying().(*types.Array); ok && fmt.Sprint(at.Len()) == numShards {
					okAlloc = true
				}
			}
		})
		L.Check(okAlloc && n > 0, "R-C08-NOPANIC", "shards#alloc", "shards allocated with numShards elements", "shards are not allocated with numShards elements", nsm.Pos())
	})
	// constant index / constant low bound into a slice: the length must be established on every path
	c.Group("R-C08-NOPANIC", "constant slice indexes", func() {
		n := 0
		for _, fn := range P.SrcFuncs {
			if fn.Pkg != P.Pkgs["ristretto"] {
				continue
			}
			var tb *TB
			eachInstr(fn, func(in ssa.Instruction) {
				var sl ssa.Value
				var k int64 = -1
				what := ""
				switch x := in.(type) {
				case *ssa.IndexAddr:
					if c, ok := x.Index.(*ssa.Const); ok && c.Value != nil {
						sl, k, what = x.X, c.Int64(), "index"
					}
				case *ssa.Slice:
					if c, ok := x.Low.(*ssa.Const); ok && c != nil && c.Value != nil && c.Int64() > 0 {
						sl, k, what = x.X, c.Int64()-1, "low bound"
					}
				}
				if sl == nil {
					return
				}
				if _, isSlice := sl.Type().Underlying().(*types.Slice); !isSlice {
					return
				}
				if tb == nil {
					tb = newTB(fn)
				}
				S := tb.T(sl).String()
				cons := fmt.Sprintf("%s#%s[%d]", fname(fn), S, k)
				n++
				if strings.HasPrefix(S, "make[") || strings.HasPrefix(S, "slice(new[") {
					L.OkTrivial("R-C08-NOPANIC", cons, "fresh allocation", in.Pos())
					return
				}
				guard := map[Edge]bool{}
				for _, b := range fn.Blocks {
					iff := lastIf(b)
					if iff == nil {
						continue
					}
					t := tb.T(iff.Cond)
					tEdge, fEdge := 0, 1
					for t.Op == "not" {
						t = t.Args[0]
						tEdge, fEdge = fEdge, tEdge
					}
					if len(t.Args) != 2 {
						continue
					}
					lenFirst := t.Args[0].String() == "call[len]("+S+")" && t.Args[1].Op == "c"
					lenSecond := t.Args[1].String() == "call[len]("+S+")" && t.Args[0].Op == "c"
					if !lenFirst && !lenSecond {
						continue
					}
					cst := t.Args[1]
					if lenSecond {
						cst = t.Args[0]
					}
					var nn int64
					if _, err := fmt.Sscanf(cst.Sym, "%d", &nn); err != nil {
						continue
					}
					switch {
					case t.Op == "eq" && nn > k:
						guard[Edge{b, tEdge}] = true
					case t.Op == "eq" && nn == 0 && k == 0:
						guard[Edge{b, fEdge}] = true
					case t.Op == "ne" && nn > k:
						guard[Edge{b, fEdge}] = true
					case t.Op == "ne" && nn == 0 && k == 0:
						guard[Edge{b, tEdge}] = true
					case t.Op == "lt" && lenSecond && nn >= k: // n < len
						guard[Edge{b, tEdge}] = true
					case t.Op == "lt" && lenFirst && nn >= k+1: // !(len < n)
						guard[Edge{b, fEdge}] = true
					case t.Op == "le" && lenSecond && nn >= k+1: // n <= len
						guard[Edge{b, tEdge}] = true
					case t.Op == "le" && lenFirst && nn >= k: // !(len <= n)
						guard[Edge{b, fEdge}] = true
					}
				}
				bad, path := reach(entryPos(fn), isInstr(in), nil, cutSet(guard))
				if bad != nil {
					L.Undecided("R-C08-NOPANIC", cons, fmt.Sprintf("constant %s %d into %s is reachable without a test establishing len > %d (block path %s): index out of range when the slice is shorter", what, k, S, k, pathString(path)), in.Pos())
					return
				}
				L.Ok("R-C08-NOPANIC", cons, fmt.Sprintf("guarded by a length test (len > %d) on every path", k), in.Pos())
			})
		}
		L.OkTrivial("R-C08-NOPANIC", "constant slice indexes", fmt.Sprintf("%d constant index/low-bound site(s) in the package", n), 0)
	})
	// KeyToHash covers the Key constraint (otherwise its default arm panics inside Get/Set/Del)
	c.Group("R-C08-NOPANIC", "z.KeyToHash", func() {
		sub := &Ctx{L: newLedger("C08"), P: P, Tier: c.Tier}
		sub.L.P = P
		runC01HashArms(sub)
		for _, o := range sub.L.Obls {
			if strings.HasPrefix(o.Detail, "typed arm hashes") {
				continue // which bytes a typed arm hashes is C01's business: no panic follows from it
			}
			if strings.Contains(o.Construct, "#term:") || o.Outcome != OK {
				o.Rule = "R-C08-NOPANIC"
				L.add(o)
			}
		}
	})
}

// handshakeRule: shape of the stop/done protocol. Shared by C08 and C15.
func handshakeRule(c *Ctx, ruleID string) {
	L, P := c.L, c.P
	for _, body := range []struct{ recv, stopF, doneF string }{{"Cache", "stop", "done"}, {"defaultPolicy", "stop", "done"}} {
		body := body
		c.Group(ruleID, body.recv+".processItems", func() {
			fn := P.Fn("ristretto", body.recv, "processItems")
			L.Analysed(fname(fn))
			tb := newTB(fn)
			var sel *ssa.Select
			eachInstr(fn, func(in ssa.Instruction) {
				if s, ok := in.(*ssa.Select); ok && s.Blocking {
					sel = s
				}
			})
			if sel == nil {
				L.Fail(ruleID, body.recv+".processItems", "goroutine body has no blocking select loop", fn.Pos())
				return
			}
			stopState := -1
			for i, st := range sel.States {
				if Match("fld["+body.stopF+"](p[0])", tb.T(st.Chan), nil) {
					stopState = i
				}
			}
			if stopState < 0 {
				L.Fail(ruleID, body.recv+".processItems", "goroutine body has no stop arm: Clear/Close would block for ever", sel.Pos())
				return
			}
			paths, _ := explore(fn, tb, ExploreOpts{Start: after(sel), StopAt: isInstr(sel), TrackField: trackItemFlag})
			ok, n := true, 0
			loops := false
			for _, p := range paths {
				if p.End == ssa.Instruction(sel) {
					loops = true
				}
				if !p.SelectTaken(sel, stopState) {
					continue
				}
				n++
				_, isRet := p.End.(*ssa.Return)
				sendsDone := p.Has(func(in ssa.Instruction) bool {
					s, isS := in.(*ssa.Send)
					return isS && Match("fld["+body.doneF+"](p[0])", tb.T(s.Chan), nil)
				})
				if !isRet || !sendsDone {
					ok = false
				}
			}
			L.Check(ok && n > 0 && loops, ruleID, body.recv+".processItems", "select loop; stop arm answers on done and returns", "the stop arm does not do `done <- ...; return` (or the body is not a loop): the stopper would block for ever or the goroutine would keep running", sel.Pos())
		})
	}
	for _, st := range []struct{ recv, name string }{{"Cache", "Clear"}, {"Cache", "Close"}, {"defaultPolicy", "Close"}} {
		st := st
		c.Group(ruleID, st.recv+"."+st.name+"#stopper", func() {
			fn := P.Fn("ristretto", st.recv, st.name)
			tb := newTB(fn)
			var send, recv ssa.Instruction
			for _, s := range sendsIn(fn) {
				if Match("fld[stop](p[0])", tb.T(s.Chan), nil) && s.Sel == nil {
					send = s.In
				}
			}
			for _, r := range recvsIn(fn) {
				if Match("fld[done](p[0])", tb.T(r.Chan), nil) && r.Sel == nil {
					recv = r.In
				}
			}
			if send == nil || recv == nil {
				L.Fail(ruleID, st.recv+"."+st.name+"#stopper", "does not perform `stop <- ...` followed by `<-done`", fn.Pos())
				return
			}
			bad, _ := mustPass(after(send), isInstr(recv), nil)
			L.Check(instrDominates(send, recv) && bad == nil, ruleID, st.recv+"."+st.name+"#stopper", "stop <- …; <-done on every path", "after signalling stop a path does not wait for done", send.Pos())
		})
	}
}

// ringRule: a ring stripe is used by one goroutine at a time (pool Get ... Put on every path, not
// stored elsewhere) and a batch handed to the policy is never written again (replaced by a fresh
// slice before any further use). Shared by C08 (data race) and C09 (the access stream that feeds the
// frequency estimates is not corrupted).
func ringRule(c *Ctx, ruleID string) {
	L, P := c.L, c.P
	c.Group(ruleID, "ringBuffer.Push", func() {
		fn := P.Fn("ristretto", "ringBuffer", "Push")
		L.Analysed(fname(fn))
		gets := callsTo(fn, "sync.Pool.Get")
		puts := callsTo(fn, "sync.Pool.Put")
		if len(gets) != 1 || len(puts) < 1 {
			L.Fail(ruleID, "ringBuffer.Push", "stripe is not taken from and returned to the pool", fn.Pos())
			return
		}
		tb := newTB(fn)
		isPut := func(in ssa.Instruction) bool {
			cl, ok := in.(*ssa.Call)
			return ok && calleeName(&cl.Call) == "sync.Pool.Put" && Contains(tb.T(cl.Call.Args[1]), tb.T(gets[0].(*ssa.Call)))
		}
		bad, _ := mustPass(after(gets[0].(ssa.Instruction)), isPut, nil)
		if bad != nil {
			L.Fail(ruleID, "ringBuffer.Push", "a path returns without putting the stripe back", instrPos(bad))
			return
		}
		// the stripe does not escape elsewhere
		esc := false
		eachInstr(fn, func(in ssa.Instruction) {
			switch x := in.(type) {
			case *ssa.Store:
				if Contains(tb.T(x.Val), tb.T(gets[0].(*ssa.Call))) {
					esc = true
				}
			case *ssa.Go:
				esc = true
			}
		})
		L.Check(!esc, ruleID, "ringBuffer.Push", "stripe = pool.Get(); stripe.Push(item); pool.Put(stripe) on every path, not stored elsewhere", "the stripe escapes the Get/Put window", fn.Pos())
	})
	c.Group(ruleID, "defaultPolicy.Push#verdict", func() {
		// the stripe believes Push: `true` means "the batch now belongs to the policy goroutine" (the stripe
		// takes a fresh slice), `false` "keep and reuse it". Push answers true exactly on the paths on which the
		// batch was sent (or there was nothing to send) - a `false` after a successful send makes the stripe
		// overwrite a batch the policy goroutine is reading, a `true` after a drop leaks nothing but loses it
		fn := P.Fn("ristretto", "defaultPolicy", "Push")
		tb := newTB(fn)
		var sel *ssa.Select
		for _, s := range sendsIn(fn) {
			if s.Sel != nil && Match("fld[itemsCh](p[0])", tb.T(s.Chan), nil) {
				sel = s.Sel
			}
		}
		if sel == nil {
			L.Undecided(ruleID, "defaultPolicy.Push#verdict", "no select send on itemsCh", fn.Pos())
			return
		}
		paths, _ := explore(fn, tb, ExploreOpts{Start: entryPos(fn)})
		n := 0
		var bad []string
		for _, p := range paths {
			r, isRet := p.End.(*ssa.Return)
			if !isRet || !p.Has(isInstr(sel)) {
				continue
			}
			n++
			sent := p.SelectTaken(sel, 0)
			v := tb.T(returnValues(r)[0]).String()
			if (sent && v != "c[true]") || (!sent && v != "c[false]") {
				bad = append(bad, fmt.Sprintf("path %s: batch sent=%v but Push answers %s", p.BlockPath(), sent, v))
			}
		}
		L.Check(len(bad) == 0 && n >= 2, ruleID, "defaultPolicy.Push#verdict", "Push answers true exactly when the batch was handed to the policy goroutine", strings.Join(bad, "; ")+": the ring stripe reuses (or abandons) the batch on a wrong belief", fn.Pos())
	})
	c.Group(ruleID, "ringStripe.data#empty", func() {
		// every value assigned to ringStripe.data is an EMPTY batch or the batch plus the pushed item: a
		// fresh make(.., 0, capa), the old batch cut to [:0], or append(s.data, item). A batch that starts
		// with a zeroed slot feeds a phantom access of key 0 into the sketch with every hand-over.
		n := 0
		var bad []string
		var pos token.Pos
		for _, fn := range P.SrcFuncs {
			if fn.Pkg != P.Pkgs["ristretto"] {
				continue
			}
			tb := newTB(fn)
			for _, st := range fieldStoresIn(fn, "ringStripe", "data") {
				n++
				okv := false
				switch v := st.Val.(type) {
				case *ssa.MakeSlice:
					okv = isConst(v.Len, "0")
				case *ssa.Slice:
					okv = v.Low == nil && v.High != nil && isConst(v.High, "0") && tb.T(v.X).String() == "fld[data](p[0])"
				case *ssa.Call:
					if b, isB := v.Call.Value.(*ssa.Builtin); isB && b.Name() == "append" {
						okv = strings.HasPrefix(tb.T(v).String(), "call[append](fld[data](p[0]),")
					}
				}
				if !okv {
					bad = append(bad, fname(fn)+": s.data = "+tb.T(st.Val).String())
					pos = st.Pos()
				}
			}
		}
		L.Check(len(bad) == 0 && n >= 4, ruleID, "ringStripe.data#empty", fmt.Sprintf("%d assignments to a stripe's batch: empty make, [:0], or append of the pushed item", n), "a stripe's batch does not start empty: "+strings.Join(bad, "; ")+" (phantom key-0 accesses reach the frequency sketch; real accesses are displaced)", pos)
	})
	c.Group(ruleID, "ringStripe.Push", func() {
		fn := P.Fn("ristretto", "ringStripe", "Push")
		L.Analysed(fname(fn))
		tb := newTB(fn)
		pushes := callsTo(fn, "iface:ringConsumer.Push")
		if len(pushes) != 1 {
			L.Undecided(ruleID, "ringStripe.Push", "expected one cons.Push call", fn.Pos())
			return
		}
		push := pushes[0].(*ssa.Call)
		if !Match("fld[data](p[0])", tb.T(push.Call.Args[0]), nil) {
			L.Undecided(ruleID, "ringStripe.Push", "the batch handed over is not s.data", push.Pos())
			return
		}
		accepted := edgesWhere(fn, tb, tb.T(push).String(), nil, true)
		ok := true
		var starts []Pos
		for e := range accepted {
			starts = append(starts, Pos{e.From.Succs[e.Succ], 0})
		}
		if len(starts) == 0 {
			// the consumer's verdict is not examined: every continuation may be the accepted one
			starts = append(starts, after(push))
		}
		for _, start := range starts {
			// first touch of s.data after acceptance must be a store of a fresh make
			first, _ := reach(start, func(in ssa.Instruction) bool {
				if fa, isFA := in.(*ssa.FieldAddr); isFA && fieldName(fa.X.Type(), fa.Field) == "data" {
					return true
				}
				return isReturn(in)
			}, nil, nil)
			fa, isFA := first.(*ssa.FieldAddr)
			if !isFA {
				ok = false
				L.Fail(ruleID, "ringStripe.Push", "after the consumer accepted the batch the stripe keeps s.data (it now belongs to the policy goroutine): later appends race with it", instrPos(first))
				continue
			}
			fresh := false
			for _, r := range *fa.Referrers() {
				if st, isSt := r.(*ssa.Store); isSt && st.Addr == ssa.Value(fa) {
					if _, isMk := st.Val.(*ssa.MakeSlice); isMk {
						fresh = true
					}
				}
			}
			if !fresh {
				ok = false
				L.Fail(ruleID, "ringStripe.Push", "after the consumer accepted the batch s.data is re-used instead of being replaced by a fresh slice: the stripe and the policy goroutine share the backing array", fa.Pos())
			}
		}
		// the item is recorded: s.data = append(s.data, item) on every path, before the hand-over
		isAppend := func(in ssa.Instruction) bool {
			st, isSt := in.(*ssa.Store)
			if !isSt {
				return false
			}
			fa, isFA := st.Addr.(*ssa.FieldAddr)
			if !isFA || fieldName(fa.X.Type(), fa.Field) != "data" {
				return false
			}
			vt := tb.T(st.Val)
			return vt.Op == "call" && vt.Sym == "append" && len(vt.Args) == 2 && vt.Args[0].String() == "fld[data](p[0])"
		}
		if r, path := mustPass(entryPos(fn), isAppend, nil); r != nil {
			ok = false
			L.Fail(ruleID, "ringStripe.Push", "a path through Push does not append the item to s.data (block path "+pathString(path)+"): the access is never recorded", instrPos(r))
		}
		// whatever the verdict, the stripe starts over: a refused batch is dropped (the consumer has already
		// counted it as dropped), never kept and offered again
		isDataStore := func(in ssa.Instruction) bool {
			st, isSt := in.(*ssa.Store)
			if !isSt {
				return false
			}
			fa, isFA := st.Addr.(*ssa.FieldAddr)
			return isFA && fieldName(fa.X.Type(), fa.Field) == "data"
		}
		if r, path := mustPass(after(push), isDataStore, nil); r != nil {
			ok = false
			L.Fail(ruleID, "ringStripe.Push", "after the hand-over attempt a path returns without re-assigning s.data (block path "+pathString(path)+"): a refused batch stays in the stripe and is offered again with the next item, so the same accesses are counted (as dropped or kept) more than once", instrPos(r))
		}
		if ok {
			L.Ok(ruleID, "ringStripe.Push", "accepted batch is replaced by make([]uint64, 0, capa) before any further use; the stripe starts over on every path after the attempt", push.Pos())
		}
	})
	c.Group(ruleID, "pool.New", func() {
		fn := P.Fn("ristretto", "", "newRingBuffer")
		// the function stored in sync.Pool.New (closure, method value or plain function) must
		// return what Push type-asserts: a *ringStripe
		var nf *ssa.Function
		eachInstr(fn, func(in ssa.Instruction) {
			st, ok := in.(*ssa.Store)
			if !ok {
				return
			}
			fa, ok := st.Addr.(*ssa.FieldAddr)
			if !ok || recvName(fa.X.Type()) != "Pool" || fieldName(fa.X.Type(), fa.Field) != "New" {
				return
			}
			switch v := st.Val.(type) {
			case *ssa.MakeClosure:
				nf = v.Fn.(*ssa.Function)
			case *ssa.Function:
				nf = v
			}
		})
		if nf == nil {
			L.Undecided(ruleID, "pool.New", "the function assigned to sync.Pool.New in newRingBuffer was not found", fn.Pos())
			return
		}
		// bound-method wrappers forward to the method
		if nf.Synthetic != "" {
			for _, ci := range allCalls(nf) {
				if sc := staticCallee(ci.Common()); sc != nil && sc.Blocks != nil && isModuleFunc(sc) {
					nf = sc
				}
			}
		}
		ok := len(returnsOf(nf)) > 0
		for _, r := range returnsOf(nf) {
			v := returnValues(r)[0]
			mi, isMI := v.(*ssa.MakeInterface)
			if !isMI || recvName(mi.X.Type()) != "ringStripe" {
				ok = false
				continue
			}
			if _, isPtr := mi.X.Type().(*types.Pointer); !isPtr {
				ok = false
			}
		}
		L.Check(ok, ruleID, "pool.New", "pool.New returns a *ringStripe (the type Push asserts)", "pool.New does not return a *ringStripe: Push's type assertion would panic", nf.Pos())
	})
}
