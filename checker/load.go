package main

import (
	"fmt"
	"go/token"
	"go/types"
	"os"
	"sort"
	"strings"

	"golang.org/x/tools/go/packages"
	"golang.org/x/tools/go/ssa"
	"golang.org/x/tools/go/ssa/ssautil"
)

const modPath = "github.com/dgraph-io/ristretto/v2"

// Variant is one build configuration of /repo that is loaded and analysed.
type Variant struct {
	Name   string
	GOOS   string
	GOARCH string
}

var (
	V0 = Variant{"V0", "linux", "amd64"}
	V1 = Variant{"V1", "linux", "arm64"}
	V2 = Variant{"V2", "linux", "386"}
	V3 = Variant{"V3", "darwin", "amd64"}
)

// Prog is the resolved program of one variant.
type Prog struct {
	Variant  Variant
	Repo     string
	Fset     *token.FileSet
	SSA      *ssa.Program
	Pkgs     map[string]*ssa.Package      // by package name: ristretto, z, simd
	PPkgs    map[string]*packages.Package // same keys
	SrcFuncs []*ssa.Function              // all source-level functions (incl. anonymous) of the module's library packages
	NPkgs    int
}

type loadError struct{ msg string }

func (e loadError) Error() string { return e.msg }

// Load type-checks /repo for the variant and builds SSA for all packages.
func Load(repo string, v Variant) (*Prog, error) {
	env := os.Environ()
	env = append(env, "GOOS="+v.GOOS, "GOARCH="+v.GOARCH, "CGO_ENABLED=0", "GOWORK=off")
	cfg := &packages.Config{
		Mode:  packages.LoadAllSyntax,
		Dir:   repo,
		Tests: false,
		Env:   env,
	}
	pkgs, err := packages.Load(cfg, "./...")
	if err != nil {
		return nil, loadError{"packages.Load: " + err.Error()}
	}
	if len(pkgs) == 0 {
		return nil, loadError{"no packages loaded"}
	}
	var errs []string
	packages.Visit(pkgs, nil, func(p *packages.Package) {
		for _, e := range p.Errors {
			errs = append(errs, e.Error())
		}
	})
	if len(errs) > 0 {
		return nil, loadError{"type/load errors (" + v.Name + "): " + strings.Join(errs, "; ")}
	}
	prog, spkgs := ssautil.AllPackages(pkgs, ssa.BuilderMode(0))
	prog.Build()
	P := &Prog{Variant: v, Repo: repo, Fset: prog.Fset, SSA: prog,
		Pkgs: map[string]*ssa.Package{}, PPkgs: map[string]*packages.Package{}, NPkgs: len(pkgs)}
	for i, p := range pkgs {
		if spkgs[i] == nil {
			return nil, loadError{"no SSA for " + p.PkgPath}
		}
		switch p.PkgPath {
		case modPath:
			P.Pkgs["ristretto"], P.PPkgs["ristretto"] = spkgs[i], p
		case modPath + "/z":
			P.Pkgs["z"], P.PPkgs["z"] = spkgs[i], p
		case modPath + "/z/simd":
			P.Pkgs["simd"], P.PPkgs["simd"] = spkgs[i], p
		}
	}
	for _, n := range []string{"ristretto", "z", "simd"} {
		if P.Pkgs[n] == nil {
			return nil, loadError{"package " + n + " not loaded"}
		}
	}
	// Collect source functions.
	seen := map[*ssa.Function]bool{}
	var add func(f *ssa.Function)
	add = func(f *ssa.Function) {
		if f == nil || seen[f] || f.Synthetic != "" || f.Blocks == nil {
			return
		}
		seen[f] = true
		P.SrcFuncs = append(P.SrcFuncs, f)
		for _, a := range f.AnonFuncs {
			add(a)
		}
	}
	for _, n := range []string{"ristretto", "z", "simd"} {
		sp := P.Pkgs[n]
		for _, m := range sp.Members {
			switch m := m.(type) {
			case *ssa.Function:
				add(m)
			case *ssa.Type:
				nt, ok := m.Type().(*types.Named)
				if !ok {
					continue
				}
				for i := 0; i < nt.NumMethods(); i++ {
					add(prog.FuncValue(nt.Method(i)))
				}
			}
		}
	}
	sort.Slice(P.SrcFuncs, func(i, j int) bool { return P.SrcFuncs[i].Pos() < P.SrcFuncs[j].Pos() })
	return P, nil
}

// anchorMissing is panicked when a rule names a function/field/type that does not exist
// in the loaded program; the driver turns it into an undecided obligation.
type anchorMissing struct{ what string }

// Fn resolves a function or method: pkg "ristretto"|"z"|"simd", recv "" or the named
// type, name. Generic methods are returned in generic form.
func (P *Prog) Fn(pkg, recv, name string) *ssa.Function {
	f := P.FnOpt(pkg, recv, name)
	if f == nil {
		what := pkg + "." + name
		if recv != "" {
			what = pkg + "." + recv + "." + name
		}
		panic(anchorMissing{what})
	}
	return f
}

func (P *Prog) FnOpt(pkg, recv, name string) *ssa.Function {
	sp := P.Pkgs[pkg]
	if sp == nil {
		return nil
	}
	if recv == "" {
		f := sp.Func(name)
		if f == nil || f.Blocks == nil && !isAsmStub(f) {
			return f
		}
		return f
	}
	t := sp.Type(recv)
	if t == nil {
		return nil
	}
	nt, ok := t.Type().(*types.Named)
	if !ok {
		return nil
	}
	for i := 0; i < nt.NumMethods(); i++ {
		if nt.Method(i).Name() == name {
			return P.SSA.FuncValue(nt.Method(i))
		}
	}
	return nil
}

func isAsmStub(f *ssa.Function) bool { return f.Blocks == nil && f.Synthetic == "" }

// Anon returns the i-th (0-based) anonymous function of f.
// ApplierOnEvict returns the closure of Cache.processItems that forwards to c.onEvict (the
// applier's eviction wrapper), identified by what it does, not by its position among the closures.
func (P *Prog) ApplierOnEvict() *ssa.Function {
	pi := P.Fn("ristretto", "Cache", "processItems")
	for _, a := range pi.AnonFuncs {
		tb := newTB(a)
		for _, ci := range allCalls(a) {
			cc := ci.Common()
			if !cc.IsInvoke() && calleeName(cc) == "dyn" && Match("fld[onEvict](_)", tb.T(cc.Value), nil) {
				return a
			}
		}
	}
	panic(anchorMissing{"the closure of Cache.processItems that forwards to c.onEvict"})
}

func (P *Prog) Anon(f *ssa.Function, i int) *ssa.Function {
	if i >= len(f.AnonFuncs) {
		panic(anchorMissing{fmt.Sprintf("%s$%d", fname(f), i+1)})
	}
	return f.AnonFuncs[i]
}

// Named returns the named type pkg.name.
func (P *Prog) Named(pkg, name string) *types.Named {
	sp := P.Pkgs[pkg]
	if sp != nil {
		if t := sp.Type(name); t != nil {
			if nt, ok := t.Type().(*types.Named); ok {
				return nt
			}
		}
	}
	panic(anchorMissing{pkg + "." + name})
}

// FieldIndex returns the index of field in struct type pkg.typ.
func (P *Prog) FieldIndex(pkg, typ, field string) int {
	nt := P.Named(pkg, typ)
	st, ok := nt.Underlying().(*types.Struct)
	if !ok {
		panic(anchorMissing{pkg + "." + typ + " (not a struct)"})
	}
	for i := 0; i < st.NumFields(); i++ {
		if st.Field(i).Name() == field {
			return i
		}
	}
	panic(anchorMissing{pkg + "." + typ + "." + field})
}

func (P *Prog) Const(pkg, name string) *ssa.NamedConst {
	sp := P.Pkgs[pkg]
	if sp != nil {
		if c := sp.Const(name); c != nil {
			return c
		}
	}
	panic(anchorMissing{pkg + "." + name})
}

// pos renders a position relative to the repo root.
func (P *Prog) pos(p token.Pos) string {
	if !p.IsValid() {
		return "?"
	}
	ps := P.Fset.Position(p)
	fn := strings.TrimPrefix(ps.Filename, P.Repo+"/")
	return fmt.Sprintf("%s:%d", fn, ps.Line)
}

// fname gives a short stable name: Cache.Del, lockedMap.get, NewCache$1, z.Buffer.Grow.
func fname(f *ssa.Function) string {
	if f == nil {
		return "<nil>"
	}
	if f.Parent() != nil {
		// anonymous: parent$N
		n := f.Name()
		if i := strings.LastIndex(n, "$"); i >= 0 {
			return fname(f.Parent()) + n[i:]
		}
		return fname(f.Parent()) + "$" + n
	}
	prefix := ""
	if f.Pkg != nil && f.Pkg.Pkg.Path() != modPath {
		prefix = f.Pkg.Pkg.Name() + "."
	}
	if f.Signature != nil && f.Signature.Recv() != nil {
		return prefix + recvName(f.Signature.Recv().Type()) + "." + f.Name()
	}
	return prefix + f.Name()
}

func recvName(t types.Type) string {
	if p, ok := t.(*types.Pointer); ok {
		t = p.Elem()
	}
	if n, ok := t.(*types.Named); ok {
		return n.Obj().Name()
	}
	return t.String()
}

// instrPos finds the best source position for an instruction.
func instrPos(in ssa.Instruction) token.Pos {
	if in == nil {
		return token.NoPos
	}
	if p := in.Pos(); p.IsValid() {
		return p
	}
	if v, ok := in.(ssa.Value); ok {
		_ = v
	}
	// fall back: nearest instruction in block with a position
	b := in.Block()
	if b != nil {
		idx := -1
		for i, x := range b.Instrs {
			if x == in {
				idx = i
			}
		}
		for d := 1; d < len(b.Instrs); d++ {
			for _, j := range []int{idx - d, idx + d} {
				if j >= 0 && j < len(b.Instrs) && b.Instrs[j].Pos().IsValid() {
					return b.Instrs[j].Pos()
				}
			}
		}
		if b.Parent() != nil {
			return b.Parent().Pos()
		}
	}
	return token.NoPos
}
