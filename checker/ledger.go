package main

import (
	"encoding/json"
	"fmt"
	"go/token"
	"os"
	"sort"
	"strings"
)

type Outcome string

const (
	OK        Outcome = "ok"
	Violation Outcome = "violation"
	Undecided Outcome = "undecided"
)

// Obligation is one instance of a rule on one construct of the program. It is keyed by
// rule + construct, never by line number.
type Obligation struct {
	Rule       string  `json:"rule"`
	Construct  string  `json:"construct"`
	Outcome    Outcome `json:"outcome"`
	Detail     string  `json:"detail"`
	Pos        string  `json:"pos,omitempty"`
	Variant    string  `json:"variant,omitempty"`
	Nontrivial bool    `json:"nontrivial"`
	Known      bool    `json:"known_finding,omitempty"`
}

func (o *Obligation) Key() string { return o.Rule + ":" + o.Construct }

type Ledger struct {
	Prop        string
	P           *Prog
	Obls        []*Obligation
	Advisories  []string
	expectMin   map[string]int
	funcs       map[string]bool // functions analysed
	callSites   int
	RuleTexts   map[string]string
	ruleOrder   []string
	curVariant  string
	Assumptions []string
}

func newLedger(prop string) *Ledger {
	return &Ledger{Prop: prop, expectMin: map[string]int{}, funcs: map[string]bool{}, RuleTexts: map[string]string{}}
}

// Rule registers the text of a rule and the minimum number of instances confirmed by
// hand on the reference tree (a rule that matches fewer sites fails: it would otherwise
// pass vacuously for ever).
func (l *Ledger) Rule(id, text string, expectMin int) {
	if _, ok := l.RuleTexts[id]; !ok {
		l.ruleOrder = append(l.ruleOrder, id)
	}
	l.RuleTexts[id] = text
	l.expectMin[id] = expectMin
}

func (l *Ledger) add(o *Obligation) {
	o.Variant = l.curVariant
	// de-duplicate by key+variant: a later report on the same construct wins only if worse
	for _, x := range l.Obls {
		if x.Key() == o.Key() && x.Variant == o.Variant {
			if x.Outcome == OK && o.Outcome != OK {
				*x = *o
			} else if x.Outcome == OK && o.Outcome == OK {
				if !strings.Contains(x.Detail, o.Detail) {
					x.Detail += "; " + o.Detail
				}
			} else if o.Outcome != OK {
				x.Detail += " | " + o.Detail
			}
			return
		}
	}
	l.Obls = append(l.Obls, o)
}

func (l *Ledger) pos(p token.Pos) string {
	if l.P == nil {
		return ""
	}
	return l.P.pos(p)
}

// Ok records a discharged obligation whose decision needed a path/dataflow argument.
func (l *Ledger) Ok(rule, construct, detail string, p token.Pos) {
	l.add(&Obligation{Rule: rule, Construct: construct, Outcome: OK, Detail: detail, Pos: l.pos(p), Nontrivial: true})
}

// OkTrivial records a discharged obligation that is a mere existence/shape check.
func (l *Ledger) OkTrivial(rule, construct, detail string, p token.Pos) {
	l.add(&Obligation{Rule: rule, Construct: construct, Outcome: OK, Detail: detail, Pos: l.pos(p)})
}

func (l *Ledger) Fail(rule, construct, detail string, p token.Pos) {
	l.add(&Obligation{Rule: rule, Construct: construct, Outcome: Violation, Detail: detail, Pos: l.pos(p), Nontrivial: true})
}

func (l *Ledger) Undecided(rule, construct, detail string, p token.Pos) {
	l.add(&Obligation{Rule: rule, Construct: construct, Outcome: Undecided, Detail: detail, Pos: l.pos(p), Nontrivial: true})
}

// Check is a convenience: ok ? Ok : Fail.
func (l *Ledger) Check(cond bool, rule, construct, okDetail, failDetail string, p token.Pos) bool {
	if cond {
		l.Ok(rule, construct, okDetail, p)
	} else {
		l.Fail(rule, construct, failDetail, p)
	}
	return cond
}

func (l *Ledger) Advisory(s string) {
	for _, a := range l.Advisories {
		if a == s {
			return
		}
	}
	l.Advisories = append(l.Advisories, s)
}

func (l *Ledger) Analysed(names ...string) {
	for _, n := range names {
		l.funcs[n] = true
	}
}

func (l *Ledger) CallSites(n int) { l.callSites += n }

func (l *Ledger) Assume(s string) {
	for _, a := range l.Assumptions {
		if a == s {
			return
		}
	}
	l.Assumptions = append(l.Assumptions, s)
}

// finish applies the expected-minimum check.
func (l *Ledger) finish() {
	count := map[string]int{}
	for _, o := range l.Obls {
		if o.Variant == "" || o.Variant == "V0" || true {
			count[o.Rule+"@"+o.Variant]++
		}
	}
	for rule, min := range l.expectMin {
		best := 0
		for k, c := range count {
			if strings.HasPrefix(k, rule+"@") && c > best {
				best = c
			}
		}
		if best < min {
			l.add(&Obligation{Rule: rule, Construct: "<instance-count>", Outcome: Undecided, Nontrivial: true,
				Detail: fmt.Sprintf("rule matched %d instance(s), fewer than the %d confirmed on the reference tree: the code it anchors in has changed shape and the rule cannot vouch for it", best, min)})
		}
	}
}

// ---------------------------------------------------------------------------------

type knownFinding struct {
	Status    string `json:"status"`
	ID        string `json:"id"`
	Property  string `json:"property"`
	Rule      string `json:"rule"`
	Construct string `json:"construct"`
	What      string `json:"what"`
	Line      string `json:"line"`
}

type knownFile struct {
	Findings []knownFinding `json:"findings"`
}

func loadKnown(path string) ([]knownFinding, error) {
	data, err := os.ReadFile(path)
	if err != nil {
		return nil, err
	}
	var kf knownFile
	if err := json.Unmarshal(data, &kf); err != nil {
		return nil, err
	}
	return kf.Findings, nil
}

// ---------------------------------------------------------------------------------

type evidence struct {
	PropertyID  string         `json:"property_id"`
	Tier        string         `json:"tier"`
	Seed        int            `json:"seed"`
	Level       string         `json:"level"`
	Coverage    map[string]any `json:"coverage"`
	Assumptions []string       `json:"assumptions"`
	WallS       float64        `json:"wall_s"`
	Violations  int            `json:"violations"`
}

func (l *Ledger) writeEvidence(path, tier string, seed int, wall float64, explanation string, variants []string, extra map[string]any) (violations []*Obligation, known []*Obligation, err error) {
	sort.SliceStable(l.Obls, func(i, j int) bool {
		if l.Obls[i].Rule != l.Obls[j].Rule {
			return l.Obls[i].Rule < l.Obls[j].Rule
		}
		return l.Obls[i].Construct < l.Obls[j].Construct
	})
	discharged, nontrivial := 0, 0
	distinct := map[string]bool{}
	var samples []any
	perRule := map[string]int{}
	for _, o := range l.Obls {
		perRule[o.Rule]++
		if o.Outcome == OK {
			discharged++
		} else if o.Known {
			known = append(known, o)
		} else {
			violations = append(violations, o)
		}
		if o.Nontrivial && !distinct[o.Key()] {
			distinct[o.Key()] = true
			nontrivial++
		}
	}
	// samples: first obligation of each rule, written out
	seenRule := map[string]int{}
	for _, o := range l.Obls {
		if seenRule[o.Rule] < 2 {
			seenRule[o.Rule]++
			samples = append(samples, o)
		}
	}
	var funcs []string
	for f := range l.funcs {
		funcs = append(funcs, f)
	}
	sort.Strings(funcs)
	rules := map[string]string{}
	for _, r := range l.ruleOrder {
		rules[r] = l.RuleTexts[r]
	}
	cov := map[string]any{
		"explanation":          explanation,
		"rule":                 "one obligation per (rule, construct) instance found in /repo's current source by resolving the rule's anchors in the type-checked SSA program; an obligation is non-trivial when deciding it needed a path, dominance, provenance or dataflow argument (not a mere existence check); distinct = distinct rule+construct keys",
		"obligations":          len(l.Obls),
		"discharged":           discharged,
		"evaluations":          len(l.Obls),
		"distinct_nontrivial":  nontrivial,
		"samples":              samples,
		"rules":                rules,
		"obligations_per_rule": perRule,
		"functions_analysed":   funcs,
		"call_sites":           l.callSites,
		"variants":             variants,
		"advisories":           l.Advisories,
		"all_obligations":      l.Obls,
		"checker_cmd":          "./run.sh " + l.Prop + " " + tier,
		"trusted_base": []string{"Go type checker (go/types) and go/packages loader", "golang.org/x/tools go/ssa v0.50.0 (SSA construction, dominator tree)",
			"Go semantics of mutexes, channels (FIFO) and sync/atomic", "frozen tables in checker/rules_" + strings.ToLower(l.Prop) + ".go"},
		"exhaustive": false,
	}
	for k, v := range extra {
		cov[k] = v
	}
	ev := evidence{PropertyID: l.Prop, Tier: tier, Seed: seed, Level: "other", Coverage: cov,
		Assumptions: l.Assumptions, WallS: wall, Violations: len(violations)}
	if ev.Assumptions == nil {
		ev.Assumptions = []string{}
	}
	data, e := json.MarshalIndent(ev, "", " ")
	if e != nil {
		return nil, nil, e
	}
	if e := os.WriteFile(path, data, 0o644); e != nil {
		return nil, nil, e
	}
	return violations, known, nil
}
