package main

import (
	"fmt"
	"go/token"
	"go/types"
	"sort"
	"strings"

	"golang.org/x/tools/go/ssa"
)

// waitForRule (R-C08-WAITFOR): the static wait-for structure between the API callers and the two
// consumer goroutines. "Every call returns in bounded time" has a structural necessary condition:
//
//	(1) a consumer goroutine (the applier Cache.processItems, the policy's processItems) blocks on
//	    nothing but its own select and the `done` answer of its stop arm - neither directly nor in
//	    any module function it calls synchronously (callbacks bound to module closures included).
//	    If it blocked on a channel that only itself serves (setBuf, stop/done of the same cache) or
//	    on a timer, every producer that waits for it (Del, Wait, Clear, Push's consumer side) would
//	    wait with it.
//	(2) every blocking operation reachable from a listed API method is one of a frozen table of
//	    (method, channel, direction) entries, and for each entry the counterpart operation exists in
//	    the consumer's select (or in Clear's drain) - a new blocking wait is a new obligation.
//	(3) no sleep / timer wait / WaitGroup.Wait / Cond.Wait is reachable from the API or the
//	    consumers.
//
// Decides the shape only: liveness of the consumer (that it keeps running and is eventually
// scheduled) is trusted.
type blockSite struct {
	fn   *ssa.Function
	in   ssa.Instruction
	kind string // "send", "recv", "select", "call"
	ch   string // channel description (field name or term)
	path []*ssa.Function
}

func (b blockSite) String() string {
	return fmt.Sprintf("%s %s in %s", b.kind, b.ch, fname(b.fn))
}

// chanDesc names a channel value by the struct field it is loaded from when possible.
func chanDesc(tb *TB, v ssa.Value) string {
	t := tb.T(v)
	s := t.String()
	if strings.HasPrefix(s, "fld[") {
		if i := strings.Index(s, "]"); i > 0 {
			return s[4:i]
		}
	}
	if strings.HasPrefix(s, "load(fld[") { // defensive: some builders keep the load
		if i := strings.Index(s, "]"); i > 0 {
			return s[9:i]
		}
	}
	return s
}

// syncCallees: module functions that run synchronously on the caller's goroutine when fn runs:
// static callees, directly invoked closures, the single implementations of the store/ringConsumer
// interfaces, the closures NewCache binds to the Cache callback fields when called through those
// fields, and module closures / callback fields passed as arguments to module callees (they are
// invoked by the callee). `go f()` starts another goroutine and is not followed.
func syncCallees(P *Prog, fn *ssa.Function, fieldClosure map[string]*ssa.Function) []*ssa.Function {
	var out []*ssa.Function
	seen := map[*ssa.Function]bool{}
	add := func(f *ssa.Function) {
		if f == nil {
			return
		}
		f = origin(f)
		if !seen[f] && f.Blocks != nil {
			seen[f] = true
			out = append(out, f)
		}
	}
	tb := newTB(fn)
	ifaceImpl := map[string]string{"store": "shardedMap", "ringConsumer": "defaultPolicy"}
	for _, ci := range allCalls(fn) {
		if _, isGo := ci.(*ssa.Go); isGo {
			continue
		}
		cc := ci.Common()
		if cc.IsInvoke() {
			if impl, ok := ifaceImpl[recvName(cc.Value.Type())]; ok {
				add(P.FnOpt("ristretto", impl, cc.Method.Name()))
			}
		} else if sc := staticCallee(cc); sc != nil {
			if isModuleFunc(sc) {
				add(sc)
			}
		} else if mc, ok := cc.Value.(*ssa.MakeClosure); ok {
			add(mc.Fn.(*ssa.Function))
		} else {
			t := tb.T(cc.Value)
			for f, cl := range fieldClosure {
				if Match("fld["+f+"](_)", t, nil) {
					add(cl)
				}
			}
			// a local closure variable (e.g. the applier's onEvict := func…) called dynamically
			for _, a := range fn.AnonFuncs {
				for _, r := range closureValuesOf(fn, a) {
					if r == cc.Value {
						add(a)
					}
				}
			}
		}
		for _, a := range cc.Args {
			if mc, ok := a.(*ssa.MakeClosure); ok {
				add(mc.Fn.(*ssa.Function))
			}
			t := tb.T(a)
			for f, cl := range fieldClosure {
				if Match("fld["+f+"](_)", t, nil) {
					add(cl)
				}
			}
		}
	}
	return out
}

func closureValuesOf(fn *ssa.Function, anon *ssa.Function) []ssa.Value {
	var out []ssa.Value
	eachInstr(fn, func(in ssa.Instruction) {
		if mc, ok := in.(*ssa.MakeClosure); ok && mc.Fn == anon {
			out = append(out, mc)
		}
	})
	return out
}

var waitCalls = map[string]bool{
	"sync.WaitGroup.Wait": true, "time.Sleep": true, "sync.Cond.Wait": true,
	"time.After": true, "time.NewTimer": true, "time.Tick": true, "time.AfterFunc": true,
}

func blockSitesIn(fn *ssa.Function) []blockSite {
	tb := newTB(fn)
	var out []blockSite
	eachInstr(fn, func(in ssa.Instruction) {
		switch x := in.(type) {
		case *ssa.Send:
			out = append(out, blockSite{fn: fn, in: in, kind: "send", ch: chanDesc(tb, x.Chan)})
		case *ssa.UnOp:
			if x.Op == token.ARROW {
				out = append(out, blockSite{fn: fn, in: in, kind: "recv", ch: chanDesc(tb, x.X)})
			}
		case *ssa.Select:
			if x.Blocking {
				var arms []string
				for _, st := range x.States {
					d := "recv "
					if st.Dir == types.SendOnly {
						d = "send "
					}
					arms = append(arms, d+chanDesc(tb, st.Chan))
				}
				sort.Strings(arms)
				out = append(out, blockSite{fn: fn, in: in, kind: "select", ch: "{" + strings.Join(arms, ", ") + "}"})
			}
		case ssa.CallInstruction:
			if n := calleeName(x.Common()); waitCalls[n] {
				out = append(out, blockSite{fn: fn, in: in, kind: "call", ch: n})
			}
		}
	})
	return out
}

// reachableBlockSites: blocking sites in root and everything it runs synchronously.
func reachableBlockSites(P *Prog, root *ssa.Function, fieldClosure map[string]*ssa.Function) []blockSite {
	type item struct {
		f    *ssa.Function
		path []*ssa.Function
	}
	seen := map[*ssa.Function]bool{root: true}
	work := []item{{root, []*ssa.Function{root}}}
	var out []blockSite
	for len(work) > 0 {
		it := work[0]
		work = work[1:]
		for _, b := range blockSitesIn(it.f) {
			b.path = it.path
			out = append(out, b)
		}
		for _, cal := range syncCallees(P, it.f, fieldClosure) {
			if !seen[cal] {
				seen[cal] = true
				work = append(work, item{cal, append(append([]*ssa.Function{}, it.path...), cal)})
			}
		}
	}
	return out
}

func cacheFieldClosures(P *Prog) map[string]*ssa.Function {
	fc := map[string]*ssa.Function{}
	if nc := P.FnOpt("ristretto", "", "NewCache"); nc != nil {
		for _, f := range []string{"onExit", "onEvict", "onReject"} {
			for _, st := range fieldStoresIn(nc, "Cache", f) {
				if mc, ok := st.Val.(*ssa.MakeClosure); ok {
					fc[f] = mc.Fn.(*ssa.Function)
				}
			}
		}
	}
	return fc
}

func waitForRule(c *Ctx, ruleID string) {
	P, L := c.P, c.L
	fc := cacheFieldClosures(P)

	// (1) consumers
	consumers := []struct {
		recv, name string
		selectArms []string // the arms the consumer's own select must have (others are allowed only if non-channel… none today)
		answer     string   // the channel its stop arm answers on
	}{
		{"Cache", "processItems", []string{"recv setBuf", "recv stop"}, "done"},
		{"defaultPolicy", "processItems", []string{"recv itemsCh", "recv stop"}, "done"},
	}
	for _, cs := range consumers {
		cons := cs.recv + "." + cs.name
		c.Group(ruleID, "consumer:"+cons, func() {
			fn := P.Fn("ristretto", cs.recv, cs.name)
			L.Analysed(fname(fn))
			sites := reachableBlockSites(P, fn, fc)
			nsel := 0
			var bad []string
			var badPos token.Pos
			for _, b := range sites {
				own := b.fn == fn
				switch {
				case own && b.kind == "select":
					nsel++
					for _, need := range cs.selectArms {
						if !strings.Contains(b.ch, need) {
							bad = append(bad, "its select has no arm "+need+" (arms: "+b.ch+")")
							badPos = b.in.Pos()
						}
					}
					if strings.Contains(b.ch, "send ") {
						bad = append(bad, "its select offers a send ("+b.ch+"): the consumer would wait for a receiver")
						badPos = b.in.Pos()
					}
				case own && b.kind == "send" && b.ch == cs.answer:
					// the stop arm's answer; shape checked by R-C08-HANDSHAKE
				default:
					bad = append(bad, b.String()+" (via "+callPathString(b.path)+")")
					if badPos == 0 {
						badPos = instrPos(b.in)
					}
				}
			}
			if nsel != 1 {
				bad = append(bad, fmt.Sprintf("%d blocking selects in the body (want exactly the loop's one)", nsel))
			}
			L.CallSites(len(sites))
			L.Check(len(bad) == 0, ruleID, "consumer:"+cons,
				fmt.Sprintf("blocks only on its own select {%s} and on the %s answer of the stop arm; %d blocking site(s) inspected over its synchronous callees", strings.Join(cs.selectArms, ", "), cs.answer, len(sites)),
				"the consumer goroutine can block outside its select: "+strings.Join(bad, "; ")+" - every producer waiting for it (Del, Wait, Clear) waits with it", badPos)
		})
	}

	// (2) API methods: frozen table of allowed blocking waits, each with the consumer arm that completes it
	allowed := map[string]map[string]string{ // method -> "kind ch" -> who completes it
		"Cache.Wait":  {"send setBuf": "applier select arm recv setBuf (or Clear's drain)", "recv <wait>": "applier / Clear close the marker's channel (R-C06-WAIT)", "recv wait": "applier / Clear close the marker's channel (R-C06-WAIT)"},
		"Cache.Del":   {"send setBuf": "applier select arm recv setBuf (or Clear's drain)"},
		"Cache.Clear": {"send stop": "applier select arm recv stop", "recv done": "applier stop arm sends done"},
	}
	roots := []struct{ recv, name string }{{"Cache", "Get"}, {"Cache", "Set"}, {"Cache", "SetWithTTL"}, {"Cache", "Del"}, {"Cache", "GetTTL"},
		{"Cache", "IterValues"}, {"Cache", "Wait"}, {"Cache", "Clear"}, {"Cache", "UpdateMaxCost"}, {"Cache", "MaxCost"}, {"Cache", "RemainingCost"},
		{"Metrics", "String"}, {"Metrics", "Ratio"}, {"Metrics", "Clear"}, {"Metrics", "LifeExpectancySeconds"}}
	for _, r := range roots {
		name := r.recv + "." + r.name
		c.Group(ruleID, "api:"+name, func() {
			fn := P.Fn("ristretto", r.recv, r.name)
			L.Analysed(fname(fn))
			sites := reachableBlockSites(P, fn, fc)
			var bad []string
			var badPos token.Pos
			var okDesc []string
			for _, b := range sites {
				key := b.kind + " " + b.ch
				tab := allowed[name] // keyed by the API method: Get reaching Wait's sends is a new wait of Get
				if b.kind == "recv" && tab != nil {
					// the marker channel of Wait is a local make(chan): named <wait>
					if _, isField := tab[key]; !isField && isLocalChan(b.in) {
						key = "recv <wait>"
					}
				}
				if who, ok := tab[key]; ok {
					okDesc = append(okDesc, key+" in "+fname(b.fn)+" ← "+who)
					continue
				}
				bad = append(bad, b.String()+" (via "+callPathString(b.path)+")")
				if badPos == 0 {
					badPos = instrPos(b.in)
				}
			}
			sort.Strings(okDesc)
			detail := "no blocking operation reachable"
			if len(okDesc) > 0 {
				detail = "blocking waits, each completed by a consumer arm: " + strings.Join(okDesc, "; ")
			}
			L.CallSites(len(sites))
			L.Check(len(bad) == 0, ruleID, "api:"+name, detail,
				"a blocking wait outside the frozen wait-for table is reachable: "+strings.Join(bad, "; ")+" - nothing in the rules shows that somebody completes it", badPos)
		})
	}
}

// isLocalChan: the receive's channel operand is a channel made in the same function.
func isLocalChan(in ssa.Instruction) bool {
	u, ok := in.(*ssa.UnOp)
	if !ok {
		return false
	}
	v := u.X
	for i := 0; i < 4; i++ {
		switch x := v.(type) {
		case *ssa.MakeChan:
			return true
		case *ssa.ChangeType:
			v = x.X
		case *ssa.UnOp:
			if x.Op != token.MUL {
				return false
			}
			// load of a local alloc with a single store of a MakeChan
			al, ok := x.X.(*ssa.Alloc)
			if !ok {
				return false
			}
			var st ssa.Value
			n := 0
			for _, r := range *al.Referrers() {
				if s, ok := r.(*ssa.Store); ok && s.Addr == al {
					st = s.Val
					n++
				}
			}
			if n != 1 {
				return false
			}
			v = st
		default:
			return false
		}
	}
	return false
}
