package main

import (
	"fmt"
	"go/token"
	"go/types"
	"sort"
	"strings"

	"golang.org/x/tools/go/ssa"
)

func init() {
	register(&PropCheck{
		ID: "C16",
		Explanation: "Thin structural claim for 'a persistent z.Tree reopens to the same contents' (the correctness of the rebuilt frontier/free list for a given file is arithmetic on page contents and is NOT decided): " +
			"(R-C16-CLOSEPATH) Tree.Close → Buffer.Release → MmapFile.Close(-1): Sync (→ Msync) precedes Munmap, which precedes Fd.Close, on every path; no truncation for a negative size; every error on this chain is returned, wrapped or turned into a panic, never dropped; os.Remove only on the !persistent side and NewBufferPersistent sets persistent on its success path; " +
			"(R-C16-REBUILD) every Tree/TreeStats field the mutators maintain (nextPage, freePage, stats.NumLeafKeys, stats.NumPagesFree, data) is assigned on both initialisation paths of NewTreePersistent (fresh file and existing file → reinit); " +
			"(R-C16-WHOLEFILE) on open the buffer's offset is set to len(buf) before t.data is taken, so the whole file is visible; every Buffer literal keeps curSz == len(buf) (shared with C11), so growth after reopen computes sizes from the real mapping; " +
			"(R-C16-PAGEFIT) reinit's frontier scan looks only at pages that lie entirely inside t.data (the repaired finding F5); " +
			"(R-C16-TWOPASS) reinit counts free pages and collects their links in a pass that does not modify the tail-page marks it is reading; the marks of pointed-to pages are applied afterwards and the head search runs last; " +
			"(R-C16-STATS) the incrementally maintained key count agrees with reinit's recount: node.set returns 1 exactly on the paths that raise numKeys, and Tree.set adds that result to stats.NumLeafKeys; " +
			"(R-C16-FREELIST) recycled pages are handed out once: the free-list pop/push ordering rules of C10 hold.",
		Variants: func(tier string) []Variant {
			if tier == "thorough" {
				return []Variant{V0, V3}
			}
			return []Variant{V0}
		},
		Run: runC16,
	})
}

// errorDiscipline: every call in fn whose callee returns an error has that error used
// (returned, wrapped, compared, passed on) — never dropped.
func droppedErrors(fn *ssa.Function, tb *TB) []ssa.Instruction {
	var out []ssa.Instruction
	for _, ci := range allCalls(fn) {
		cl, ok := ci.(*ssa.Call)
		if !ok {
			continue
		}
		sig := cl.Call.Signature()
		if sig == nil || sig.Results().Len() == 0 {
			continue
		}
		last := sig.Results().At(sig.Results().Len() - 1).Type().String()
		if last != "error" {
			continue
		}
		used := false
		if sig.Results().Len() == 1 {
			used = cl.Referrers() != nil && len(*cl.Referrers()) > 0
		} else {
			for _, r := range *cl.Referrers() {
				if ex, ok := r.(*ssa.Extract); ok && ex.Index == sig.Results().Len()-1 && ex.Referrers() != nil && len(*ex.Referrers()) > 0 {
					used = true
				}
			}
		}
		if !used {
			out = append(out, cl)
		}
	}
	return out
}

func runC16(c *Ctx) {
	L, P := c.L, c.P
	if P.Variant.Name != "V0" {
		// other OS builds: only the close path differs (file_default.go, mmap_*.go)
		L.Rule("R-C16-CLOSEPATH", "msync → munmap → close; persistent flag blocks removal; no dropped error", 4)
		closePathRule(c)
		return
	}
	L.Rule("R-C16-CLOSEPATH", "msync → munmap → close; persistent flag blocks removal; no dropped error", 4)
	L.Rule("R-C16-READONLY", "reopening an existing file writes no page word: no page-writing function is reachable on the existing-file path, reinit included", 2)
	L.Rule("R-C16-REBUILD", "every field the mutators maintain is assigned on both open paths", 1)
	L.Rule("R-C16-WHOLEFILE", "offset = len(buf) before data is taken; curSz == len(buf) in every Buffer literal", 2)
	L.Rule("R-C16-PAGEFIT", "reinit scans only pages that fit entirely in t.data", 1)
	L.Rule("R-C16-TWOPASS", "free-page counting pass does not modify the marks it reads; head search last", 1)
	L.Rule("R-C16-FREELIST", "free-list pop/push ordering (shared with C10)", 3)

	closePathRule(c)

	L.Rule("R-C16-STATS", "the live key count is what reinit recounts: node.set reports 1 exactly when it raised numKeys, Tree.set adds exactly that to stats.NumLeafKeys, DeleteBelow recounts every leaf", 3)
	c.Group("R-C16-STATS", "node.set#numAdded", func() {
		fn := P.Fn("z", "node", "set")
		L.Analysed(fname(fn))
		tb := newTB(fn)
		paths, ok := explore(fn, tb, ExploreOpts{Start: entryPos(fn)})
		if !ok {
			L.Undecided("R-C16-STATS", "node.set#numAdded", "too many paths", fn.Pos())
			return
		}
		good, n := true, 0
		for _, p := range paths {
			ret, isRet := p.End.(*ssa.Return)
			if !isRet {
				continue
			}
			rv := returnValues(ret)
			if len(rv) != 1 {
				L.Undecided("R-C16-STATS", "node.set#numAdded", "node.set does not return one value", fn.Pos())
				return
			}
			k, known := pathConst(p, rv[0])
			raised := p.Count(func(in ssa.Instruction) bool {
				cl, isCall := in.(*ssa.Call)
				return isCall && Match("call[z.node.setNumKeys](p[0],add(call[z.node.numKeys](p[0]),c[1]))", tb.T(cl), nil)
			})
			n++
			if !known || raised > 1 || (k == "1") != (raised == 1) || (k != "0" && k != "1") {
				good = false
				L.Fail("R-C16-STATS", "node.set#numAdded", fmt.Sprintf("on block path %s node.set returns %s (known=%v) but raised numKeys %d time(s): the caller adds the result to stats.NumLeafKeys, so the live count drifts from what a reopen recounts", p.BlockPath(), k, known, raised), ret.Pos())
				break
			}
		}
		if good {
			L.Check(n > 0, "R-C16-STATS", "node.set#numAdded", fmt.Sprintf("returns 1 exactly on the %d path(s) that raise numKeys by one", n), "no returning path", fn.Pos())
		}
	})
	c.Group("R-C16-STATS", "Tree.compact#recount", func() {
		// DeleteBelow rebuilds the key count from zero: it stores 0, and every leaf visited by compact adds
		// its numKeys() AFTER compacting it, on every path of the leaf branch (a leaf that is skipped "because
		// nothing is to be done" is missing from the count until the next reopen recounts it)
		del := P.Fn("z", "Tree", "DeleteBelow")
		fn := P.Fn("z", "Tree", "compact")
		L.Analysed(fname(fn), fname(del))
		tb := newTB(fn)
		var problems []string
		zeroed := false
		dtb := newTB(del)
		for _, st := range fieldStoresIn(del, "TreeStats", "NumLeafKeys") {
			if isConst(st.Val, "0") {
				if cs := callsTo(del, "z.Tree.compact"); len(cs) == 1 && instrDominates(st, cs[0]) && dtb.T(cs[0].Common().Args[1]).String() == "call[z.Tree.node](p[0],c[1])" {
					zeroed = true
				}
			}
		}
		if !zeroed {
			problems = append(problems, "DeleteBelow does not zero stats.NumLeafKeys before compacting from the root")
		}
		var addSt ssa.Instruction
		for _, st := range fieldStoresIn(fn, "TreeStats", "NumLeafKeys") {
			if tb.T(st.Val).String() == "add(call[z.node.numKeys](p[1]),fld[NumLeafKeys](fld[stats](p[0])))" {
				addSt = st
			}
		}
		nc := callsTo(fn, "z.node.compact")
		var leafCompact ssa.Instruction
		for _, ci := range nc {
			if tb.T(ci.Common().Args[0]).String() == "p[1]" && tb.T(ci.Common().Args[1]).String() == "p[2]" {
				leafCompact = ci
			}
		}
		leaf := edgesWhere(fn, tb, "call[z.node.isLeaf](p[1])", nil, false)
		switch {
		case addSt == nil || leafCompact == nil:
			problems = append(problems, "the leaf branch does not compact the leaf with ts and add its numKeys() to stats.NumLeafKeys")
		default:
			if !instrDominates(leafCompact, addSt) {
				problems = append(problems, "the leaf's keys are counted before it is compacted")
			}
			if bad, path := reach(entryPos(fn), isReturn, isInstr(addSt), cutSet(leaf)); bad != nil {
				problems = append(problems, "a leaf can be left without being added to the count (block path "+pathString(path)+")")
			}
		}
		L.Check(len(problems) == 0, "R-C16-STATS", "Tree.compact#recount", "DeleteBelow zeroes the count; every leaf is compacted and then adds numKeys(), on every path of the leaf branch", strings.Join(problems, "; "), fn.Pos())
	})
	c.Group("R-C16-STATS", "Tree.set#NumLeafKeys", func() {
		fn := P.Fn("z", "Tree", "set")
		L.Analysed(fname(fn))
		tb := newTB(fn)
		n := 0
		for _, st := range fieldStoresIn(fn, "TreeStats", "NumLeafKeys") {
			n++
			vt := tb.T(st.Val)
			if !Match("add(fld[NumLeafKeys](fld[stats](p[0])),call[z.node.set](_,p[2],p[3]))", vt, nil) && !Match("add(call[z.node.set](_,p[2],p[3]),fld[NumLeafKeys](fld[stats](p[0])))", vt, nil) {
				L.Fail("R-C16-STATS", "Tree.set#NumLeafKeys", "stats.NumLeafKeys is updated with "+vt.String()+", not with += n.set(k, v)", st.Pos())
				return
			}
		}
		// every leaf insertion is counted: each node.set(k, v) with the caller's key and value feeds the counter
		for _, ci := range callsTo(fn, "z.node.set") {
			cl := ci.(*ssa.Call)
			if tb.T(cl.Call.Args[1]).String() != "p[2]" || tb.T(cl.Call.Args[2]).String() != "p[3]" {
				continue // child-pointer bookkeeping in inner nodes
			}
			used := false
			for _, r := range *cl.Referrers() {
				if bo, isB := r.(*ssa.BinOp); isB && bo.Op == token.ADD {
					used = true
				}
			}
			if !used {
				L.Fail("R-C16-STATS", "Tree.set#NumLeafKeys", "the result of the leaf insertion n.set(k, v) is not added to stats.NumLeafKeys", cl.Pos())
				return
			}
		}
		L.Check(n == 1, "R-C16-STATS", "Tree.set#NumLeafKeys", "stats.NumLeafKeys += n.set(k, v) at the leaf", fmt.Sprintf("%d stores to stats.NumLeafKeys in Tree.set", n), fn.Pos())
	})

	c.Group("R-C16-REBUILD", "NewTreePersistent", func() {
		maintained := map[string]bool{}
		for _, fn := range P.SrcFuncs {
			if fn.Pkg != P.Pkgs["z"] || fn.Signature.Recv() == nil || recvName(fn.Signature.Recv().Type()) != "Tree" {
				continue
			}
			switch fn.Name() {
			case "Reset", "reinit":
				continue
			}
			eachInstr(fn, func(in ssa.Instruction) {
				if st, ok := in.(*ssa.Store); ok {
					if fa, ok := st.Addr.(*ssa.FieldAddr); ok {
						switch recvName(fa.X.Type()) {
						case "Tree":
							maintained[fieldName(fa.X.Type(), fa.Field)] = true
						case "TreeStats":
							if inner, ok := fa.X.(*ssa.FieldAddr); ok && recvName(inner.X.Type()) == "Tree" {
								maintained["stats."+fieldName(fa.X.Type(), fa.Field)] = true
							}
						}
					}
				}
			})
		}
		open := P.Fn("z", "", "NewTreePersistent")
		reinit := P.Fn("z", "Tree", "reinit")
		L.Analysed(fname(open), fname(reinit))
		writesOf := func(fn *ssa.Function, into map[string]bool) {
			fns := []*ssa.Function{fn}
			fns = append(fns, fn.AnonFuncs...)
			for _, f := range fns {
				eachInstr(f, func(in ssa.Instruction) {
					if st, ok := in.(*ssa.Store); ok {
						if fa, ok := st.Addr.(*ssa.FieldAddr); ok {
							switch recvName(fa.X.Type()) {
							case "Tree":
								into[fieldName(fa.X.Type(), fa.Field)] = true
							case "TreeStats":
								into["stats."+fieldName(fa.X.Type(), fa.Field)] = true
							}
						}
					}
				})
			}
		}
		common, existing, fresh := map[string]bool{}, map[string]bool{}, map[string]bool{}
		tb := newTB(open)
		// stores in NewTreePersistent: classify by side of the isInitialized test
		initEdgesT := edgesWhere(open, tb, "ne(call[z.node.pageID](call[z.Tree.node](_,c[1])),c[0])", nil, true)
		initEdgesF := edgesWhere(open, tb, "ne(call[z.node.pageID](call[z.Tree.node](_,c[1])),c[0])", nil, false)
		eachInstr(open, func(in ssa.Instruction) {
			st, ok := in.(*ssa.Store)
			if !ok {
				return
			}
			fa, ok := st.Addr.(*ssa.FieldAddr)
			if !ok || recvName(fa.X.Type()) != "Tree" {
				return
			}
			f := fieldName(fa.X.Type(), fa.Field)
			onT, _ := reach(entryPos(open), isInstr(st), nil, cutSet(initEdgesT))
			onF, _ := reach(entryPos(open), isInstr(st), nil, cutSet(initEdgesF))
			switch {
			case onT == nil && len(initEdgesT) > 0:
				existing[f] = true
			case onF == nil && len(initEdgesF) > 0:
				fresh[f] = true
			default:
				common[f] = true
			}
		})
		writesOf(reinit, existing)
		// the fresh side goes through initRootNode → newNode/Set which maintain the stats from zero
		var missingE, missingF []string
		for f := range maintained {
			if f == "buffer" {
				continue
			}
			if !common[f] && !existing[f] {
				missingE = append(missingE, f)
			}
			if !common[f] && !fresh[f] && !strings.HasPrefix(f, "stats.") {
				missingF = append(missingF, f)
			}
		}
		sort.Strings(missingE)
		sort.Strings(missingF)
		if len(initEdgesT) == 0 {
			L.Undecided("R-C16-REBUILD", "NewTreePersistent", "the fresh/existing file test `root.pageID() != 0` was not found", open.Pos())
			return
		}
		L.Check(len(missingE) == 0 && len(missingF) == 0 && len(maintained) >= 5, "R-C16-REBUILD", "NewTreePersistent", fmt.Sprintf("%d maintained fields, all assigned on the fresh path and rebuilt by reinit on the existing-file path", len(maintained)),
			"fields the mutators maintain but the reopen path does not rebuild: existing file {"+strings.Join(missingE, ",")+"} fresh file {"+strings.Join(missingF, ",")+"}: the reopened tree reports wrong statistics or loses its free list", open.Pos())
	})

	c.Group("R-C16-READONLY", "NewTreePersistent#existing", func() {
		// opening an existing file only READS its pages: the volatile fields are rebuilt from them
		// (reinit) and nothing is written back. A page word written on this path (a sentinel re-seeded
		// "for safety", a page "repaired") changes the mapping the file held when it was closed.
		open := P.Fn("z", "", "NewTreePersistent")
		reinit := P.Fn("z", "Tree", "reinit")
		tb := newTB(open)
		W := pageWriters(P)
		fresh := edgesWhere(open, tb, "ne(call[z.node.pageID](call[z.Tree.node](_,c[1])),c[0])", nil, false)
		if len(fresh) == 0 {
			L.Undecided("R-C16-READONLY", "NewTreePersistent#existing", "the fresh/existing file test `root.pageID() != 0` was not found", open.Pos())
			return
		}
		isWriterCall := func(in ssa.Instruction) bool {
			ci, ok := in.(ssa.CallInstruction)
			if !ok {
				return false
			}
			if sc := staticCallee(ci.Common()); sc != nil && W[origin(sc)] != "" {
				return true
			}
			return false
		}
		bad, path := reach(entryPos(open), func(in ssa.Instruction) bool { return isWriterCall(in) || storesPageWord(in) }, nil, cutSet(fresh))
		if bad != nil {
			what := "a page word is written"
			if ci, ok := bad.(ssa.CallInstruction); ok {
				sc := origin(staticCallee(ci.Common()))
				what = "calls " + fname(sc) + " (" + W[sc] + ")"
			}
			L.Fail("R-C16-READONLY", "NewTreePersistent#existing", "on the existing-file path (block path "+pathString(path)+") NewTreePersistent "+what+": reopening changes the stored mapping", instrPos(bad))
		} else {
			L.Ok("R-C16-READONLY", "NewTreePersistent#existing", fmt.Sprintf("no page-writing function (of %d in package z) is called on the existing-file path", len(W)), open.Pos())
		}
		L.Check(W[reinit] == "", "R-C16-READONLY", "Tree.reinit", "reinit and everything it calls only read page words", "reinit writes page contents: "+W[reinit], reinit.Pos())
	})

	c.Group("R-C16-WHOLEFILE", "NewTreePersistent#offset", func() {
		fn := P.Fn("z", "", "NewTreePersistent")
		tb := newTB(fn)
		var offStore, dataStore *ssa.Store
		for _, st := range fieldStoresIn(fn, "Buffer", "offset") {
			if Match("conv[uint64](call[len](fld[buf](_)))", tb.T(st.Val), nil) {
				offStore = st
			}
		}
		for _, st := range fieldStoresIn(fn, "Tree", "data") {
			if Match("call[z.Buffer.Bytes](_)", tb.T(st.Val), nil) {
				dataStore = st
			}
		}
		L.Check(offStore != nil && dataStore != nil && instrDominates(offStore, dataStore.Val.(ssa.Instruction)), "R-C16-WHOLEFILE", "NewTreePersistent#offset", "buffer.offset = len(buffer.buf) before t.data = buffer.Bytes()", "t.data is taken before the buffer's offset is set to the whole file: reinit would see only the first bytes", fn.Pos())
	})
	bufferSizeInvRule(c, "R-C16-WHOLEFILE")

	c.Group("R-C16-PAGEFIT", "Tree.reinit#frontier", func() {
		fn := P.Fn("z", "Tree", "reinit")
		tb := newTB(fn)
		// the t.node(t.nextPage) call of the frontier scan
		var call *ssa.Call
		for _, ci := range callsTo(fn, "z.Tree.node") {
			if tb.T(ci.Common().Args[1]).String() == "fld[nextPage](p[0])" {
				call = ci.(*ssa.Call)
			}
		}
		if call == nil {
			L.Undecided("R-C16-PAGEFIT", "Tree.reinit#frontier", "frontier scan not found", fn.Pos())
			return
		}
		fits := edgesWhere(fn, tb, "le(mul(conv[int](add(c[1],fld[nextPage](p[0]))),global[pageSize]),call[len](fld[data](p[0])))", nil, true)
		bad, _ := reach(entryPos(fn), isInstr(call), nil, cutSet(fits))
		L.Check(bad == nil && len(fits) > 0, "R-C16-PAGEFIT", "Tree.reinit#frontier", "t.node(nextPage) only while (nextPage+1)·pageSize ≤ len(t.data)", "the frontier scan addresses a page whose end may lie beyond t.data (the data starts after the buffer padding, so the file's last page is cut short): reopening a tree whose pages fill the file panics (finding F5)", call.Pos())
	})

	c.Group("R-C16-TWOPASS", "Tree.reinit#freelist", func() {
		fn := P.Fn("z", "Tree", "reinit")
		tb := newTB(fn)
		var cnt *ssa.Store
		for _, st := range fieldStoresIn(fn, "TreeStats", "NumPagesFree") {
			cnt = st
		}
		var head *ssa.Store
		for _, st := range fieldStoresIn(fn, "Tree", "freePage") {
			head = st
		}
		if cnt == nil || head == nil {
			L.Fail("R-C16-TWOPASS", "Tree.reinit#freelist", "reinit does not rebuild NumPagesFree and freePage", fn.Pos())
			return
		}
		// stores into tailPages
		var marks []*ssa.Store
		var tail ssa.Value
		eachInstr(fn, func(in ssa.Instruction) {
			if ms, ok := in.(*ssa.MakeSlice); ok && strings.Contains(ms.Type().String(), "bool") {
				tail = ms
			}
		})
		eachInstr(fn, func(in ssa.Instruction) {
			if st, ok := in.(*ssa.Store); ok {
				if ia, ok := st.Addr.(*ssa.IndexAddr); ok && tail != nil && tb.T(ia.X).String() == tb.T(tail).String() {
					marks = append(marks, st)
				}
			}
		})
		if len(marks) == 0 {
			L.Undecided("R-C16-TWOPASS", "Tree.reinit#freelist", "no store into the tail-page marks found", fn.Pos())
			return
		}
		// the counting loop = cycle through cnt; no mark store may lie on a cycle through cnt
		ok := true
		for _, m := range marks {
			r1, _ := reach(after(cnt), isInstr(m), nil, nil)
			r2, _ := reach(after(m), isInstr(cnt), nil, nil)
			if r1 != nil && r2 != nil {
				ok = false
				L.Fail("R-C16-TWOPASS", "Tree.reinit#freelist", "tail-page marks are modified inside the pass that counts free pages and reads those marks: a free page that points to a higher-numbered free page hides it (NumPagesFree and the head come out wrong)", m.Pos())
			}
		}
		// head search after all marking
		for _, m := range marks {
			if r, _ := reach(after(head), isInstr(m), nil, nil); r != nil {
				ok = false
				L.Fail("R-C16-TWOPASS", "Tree.reinit#freelist", "the free-list head is chosen before all pointed-to pages are marked", head.Pos())
			}
		}
		if ok {
			L.Ok("R-C16-TWOPASS", "Tree.reinit#freelist", fmt.Sprintf("%d mark stores, none inside the counting pass; head chosen last", len(marks)), cnt.Pos())
		}
		// the head search is run on every path: a shortcut that returns before it ("no page points to
		// another one, so there is no list") loses a free list of exactly one page, whose link is null
		// the loop that searches: the test guarding the head store reads a tail-page mark; its loop header
		// must lie on every path (any loop form: range over the marks, or a page-id counter)
		var test *ssa.BasicBlock
		for d := head.Block().Idom(); d != nil && test == nil; d = d.Idom() {
			if iff := lastIf(d); iff != nil && strings.Contains(tb.T(iff.Cond).String(), tb.T(tail).String()) {
				test = d
			}
		}
		var hdr *ssa.BasicBlock
		if test != nil {
			hdr = loopHeaderOf(test)
		}
		if hdr == nil {
			L.Undecided("R-C16-TWOPASS", "Tree.reinit#headscan", "the loop that picks the free-list head (a test of a tail-page mark guarding the store to t.freePage) was not recognised", head.Pos())
			return
		}
		inScan := func(in ssa.Instruction) bool { return in.Block() == hdr }
		if bad, path := mustPass(entryPos(fn), inScan, nil); bad != nil {
			L.Fail("R-C16-TWOPASS", "Tree.reinit#headscan", "reinit can return without searching for the free-list head (block path "+pathString(path)+"): freePage stays 0 although NumPagesFree counted free pages, and the recycled pages are never reused", instrPos(bad))
			return
		}
		// inside the scan: the first unmarked page is taken (no exit from the loop other than exhaustion or after the head store)
		okExit := true
		body := loopBodyOf(hdr)
		for b := range body {
			if b == hdr {
				continue
			}
			for _, s2 := range b.Succs {
				if !body[s2] && !(s2 == head.Block() || head.Block().Dominates(s2) || b == head.Block() || head.Block().Dominates(b)) {
					okExit = false
				}
			}
		}
		L.Check(okExit, "R-C16-TWOPASS", "Tree.reinit#headscan", "the head search runs on every path and only stops at the first unmarked page", "the head search can stop before it found an unmarked page", head.Pos())
	})

	// free-list rules of C10
	sub := &Ctx{L: newLedger("C16"), P: P, Tier: c.Tier, Repo: c.Repo}
	sub.L.P = P
	runC10(sub)
	for _, o := range sub.L.Obls {
		if o.Rule == "R-C10-FREELIST" || o.Rule == "R-C10-RESET" {
			o.Rule = "R-C16-FREELIST"
			L.add(o)
		}
	}
}

func closePathRule(c *Ctx) {
	L, P := c.L, c.P
	suffix := ""
	if P.Variant.Name != "V0" {
		suffix = "(" + P.Variant.GOOS + ")"
	}
	c.Group("R-C16-CLOSEPATH", "MmapFile.Close"+suffix, func() {
		fn := P.Fn("z", "MmapFile", "Close")
		L.Analysed(fname(fn) + suffix)
		tb := newTB(fn)
		find := func(name string) ssa.Instruction {
			for _, ci := range callsTo(fn, name) {
				return ci.(ssa.Instruction)
			}
			return nil
		}
		sync, unmap := find("z.MmapFile.Sync"), find("z.Munmap")
		var fclose ssa.Instruction
		for _, ci := range allCalls(fn) {
			if calleeName(ci.Common()) == "os.File.Close" {
				fclose = ci.(ssa.Instruction)
			}
		}
		if sync == nil || unmap == nil || fclose == nil {
			L.Fail("R-C16-CLOSEPATH", "MmapFile.Close"+suffix+"#order", "Close does not perform Sync, Munmap and Fd.Close", fn.Pos())
			return
		}
		okOrder := instrDominates(sync, unmap) && instrDominates(unmap, fclose)
		// on success paths all three happen: a return that is not an error return passes fclose
		L.Check(okOrder, "R-C16-CLOSEPATH", "MmapFile.Close"+suffix+"#order", "Sync (msync) → Munmap → Fd.Close", "the mapping is unmapped or the descriptor closed before the data was synced", fclose.Pos())
		// Sync error stops the close; no truncate for negative size
		nonNeg := edgesWhere(fn, tb, "le(c[0],p[1])", nil, true)
		okTrunc := true
		for _, ci := range allCalls(fn) {
			if calleeName(ci.Common()) == "os.File.Truncate" {
				if b, _ := reach(entryPos(fn), isInstr(ci.(ssa.Instruction)), nil, cutSet(nonNeg)); b != nil || len(nonNeg) == 0 {
					okTrunc = false
				}
			}
		}
		L.Check(okTrunc, "R-C16-CLOSEPATH", "MmapFile.Close"+suffix+"#truncate", "the file is truncated only for maxSz >= 0 (Release passes −1)", "Close can truncate the file for a negative size: a persistent tree's pages would be cut off", fn.Pos())
		dropped := droppedErrors(fn, tb)
		L.Check(len(dropped) == 0, "R-C16-CLOSEPATH", "MmapFile.Close"+suffix+"#errors", "every error of Sync/Munmap/Truncate/Close is returned", fmt.Sprintf("%d error result(s) are dropped on the close path (a failed msync would go unnoticed)", len(dropped)), fn.Pos())
	})
	c.Group("R-C16-CLOSEPATH", "MmapFile.Sync"+suffix, func() {
		fn := P.Fn("z", "MmapFile", "Sync")
		tb := newTB(fn)
		ok := false
		for _, r := range returnsOf(fn) {
			if Match("call[z.Msync](fld[Data](p[0]))", tb.T(returnValues(r)[0]), nil) {
				ok = true
			}
		}
		L.Check(ok, "R-C16-CLOSEPATH", "MmapFile.Sync"+suffix, "returns Msync(m.Data)", "Sync does not msync the mapping (or drops its error)", fn.Pos())
	})
	c.Group("R-C16-CLOSEPATH", "Buffer.Release"+suffix, func() {
		fn := P.Fn("z", "Buffer", "Release")
		L.Analysed(fname(fn) + suffix)
		tb := newTB(fn)
		var cl ssa.Instruction
		for _, ci := range callsTo(fn, "z.MmapFile.Close") {
			if isConst(ci.Common().Args[1], "-1") {
				cl = ci.(ssa.Instruction)
			}
		}
		if cl == nil {
			L.Fail("R-C16-CLOSEPATH", "Buffer.Release"+suffix, "Release does not call mmapFile.Close(-1)", fn.Pos())
			return
		}
		notPersistent := edgesWhere(fn, tb, "fld[persistent](p[0])", nil, false)
		okRemove := true
		n := 0
		for _, ci := range allCalls(fn) {
			if calleeName(ci.Common()) == "os.Remove" {
				n++
				if b, _ := reach(entryPos(fn), isInstr(ci.(ssa.Instruction)), nil, cutSet(notPersistent)); b != nil || len(notPersistent) == 0 {
					okRemove = false
				}
				if !instrDominates(cl, ci.(ssa.Instruction)) {
					okRemove = false
				}
			}
		}
		dropped := droppedErrors(fn, tb)
		L.Check(okRemove && n == 1 && len(dropped) == 0, "R-C16-CLOSEPATH", "Buffer.Release"+suffix, "Close(-1) first; the file is removed only when !persistent; errors returned", fmt.Sprintf("Release can delete a persistent file or drops an error (remove guarded:%v dropped errors:%d)", okRemove, len(dropped)), fn.Pos())
	})
	c.Group("R-C16-CLOSEPATH", "NewBufferPersistent"+suffix, func() {
		fn := P.Fn("z", "", "NewBufferPersistent")
		tb := newTB(fn)
		var st *ssa.Store
		for _, s := range fieldStoresIn(fn, "Buffer", "persistent") {
			if isConst(s.Val, "true") {
				st = s
			}
		}
		ok := st != nil
		if ok {
			for _, r := range returnsOf(fn) {
				rv := returnValues(r)
				if !isConst(rv[0], "nil") { // success return
					if b, _ := reach(entryPos(fn), isInstr(r), isInstr(st), nil); b != nil {
						ok = false
					}
				}
			}
		}
		dropped := droppedErrors(fn, tb)
		L.Check(ok && len(dropped) == 0, "R-C16-CLOSEPATH", "NewBufferPersistent"+suffix, "persistent = true on every success path; errors returned", "a persistent buffer can be returned without the persistent flag (Release would delete the file)", fn.Pos())
	})
	c.Group("R-C16-CLOSEPATH", "Tree.Close"+suffix, func() {
		fn := P.Fn("z", "Tree", "Close")
		tb := newTB(fn)
		ok := false
		for _, r := range returnsOf(fn) {
			if Match("call[z.Buffer.Release](fld[buffer](p[0]))", tb.T(returnValues(r)[0]), nil) {
				ok = true
			}
		}
		L.Check(ok, "R-C16-CLOSEPATH", "Tree.Close"+suffix, "returns buffer.Release()", "Tree.Close does not return buffer.Release()'s error", fn.Pos())
	})
}

// storesPageWord: a store into an element of a []uint64-based value (a tree page viewed as node) or a
// copy into one.
func storesPageWord(in ssa.Instruction) bool {
	isWords := func(t types.Type) bool {
		sl, ok := t.Underlying().(*types.Slice)
		if !ok {
			return false
		}
		b, ok := sl.Elem().Underlying().(*types.Basic)
		return ok && b.Kind() == types.Uint64
	}
	switch x := in.(type) {
	case *ssa.Store:
		if ia, ok := x.Addr.(*ssa.IndexAddr); ok && isWords(ia.X.Type()) {
			return true
		}
	case *ssa.Call:
		if b, ok := x.Call.Value.(*ssa.Builtin); ok && b.Name() == "copy" && isWords(x.Call.Args[0].Type()) {
			return true
		}
	}
	return false
}

// pageWriters: functions of package z that may write a page word, directly or through a static
// callee / a closure they create; the value says through what.
func pageWriters(P *Prog) map[*ssa.Function]string {
	W := map[*ssa.Function]string{}
	var fns []*ssa.Function
	for _, fn := range P.SrcFuncs {
		if fn.Pkg == P.Pkgs["z"] {
			fns = append(fns, fn)
		}
	}
	for _, fn := range fns {
		eachInstr(fn, func(in ssa.Instruction) {
			if W[fn] == "" && storesPageWord(in) {
				W[fn] = "writes a page word at " + P.pos(instrPos(in))
			}
		})
	}
	for changed := true; changed; {
		changed = false
		for _, fn := range fns {
			if W[fn] != "" {
				continue
			}
			for _, a := range fn.AnonFuncs {
				if W[a] != "" {
					W[fn] = "through its closure " + fname(a)
					changed = true
				}
			}
			for _, ci := range allCalls(fn) {
				if sc := staticCallee(ci.Common()); sc != nil && W[origin(sc)] != "" && W[fn] == "" {
					W[fn] = "through " + fname(origin(sc))
					changed = true
				}
			}
		}
	}
	for f, w := range W {
		if w == "" {
			delete(W, f)
		}
	}
	return W
}
