package main

import (
	"fmt"
	"go/token"
	"sort"
	"strings"

	"golang.org/x/tools/go/ssa"
)

func init() {
	register(&PropCheck{
		ID: "C17",
		Explanation: "Decides the counter/state pairing behind 'metrics obey conservation laws': " +
			"(R-C17-SITES) the Metrics.add call sites, identified by the metricType constant they pass, are exactly the tabled ones; " +
			"(R-C17-COST) on every path of every mutator of the accounted cost, Δused ≡ ΔcostAdd − ΔcostEvict in Z/2^64 (linear effect summaries; the two's-complement encoding of a negative delta normalises to −(prev−cost)), and in defaultPolicy.Add each evict.add(key,cost) is paired with costAdd += uint64(cost) in the same block; used itself is exact (shared with C03); " +
			"(R-C17-KEYS) keyEvict += 1 exactly on the paths of sampledLFU.del that delete the key; keyAdd += 1 exactly once on every applier path on which the policy admitted a new key (independent of store.Set's verdict) and never elsewhere; " +
			"(R-C17-HITMISS) past the guard every path of Get counts exactly one of hit/miss, chosen by the found result of storedItems.Get, under the key hash; " +
			"(R-C17-DROPS) SetWithTTL counts dropSets exactly on the paths where the send was not taken and Update did not store, all of which return false; Push counts exactly one of keepGets/dropGets by len(keys) according to the select arm taken; " +
			"(R-C17-BATCH) a batch of recorded Gets is offered to the policy once: the ring stripe starts over after every hand-over attempt, so GetsKept+GetsDropped cannot exceed the Gets recorded (rule shared with C08); " +
			"(R-C17-CLEAR) Metrics.Clear atomically zeroes every cell of every metric and Cache.Clear calls it when metrics are on; " +
			"(R-C17-CELLS) add and get address the same per-type array and get sums all its cells. " +
			"NOT decided: the equalities at quiescent points (they follow from the per-step pairing only together with C13).",
		Run: runC17,
	})
}

func metricName(P *Prog, k string) string {
	for _, n := range []string{"hit", "miss", "keyAdd", "keyUpdate", "keyEvict", "costAdd", "costEvict", "dropSets", "rejectSets", "dropGets", "keepGets"} {
		if nc := P.Pkgs["ristretto"].Const(n); nc != nil && nc.Value.Value.ExactString() == k {
			return n
		}
	}
	return "metric#" + k
}

func runC17(c *Ctx) {
	L, P := c.L, c.P
	L.Rule("R-C17-SITES", "Metrics.add call sites are exactly the tabled (function, metric) pairs", 1)
	L.Rule("R-C17-COST", "Δused ≡ ΔcostAdd − ΔcostEvict on every path of every mutator; evict.add paired with costAdd", 8)
	L.Rule("R-C17-KEYS", "keyEvict ↔ key deleted from keyCosts; keyAdd ↔ policy admitted a new key; applier arms call only their own policy operation", 5)
	L.Rule("R-C17-HITMISS", "exactly one of hit/miss per Get past the guard, chosen by store.Get's found", 1)
	L.Rule("R-C17-DROPS", "dropSets exactly on dropped new-key sets; keepGets/dropGets exactly one per batch by arm", 2)
	L.Rule("R-C17-BATCH", "each recorded Get is offered to the policy at most once: the stripe starts over after every hand-over attempt (rule shared with C08)", 3)
	L.Rule("R-C17-CLEAR", "Metrics.Clear zeroes every cell of every metric atomically; Cache.Clear calls it", 2)
	L.Rule("R-C17-CELLS", "add/get address the same array; get sums all cells", 1)

	mconst := func(n string) string { return P.Const("ristretto", n).Value.Value.ExactString() }

	c.Group("R-C17-SITES", "Metrics.add sites", func() {
		var got []string
		for _, fn := range P.SrcFuncs {
			if fn.Pkg != P.Pkgs["ristretto"] {
				continue
			}
			tb := newTB(fn)
			for _, ci := range callsTo(fn, "Metrics.add") {
				t := tb.T(ci.Common().Args[1])
				if t.Op != "c" {
					L.Undecided("R-C17-SITES", "site@"+fname(fn), "metric type is not a constant", ci.Pos())
					continue
				}
				got = append(got, fname(fn)+":"+metricName(P, t.Sym))
			}
		}
		sort.Strings(got)
		want := []string{
			"Cache.Get:hit", "Cache.Get:miss", "Cache.SetWithTTL:dropSets", "Cache.processItems:keyAdd",
			"defaultPolicy.Add:costAdd", "defaultPolicy.Add:costAdd", "defaultPolicy.Add:rejectSets",
			"defaultPolicy.Push:dropGets", "defaultPolicy.Push:keepGets",
			"sampledLFU.del:costEvict", "sampledLFU.del:keyEvict",
			"sampledLFU.updateIfHas:costAdd", "sampledLFU.updateIfHas:costAdd", "sampledLFU.updateIfHas:keyUpdate",
		}
		sort.Strings(want)
		L.CallSites(len(got))
		L.Check(strings.Join(got, ",") == strings.Join(want, ","), "R-C17-SITES", "Metrics.add sites", fmt.Sprintf("%d counter sites, as tabled", len(got)),
			"counter sites changed: got {"+strings.Join(got, ",")+"}; a new or removed increment needs its pairing rule", 0)
	})

	// ---- R-C17-COST
	accountingInvRule(c, "R-C17-COST")
	// MaxCost-RemainingCost() is what CostAdded-CostEvicted is compared with: the writers of `used` are the
	// four with a metric pairing below, and RemainingCost is getMaxCost() - used, unclamped
	importRulesWhere(c, runC03, map[string]string{"R-C03-WRITERS": "R-C17-COST", "R-C03-ROOM": "R-C17-COST"}, func(o *Obligation) bool {
		return o.Rule == "R-C03-WRITERS" || o.Construct == "defaultPolicy.Cap" || o.Construct == "Cache.RemainingCost"
	})
	for _, name := range []string{"del", "updateIfHas", "add", "clear"} {
		name := name
		c.Group("R-C17-COST", "sampledLFU."+name+"#metrics", func() {
			fn := P.Fn("ristretto", "sampledLFU", name)
			L.Analysed(fname(fn))
			tb := newTB(fn)
			sums, err := summarize(fn, tb, []string{usedCell})
			if err != nil {
				L.Undecided("R-C17-COST", "sampledLFU."+name+"#metrics", err.Error(), fn.Pos())
				return
			}
			ok := true
			var descr []string
			for _, ps := range sums {
				dUsed := ps.Mem[usedCell].sub(linAtom(usedCell + "@entry"))
				dAdd, dEvict := Lin{}, Lin{}
				for _, ev := range ps.Events {
					if ev.Kind != "call" || ev.Map != "Metrics.add" {
						continue
					}
					switch ev.ArgT[1].String() {
					case "c[" + mconst("costAdd") + "]":
						dAdd = dAdd.add(ev.Args[3])
					case "c[" + mconst("costEvict") + "]":
						dEvict = dEvict.add(ev.Args[3])
					}
				}
				if name == "add" || name == "clear" {
					// sampledLFU.add's counterpart is counted by its caller; clear is followed by Metrics.Clear
					if len(dAdd) != 0 || len(dEvict) != 0 {
						ok = false
						L.Fail("R-C17-COST", "sampledLFU."+name+"#metrics", "unexpected cost counter in "+name, fn.Pos())
					}
					continue
				}
				eq := ps.Equalities()
				if !dUsed.subst(eq).equal(dAdd.sub(dEvict).subst(eq)) {
					ok = false
					L.Fail("R-C17-COST", "sampledLFU."+name+"#metrics", fmt.Sprintf("on path %s: Δused = %s but ΔcostAdd − ΔcostEvict = %s (mod 2^64)", ps.BlockPath(), dUsed, dAdd.sub(dEvict)), fn.Pos())
					continue
				}
				descr = append(descr, ps.BlockPath()+": "+dUsed.String())
			}
			if ok {
				L.Ok("R-C17-COST", "sampledLFU."+name+"#metrics", "Δused ≡ ΔcostAdd − ΔcostEvict on every path ["+strings.Join(descr, "; ")+"]", fn.Pos())
			}
		})
	}
	c.Group("R-C17-COST", "defaultPolicy.Add#costAdd", func() {
		fn := P.Fn("ristretto", "defaultPolicy", "Add")
		L.Analysed(fname(fn))
		tb := newTB(fn)
		adds := callsTo(fn, "sampledLFU.add")
		pat := "call[Metrics.add](fld[metrics](p[0]),c[" + mconst("costAdd") + "],p[1],conv[uint64](p[2]))"
		var cost []ssa.Instruction
		for _, ci := range callsTo(fn, "Metrics.add") {
			if Match(pat, tb.T(ci.(*ssa.Call)), nil) {
				cost = append(cost, ci.(ssa.Instruction))
			} else if Match("call[Metrics.add](_,c["+mconst("costAdd")+"],_,_)", tb.T(ci.(*ssa.Call)), nil) {
				L.Fail("R-C17-COST", "defaultPolicy.Add#costAdd", "costAdd is increased by "+tb.T(ci.Common().Args[3]).String()+" instead of uint64(cost)", ci.Pos())
				return
			}
		}
		ok := len(adds) > 0 && len(adds) == len(cost)
		for _, a := range adds {
			paired := false
			for _, m := range cost {
				if m.Block() == a.(ssa.Instruction).Block() {
					paired = true
				}
			}
			if !paired {
				ok = false
			}
		}
		L.Check(ok, "R-C17-COST", "defaultPolicy.Add#costAdd", fmt.Sprintf("%d evict.add(key,cost), each paired with costAdd += uint64(cost) in the same block", len(adds)),
			fmt.Sprintf("%d evict.add vs %d costAdd(key, uint64(cost)) increments, not pairwise in the same block: CostAdded − CostEvicted drifts from MaxCost − RemainingCost", len(adds), len(cost)), fn.Pos())
	})

	// ---- R-C17-KEYS
	c.Group("R-C17-KEYS", "sampledLFU.del#keyEvict", func() {
		fn := P.Fn("ristretto", "sampledLFU", "del")
		tb := newTB(fn)
		paths, _ := explore(fn, tb, ExploreOpts{Start: entryPos(fn)})
		ok, n := true, 0
		for _, p := range paths {
			if _, isRet := p.End.(*ssa.Return); !isRet {
				continue
			}
			n++
			deleted := p.Has(func(in ssa.Instruction) bool {
				cl, isC := in.(*ssa.Call)
				return isC && calleeName(&cl.Call) == "delete" && Match("fld[keyCosts](p[0])", tb.T(cl.Call.Args[0]), nil)
			})
			nEv := countCalls(p, tb, "call[Metrics.add](_,c["+mconst("keyEvict")+"],p[1],c[1])", nil)
			if (deleted && nEv != 1) || (!deleted && nEv != 0) {
				ok = false
				L.Fail("R-C17-KEYS", "sampledLFU.del#keyEvict", fmt.Sprintf("path %s: key deleted=%v but keyEvict increments=%d", p.BlockPath(), deleted, nEv), fn.Pos())
			}
		}
		if ok {
			L.Check(n >= 2, "R-C17-KEYS", "sampledLFU.del#keyEvict", "keyEvict += 1 exactly when the key leaves keyCosts", "fewer than two paths", fn.Pos())
		}
	})
	c.Group("R-C17-KEYS", "Cache.processItems#keyAdd", func() {
		fn := P.Fn("ristretto", "Cache", "processItems")
		L.Analysed(fname(fn))
		tb := newTB(fn)
		sel, bufState, I := applierSelect(fn, tb)
		if sel == nil {
			L.Undecided("R-C17-KEYS", "Cache.processItems#keyAdd", "applier select not found", fn.Pos())
			return
		}
		paths, _ := explore(fn, tb, ExploreOpts{Start: after(sel), StopAt: isInstr(sel), TrackField: trackItemFlag})
		addPat := "call[defaultPolicy.Add](_,fld[Key](" + I + "),_)"
		keyAddPat := "call[Metrics.add](fld[Metrics](p[0]),c[" + mconst("keyAdd") + "],fld[Key](" + I + "),c[1])"
		ok, n := true, 0
		for _, p := range paths {
			nKA := countCalls(p, tb, "call[Metrics.add](_,c["+mconst("keyAdd")+"],_,_)", nil)
			if !p.SelectTaken(sel, bufState) {
				if nKA != 0 {
					ok = false
				}
				continue
			}
			admitted := countCalls(p, tb, addPat, nil) == 1 && p.CondHeld(tb, "ext[1]("+addPat+")", nil) == 1
			good := countCalls(p, tb, keyAddPat, nil)
			if admitted {
				n++
			}
			if (admitted && (nKA != 1 || good != 1)) || (!admitted && nKA != 0) {
				ok = false
				L.Fail("R-C17-KEYS", "Cache.processItems#keyAdd", fmt.Sprintf("path %s: policy admitted a new key=%v but keyAdd increments=%d (well-formed %d): KeysAdded − KeysEvicted drifts from the number of keys the policy holds", p.BlockPath(), admitted, nKA, good), sel.Pos())
			}
		}
		if ok {
			L.Check(n > 0, "R-C17-KEYS", "Cache.processItems#keyAdd", "keyAdd += 1 exactly on the paths where cachePolicy.Add admitted the key", "no admitting path found", sel.Pos())
		}
	})

	// ---- R-C17-HITMISS
	c.Group("R-C17-HITMISS", "Cache.Get", func() {
		fn := P.Fn("ristretto", "Cache", "Get")
		L.Analysed(fname(fn))
		tb := newTB(fn)
		paths, _ := explore(fn, tb, ExploreOpts{Start: entryPos(fn)})
		getPat := "call[iface:store.Get](_,?k,_)"
		ok, n := true, 0
		for _, p := range paths {
			if _, isRet := p.End.(*ssa.Return); !isRet {
				continue
			}
			env := Env{}
			nGet := 0
			for _, t := range callTermsOnPath(p, tb) {
				if Match(getPat, t, env) {
					nGet++
				}
			}
			nHit := countCalls(p, tb, "call[Metrics.add](fld[Metrics](p[0]),c["+mconst("hit")+"],_,c[1])", nil)
			nMiss := countCalls(p, tb, "call[Metrics.add](fld[Metrics](p[0]),c["+mconst("miss")+"],_,c[1])", nil)
			if nGet == 0 {
				if nHit+nMiss != 0 {
					ok = false
					L.Fail("R-C17-HITMISS", "Cache.Get", "a hit/miss is counted on the closed/nil path", fn.Pos())
				}
				continue
			}
			n++
			found := p.CondHeld(tb, "ext[1](call[iface:store.Get](_,_,_))", nil)
			if nHit+nMiss != 1 || (found == 1 && nHit != 1) || (found == -1 && nMiss != 1) || found == 0 {
				ok = false
				L.Fail("R-C17-HITMISS", "Cache.Get", fmt.Sprintf("path %s: found=%d hit=%d miss=%d; want exactly one, chosen by found", p.BlockPath(), found, nHit, nMiss), fn.Pos())
			}
		}
		if ok {
			L.Check(n >= 2, "R-C17-HITMISS", "Cache.Get", "exactly one of hit/miss per Get, chosen by storedItems.Get's found result", "fewer than two live paths", fn.Pos())
		}
	})

	// ---- R-C17-BATCH
	ringRule(c, "R-C17-BATCH")
	applierArmsRule(c, "R-C17-KEYS")
	victimsLoopRule(c, "R-C17-KEYS") // a victim is booked in keyEvict by the policy: it must leave the map on both outcomes of Add

	// ---- R-C17-DROPS
	c.Group("R-C17-DROPS", "Cache.SetWithTTL#dropSets", func() {
		fn := P.Fn("ristretto", "Cache", "SetWithTTL")
		L.Analysed(fname(fn))
		tb := newTB(fn)
		var sel *ssa.Select
		for _, s := range sendsIn(fn) {
			if s.Sel != nil && Match("fld[setBuf](p[0])", tb.T(s.Chan), nil) {
				sel = s.Sel
			}
		}
		if sel == nil {
			L.Undecided("R-C17-DROPS", "Cache.SetWithTTL#dropSets", "no select send on setBuf", fn.Pos())
			return
		}
		paths, _ := explore(fn, tb, ExploreOpts{Start: entryPos(fn), TrackField: trackItemFlag})
		ok, nDrop := true, 0
		for _, p := range paths {
			ret, isRet := p.End.(*ssa.Return)
			if !isRet {
				continue
			}
			reachedSel := p.Has(isInstr(sel))
			sent := p.SelectTaken(sel, 0)
			found := p.CondHeld(tb, "ext[1](call[iface:store.Update](_,_))", nil) == 1
			n := countCalls(p, tb, "call[Metrics.add](fld[Metrics](p[0]),c["+mconst("dropSets")+"],_,c[1])", nil)
			dropped := reachedSel && !sent && !found
			if dropped {
				nDrop++
			}
			retFalse := isConst(returnValues(ret)[0], "false")
			if (dropped && n != 1) || (!dropped && n != 0) || (n > 0 && !retFalse) {
				ok = false
				L.Fail("R-C17-DROPS", "Cache.SetWithTTL#dropSets", fmt.Sprintf("path %s: new-key set dropped=%v (buffer arm taken=%v, overwrite stored=%v) but dropSets increments=%d, returns false=%v", p.BlockPath(), dropped, sent, found, n, retFalse), fn.Pos())
			}
		}
		if ok {
			L.Check(nDrop > 0, "R-C17-DROPS", "Cache.SetWithTTL#dropSets", "dropSets += 1 exactly when a new-key set finds the buffer full (and false is returned)", "no dropping path found", fn.Pos())
		}
	})
	c.Group("R-C17-DROPS", "defaultPolicy.Push", func() {
		fn := P.Fn("ristretto", "defaultPolicy", "Push")
		L.Analysed(fname(fn))
		tb := newTB(fn)
		var sel *ssa.Select
		for _, s := range sendsIn(fn) {
			if s.Sel != nil && Match("fld[itemsCh](p[0])", tb.T(s.Chan), nil) {
				sel = s.Sel
			}
		}
		if sel == nil {
			L.Undecided("R-C17-DROPS", "defaultPolicy.Push", "no select send on itemsCh", fn.Pos())
			return
		}
		paths, _ := explore(fn, tb, ExploreOpts{Start: entryPos(fn)})
		ok, n := true, 0
		amount := "conv[uint64](call[len](p[1]))"
		for _, p := range paths {
			if _, isRet := p.End.(*ssa.Return); !isRet {
				continue
			}
			nKeep := countCalls(p, tb, "call[Metrics.add](fld[metrics](p[0]),c["+mconst("keepGets")+"],_,"+amount+")", nil)
			nDrop := countCalls(p, tb, "call[Metrics.add](fld[metrics](p[0]),c["+mconst("dropGets")+"],_,"+amount+")", nil)
			nAny := countCalls(p, tb, "call[Metrics.add]", nil)
			if !p.Has(isInstr(sel)) {
				if nAny != 0 {
					ok = false
				}
				continue
			}
			n++
			sent := p.SelectTaken(sel, 0)
			if nAny != 1 || (sent && nKeep != 1) || (!sent && nDrop != 1) {
				ok = false
				L.Fail("R-C17-DROPS", "defaultPolicy.Push", fmt.Sprintf("path %s: batch handed over=%v but keepGets=%d dropGets=%d (counter calls %d); want exactly one, by len(keys)", p.BlockPath(), sent, nKeep, nDrop, nAny), fn.Pos())
			}
		}
		if ok {
			L.Check(n >= 2, "R-C17-DROPS", "defaultPolicy.Push", "exactly one of keepGets/dropGets += len(keys), by the select arm taken", "fewer than two batch paths", fn.Pos())
		}
	})

	// ---- R-C17-CLEAR
	metricsClearRule(c, "R-C17-CLEAR")
	c.Group("R-C17-CLEAR", "Cache.Clear", func() {
		sub := &Ctx{L: newLedger("C17"), P: P, Tier: c.Tier}
		sub.L.P = P
		clearResetParts(sub, "R-C17-CLEAR", "cache", "metrics", "evict")
		for _, o := range sub.L.Obls {
			if strings.Contains(o.Construct, "Metrics.Clear") || o.Outcome != OK {
				L.add(o)
			}
		}
	})

	// ---- R-C17-CELLS
	c.Group("R-C17-CELLS", "Metrics.add/get", func() {
		add := P.Fn("ristretto", "Metrics", "add")
		get := P.Fn("ristretto", "Metrics", "get")
		ta, tg := newTB(add), newTB(get)
		okAdd := false
		for _, ci := range callsTo(add, "atomic.AddUint64") {
			if Match("idx(idx(fld[all](p[0]),p[1]),_)", ta.T(ci.Common().Args[0]), nil) && ta.T(ci.Common().Args[1]).String() == "p[3]" {
				okAdd = true
			}
		}
		okGet, whole := false, false
		for _, ci := range callsTo(get, "atomic.LoadUint64") {
			if Match("idx(idx(fld[all](p[0]),p[1]),_)", tg.T(ci.Common().Args[0]), nil) {
				okGet = true
			}
		}
		for _, b := range get.Blocks {
			if iff := lastIf(b); iff != nil && condPolarity(tg.T(iff.Cond), "lt(_,call[len](idx(fld[all](p[0]),p[1])))", nil) != 0 {
				whole = true
			}
		}
		L.Check(okAdd && okGet && whole, "R-C17-CELLS", "Metrics.add/get", "add: atomic add of delta into p.all[t][idx]; get: atomic sum over all cells of p.all[t]",
			fmt.Sprintf("add/get disagree on the cells (add ok:%v get ok:%v sums all:%v)", okAdd, okGet, whole), add.Pos())
	})
}

// metricsClearRule: Metrics.Clear stores 0 atomically into every cell of every metric type
// (outer bound doNotUse, inner over p.all[i]). Shared by C17 and C15.
func metricsClearRule(c *Ctx, ruleID string) {
	L, P := c.L, c.P
	mconst := func(n string) string { return P.Const("ristretto", n).Value.Value.ExactString() }
	c.Group(ruleID, "Metrics.Clear", func() {
		fn := P.Fn("ristretto", "Metrics", "Clear")
		L.Analysed(fname(fn))
		tb := newTB(fn)
		doNotUse := mconst("doNotUse")
		var store *ssa.Call
		for _, ci := range callsTo(fn, "atomic.StoreUint64") {
			cl := ci.(*ssa.Call)
			if Match("idx(idx(fld[all](p[0]),?i),?j)", tb.T(cl.Call.Args[0]), nil) && isConst(cl.Call.Args[1], "0") {
				store = cl
			}
		}
		if store == nil {
			L.Fail(ruleID, "Metrics.Clear", "no atomic.StoreUint64(p.all[i][j], 0)", fn.Pos())
			return
		}
		outer, inner := false, false
		for _, b := range fn.Blocks {
			iff := lastIf(b)
			if iff == nil {
				continue
			}
			envO := Env{}
			if condPolarity(tb.T(iff.Cond), "lt(?i,c["+doNotUse+"])", envO) != 0 {
				// the counter runs from 0 in steps of 1 (`for i := 0; i < doNotUse; i++`, or a range over the
				// doNotUse-element array p.all, which go/ssa lowers to φ(-1, i+1) compared as i+1 < len)
				iv, first := envO["i"].V, "0"
				if inc, isInc := iv.(*ssa.BinOp); isInc && inc.Op == token.ADD && isConst(inc.Y, "1") {
					iv, first = inc.X, "-1"
				}
				if ph, isPhi := iv.(*ssa.Phi); isPhi {
					from0, step1 := false, true
					for _, e := range ph.Edges {
						if isConst(e, first) {
							from0 = true
							continue
						}
						bo, isB := e.(*ssa.BinOp)
						if !isB || bo.Op != token.ADD || !(bo.X == ssa.Value(ph) && isConst(bo.Y, "1") || bo.Y == ssa.Value(ph) && isConst(bo.X, "1")) {
							step1 = false
						}
					}
					outer = from0 && step1
				}
			}
			if condPolarity(tb.T(iff.Cond), "lt(_,call[len](idx(fld[all](p[0]),_)))", nil) != 0 {
				inner = true
			}
		}
		again, _ := reach(after(store), isInstr(store), nil, nil)
		L.Check(outer && inner && again != nil, ruleID, "Metrics.Clear", "every cell of every metric type (i from 0 while i < doNotUse, j over p.all[i]) is stored 0 atomically", "Metrics.Clear does not loop over all metric types (from 0 up to doNotUse) and all their cells", store.Pos())
		// the life-expectancy histogram is replaced by a fresh one, under its mutex
		lc := newLockCtx(P, "ristretto")
		okLife := false
		for _, st := range fieldStoresIn(fn, "Metrics", "life") {
			if strings.HasPrefix(lc.tb(fn).T(st.Val).String(), "call[z.NewHistogramData](") && lc.At(st).HasClass("Metrics.mu", "W") {
				okLife = true
			}
		}
		L.Check(okLife, ruleID, "Metrics.Clear#life", "p.life replaced by a fresh histogram under p.mu on every Clear", "Metrics.Clear does not replace the life-expectancy histogram by a fresh one under p.mu", fn.Pos())
	})
	// the counters Clear zeroes are the ones the policy writes to: CollectMetrics wires both the policy and its
	// cost accounting to the same *Metrics, and collectMetrics publishes that object as c.Metrics
	c.Group(ruleID, "CollectMetrics", func() {
		fn := P.Fn("ristretto", "defaultPolicy", "CollectMetrics")
		L.Analysed(fname(fn))
		tb := newTB(fn)
		okP, okE := false, false
		for _, st := range fieldStoresIn(fn, "defaultPolicy", "metrics") {
			if tb.T(st.Val).String() == "p[1]" && tb.pointee(st.Addr).String() == "fld[metrics](p[0])" {
				okP = true
			}
		}
		for _, st := range fieldStoresIn(fn, "sampledLFU", "metrics") {
			if tb.T(st.Val).String() == "p[1]" && tb.pointee(st.Addr).String() == "fld[metrics](fld[evict](p[0]))" {
				okE = true
			}
		}
		bad1, _ := mustPass(entryPos(fn), func(in ssa.Instruction) bool {
			st, ok := in.(*ssa.Store)
			return ok && tb.pointee(st.Addr).String() == "fld[metrics](fld[evict](p[0]))"
		}, nil)
		L.Check(okP && okE && bad1 == nil, ruleID, "CollectMetrics", "p.metrics and p.evict.metrics both set to the given *Metrics on every path", fmt.Sprintf("CollectMetrics does not wire both the policy (%v) and its cost accounting (%v) to the given *Metrics: evictions / cost changes would not be counted", okP, okE), fn.Pos())
		cm := P.Fn("ristretto", "Cache", "collectMetrics")
		tc := newTB(cm)
		okC := false
		for _, ci := range callsTo(cm, "defaultPolicy.CollectMetrics") {
			t := tc.T(ci.(*ssa.Call))
			if Match("call[defaultPolicy.CollectMetrics](fld[cachePolicy](p[0]),fld[Metrics](p[0]))", t, nil) || Match("call[defaultPolicy.CollectMetrics](fld[cachePolicy](p[0]),call[newMetrics])", t, nil) {
				okC = true
			}
		}
		okM := false
		for _, st := range fieldStoresIn(cm, "Cache", "Metrics") {
			if strings.HasPrefix(tc.T(st.Val).String(), "call[newMetrics]") {
				okM = true
			}
		}
		L.Check(okC && okM, ruleID, "Cache.collectMetrics", "c.Metrics = newMetrics(); cachePolicy.CollectMetrics(c.Metrics)", "collectMetrics does not publish one fresh *Metrics to both the cache and the policy", cm.Pos())
	})
}
