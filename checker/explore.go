package main

import (
	"go/token"
	"go/types"

	"golang.org/x/tools/go/ssa"
)

// Shared analysis A5 (engine): path-sensitive enumeration of the control-flow paths of
// one function for typestate rules. It is a property-simulation style dataflow over a
// finite abstract domain, not an execution: the only values tracked are
//   * the truth of a branch condition already taken on the path (same SSA value),
//   * small integer constants stored into / loaded from whitelisted struct fields
//     (e.g. Item.flag) and select dispatch indices, as "known k" or "not in {k..}".
// Branches contradicting what is known are pruned; everything else forks.
// Each block may be visited at most twice per path (loops: zero or one more iteration).

type Step struct {
	In    ssa.Instruction
	Taken int // for If: 0 = true edge, 1 = false edge; -1 otherwise
}

type XPath struct {
	Steps  []Step
	Blocks []*ssa.BasicBlock
	End    ssa.Instruction // Return, or the stopAt instruction, or nil (panic/dead end)
	abs    map[ssa.Value]*absVal
	cond   map[ssa.Value]bool
}

type absVal struct {
	known bool
	k     string
	excl  map[string]bool
}

func (a *absVal) clone() *absVal {
	n := &absVal{known: a.known, k: a.k, excl: map[string]bool{}}
	for k := range a.excl {
		n.excl[k] = true
	}
	return n
}

type ExploreOpts struct {
	Start      Pos
	StopAt     func(ssa.Instruction) bool // path ends here (after the first step)
	TrackField func(typ, field string) bool
	MaxPaths   int
}

type xstate struct {
	cond  map[ssa.Value]bool
	abs   map[ssa.Value]*absVal
	cell  map[string]*absVal // pointee-term string -> abstract const
	visit map[*ssa.BasicBlock]int
	// loads of tracked cells: which cell/version a loaded SSA value mirrors, so that a
	// branch on the loaded value also refines the cell (until the next store to it)
	cellVer  map[string]int
	loadCell map[ssa.Value]string
	loadVer  map[ssa.Value]int
}

func (s *xstate) clone() *xstate {
	n := &xstate{cond: map[ssa.Value]bool{}, abs: map[ssa.Value]*absVal{}, cell: map[string]*absVal{}, visit: map[*ssa.BasicBlock]int{},
		cellVer: map[string]int{}, loadCell: map[ssa.Value]string{}, loadVer: map[ssa.Value]int{}}
	for k, v := range s.cellVer {
		n.cellVer[k] = v
	}
	for k, v := range s.loadCell {
		n.loadCell[k] = v
	}
	for k, v := range s.loadVer {
		n.loadVer[k] = v
	}
	for k, v := range s.cond {
		n.cond[k] = v
	}
	for k, v := range s.abs {
		n.abs[k] = v.clone()
	}
	for k, v := range s.cell {
		n.cell[k] = v.clone()
	}
	for k, v := range s.visit {
		n.visit[k] = v
	}
	return n
}

type explorer struct {
	fn   *ssa.Function
	tb   *TB
	opts ExploreOpts
	out  []*XPath
	over bool
}

// explore enumerates paths. ok=false if MaxPaths was exceeded.
func explore(fn *ssa.Function, tb *TB, opts ExploreOpts) ([]*XPath, bool) {
	if opts.MaxPaths == 0 {
		opts.MaxPaths = 4000
	}
	e := &explorer{fn: fn, tb: tb, opts: opts}
	st := &xstate{cond: map[ssa.Value]bool{}, abs: map[ssa.Value]*absVal{}, cell: map[string]*absVal{}, visit: map[*ssa.BasicBlock]int{},
		cellVer: map[string]int{}, loadCell: map[ssa.Value]string{}, loadVer: map[ssa.Value]int{}}
	e.walk(opts.Start, st, nil, nil, true)
	return e.out, !e.over
}

func constOf(v ssa.Value) (string, bool) {
	if c, ok := v.(*ssa.Const); ok && c.Value != nil {
		return constSym(c), true
	}
	return "", false
}

func (e *explorer) walk(p Pos, st *xstate, steps []Step, blocks []*ssa.BasicBlock, first bool) {
	if e.over {
		return
	}
	b := p.B
	if p.I == 0 {
		st.visit[b]++
		if st.visit[b] > 2 {
			return
		}
		if st.visit[b] == 2 {
			// re-entering: values defined in this block are new dynamic values
			for _, in := range b.Instrs {
				if v, ok := in.(ssa.Value); ok {
					delete(st.cond, v)
					delete(st.abs, v)
					delete(st.loadCell, v)
				}
			}
		}
	}
	blocks = append(append([]*ssa.BasicBlock{}, blocks...), b)
	steps = append([]Step{}, steps...)
	for i := p.I; i < len(b.Instrs); i++ {
		in := b.Instrs[i]
		if !(first && i == p.I) && e.opts.StopAt != nil && e.opts.StopAt(in) {
			e.emit(steps, blocks, in, st)
			return
		}
		switch x := in.(type) {
		case *ssa.Return:
			steps = append(steps, Step{in, -1})
			e.emit(steps, blocks, in, st)
			return
		case *ssa.Panic:
			return
		case *ssa.Store:
			if fa, ok := x.Addr.(*ssa.FieldAddr); ok && e.opts.TrackField != nil && e.opts.TrackField(recvName(fa.X.Type()), fieldName(fa.X.Type(), fa.Field)) {
				cell := e.tb.pointee(fa).String()
				st.cellVer[cell]++
				if k, ok := constOf(x.Val); ok {
					st.cell[cell] = &absVal{known: true, k: k, excl: map[string]bool{}}
				} else {
					delete(st.cell, cell)
				}
			}
			steps = append(steps, Step{in, -1})
		case *ssa.UnOp:
			if x.Op == token.MUL {
				if fa, ok := x.X.(*ssa.FieldAddr); ok && e.opts.TrackField != nil && e.opts.TrackField(recvName(fa.X.Type()), fieldName(fa.X.Type(), fa.Field)) {
					cell := e.tb.pointee(fa).String()
					if cv, ok := st.cell[cell]; ok {
						st.abs[x] = cv.clone()
					}
					st.loadCell[x] = cell
					st.loadVer[x] = st.cellVer[cell]
				}
			}
			steps = append(steps, Step{in, -1})
		case *ssa.If:
			tEdge, fEdge := true, true
			// decide feasibility
			if v, ok := st.cond[x.Cond]; ok {
				tEdge, fEdge = v, !v
			} else if bo, ok := x.Cond.(*ssa.BinOp); ok && (bo.Op == token.EQL || bo.Op == token.NEQ) {
				var sub ssa.Value
				var k string
				if kk, ok := constOf(bo.Y); ok {
					sub, k = bo.X, kk
				} else if kk, ok := constOf(bo.X); ok {
					sub, k = bo.Y, kk
				}
				if sub != nil && isSmallIntLike(sub.Type()) {
					if av, ok := st.abs[sub]; ok {
						eqPossible := !av.excl[k] && (!av.known || av.k == k)
						nePossible := !av.known || av.k != k
						if bo.Op == token.EQL {
							tEdge, fEdge = eqPossible, nePossible
						} else {
							tEdge, fEdge = nePossible, eqPossible
						}
					}
				}
			}
			for edge, feasible := range []bool{tEdge, fEdge} {
				if !feasible {
					continue
				}
				ns := st.clone()
				ns.cond[x.Cond] = edge == 0
				// refine abstract value of the compared operand
				if bo, ok := x.Cond.(*ssa.BinOp); ok && (bo.Op == token.EQL || bo.Op == token.NEQ) {
					var sub ssa.Value
					var k string
					if kk, ok := constOf(bo.Y); ok {
						sub, k = bo.X, kk
					} else if kk, ok := constOf(bo.X); ok {
						sub, k = bo.Y, kk
					}
					if sub != nil && isSmallIntLike(sub.Type()) {
						isEq := (bo.Op == token.EQL) == (edge == 0)
						av, ok := ns.abs[sub]
						if !ok {
							av = &absVal{excl: map[string]bool{}}
							ns.abs[sub] = av
						}
						if isEq {
							av.known, av.k = true, k
						} else {
							av.excl[k] = true
						}
						if cell, ok := ns.loadCell[sub]; ok && ns.loadVer[sub] == ns.cellVer[cell] {
							ns.cell[cell] = av.clone()
						}
					}
				}
				ns2steps := append(append([]Step{}, steps...), Step{in, edge})
				e.walk(Pos{b.Succs[edge], 0}, ns, ns2steps, blocks, false)
			}
			return
		case *ssa.Jump:
			e.walk(Pos{b.Succs[0], 0}, st, steps, blocks, false)
			return
		default:
			steps = append(steps, Step{in, -1})
		}
	}
	// block without terminator handled above (If/Jump/Return/Panic); anything else: dead end
}

func isSmallIntLike(t types.Type) bool {
	b, ok := t.Underlying().(*types.Basic)
	return ok && b.Info()&types.IsInteger != 0
}

func (e *explorer) emit(steps []Step, blocks []*ssa.BasicBlock, end ssa.Instruction, st *xstate) {
	if len(e.out) >= e.opts.MaxPaths {
		e.over = true
		return
	}
	e.out = append(e.out, &XPath{Steps: steps, Blocks: blocks, End: end, abs: st.abs, cond: st.cond})
}

// Taken reports which edge the path took at the If terminating block containing cond
// expressing pat: +1 pattern held, -1 pattern did not hold, 0 not tested on this path.
func (p *XPath) CondHeld(tb *TB, pat string, env Env) int {
	res := 0
	for _, s := range p.Steps {
		iff, ok := s.In.(*ssa.If)
		if !ok {
			continue
		}
		var e Env
		if env != nil {
			e = env.clone()
		}
		pol := condPolarity(tb.T(iff.Cond), pat, e)
		if pol == 0 {
			continue
		}
		held := (pol > 0) == (s.Taken == 0)
		if held {
			res = 1
		} else {
			res = -1
		}
	}
	return res
}

// Count counts steps satisfying pred.
func (p *XPath) Count(pred func(ssa.Instruction) bool) int {
	n := 0
	for _, s := range p.Steps {
		if pred(s.In) {
			n++
		}
	}
	return n
}

func (p *XPath) Has(pred func(ssa.Instruction) bool) bool { return p.Count(pred) > 0 }

// KnownConst returns the constant the path established for value v, if any.
func (p *XPath) KnownConst(v ssa.Value) (string, bool) {
	if a, ok := p.abs[v]; ok && a.known {
		return a.k, true
	}
	return "", false
}

func (p *XPath) Excluded(v ssa.Value, k string) bool {
	if a, ok := p.abs[v]; ok {
		if a.known {
			return a.k != k
		}
		return a.excl[k]
	}
	return false
}

func (p *XPath) BlockPath() string { return pathString(p.Blocks) }

// SelectTaken: did the path take state k of select sel (dispatch `index == k` true).
func (p *XPath) SelectTaken(sel *ssa.Select, k int) bool {
	for _, r := range *sel.Referrers() {
		if ex, ok := r.(*ssa.Extract); ok && ex.Index == 0 {
			if c, ok := p.KnownConst(ex); ok {
				return c == itoa(k)
			}
		}
	}
	return false
}

// EvalBool evaluates a boolean SSA value in the abstract state at the end of the path:
// constants, branch conditions already decided on the path, and ==/!= of a tracked value
// with a constant. ok=false when the path does not determine it.
func (p *XPath) EvalBool(v ssa.Value) (val bool, ok bool) {
	if c, isC := v.(*ssa.Const); isC {
		switch constSym(c) {
		case "true":
			return true, true
		case "false":
			return false, true
		}
		return false, false
	}
	if b, has := p.cond[v]; has {
		return b, true
	}
	if u, isU := v.(*ssa.UnOp); isU && u.Op == token.NOT {
		if b, ok := p.EvalBool(u.X); ok {
			return !b, true
		}
	}
	if bo, isB := v.(*ssa.BinOp); isB && (bo.Op == token.EQL || bo.Op == token.NEQ) {
		var sub ssa.Value
		var k string
		if kk, ok := constOf(bo.Y); ok {
			sub, k = bo.X, kk
		} else if kk, ok := constOf(bo.X); ok {
			sub, k = bo.Y, kk
		}
		if sub != nil {
			if a, has := p.abs[sub]; has {
				if a.known {
					return (a.k == k) == (bo.Op == token.EQL), true
				}
				if a.excl[k] {
					return bo.Op == token.NEQ, true
				}
			}
		}
	}
	if ph, isPhi := v.(*ssa.Phi); isPhi {
		// value of the phi on this path: the edge from the predecessor actually taken
		for i := len(p.Blocks) - 1; i > 0; i-- {
			if p.Blocks[i] == ph.Block() {
				for j, pred := range ph.Block().Preds {
					if pred == p.Blocks[i-1] {
						return p.EvalBool(ph.Edges[j])
					}
				}
			}
		}
	}
	return false, false
}

// pathConst resolves v to a constant along the path: constants, and phis through the
// predecessor the path actually took.
func pathConst(p *XPath, v ssa.Value) (string, bool) {
	for depth := 0; depth < 16; depth++ {
		if k, ok := constOf(v); ok {
			return k, true
		}
		if k, ok := p.KnownConst(v); ok {
			return k, true
		}
		ph, isPhi := v.(*ssa.Phi)
		if !isPhi {
			return "", false
		}
		found := false
		for i := len(p.Blocks) - 1; i > 0 && !found; i-- {
			if p.Blocks[i] == ph.Block() {
				for j, pred := range ph.Block().Preds {
					if pred == p.Blocks[i-1] {
						v = ph.Edges[j]
						found = true
						break
					}
				}
			}
		}
		if !found {
			return "", false
		}
	}
	return "", false
}
