package main

import (
	"fmt"
	"go/ast"
	"go/token"
	"regexp"
	"strings"

	"golang.org/x/tools/go/ssa"
)

func init() {
	register(&PropCheck{
		ID: "C19",
		Explanation: "Decides the sibling agreement behind 'bloom filter: no false negatives, faithful serialization': " +
			"(R-C19-ADDHAS) Add and Has derive structurally equal bit positions (hash>>shift + i·(hash<<shift>>shift)) & size for i in [0,setLocs); Add sets every one of them, Has returns false on the first clear bit and true after the loop; " +
			"(R-C19-SETISSET) Set and IsSet compute the same byte address (&bitset[idx>>6] + (idx%64)>>3) and the same bit (mask[idx%8] vs >>(idx%8)&1); the mask table literal is 1<<k for k=0..7; " +
			"(R-C19-ADDIFNOT) AddIfNotHas returns false without Add when Has(hash), otherwise Add(hash) then true, same hash; " +
			"(R-C19-CLEAR) Clear zeroes every word of the bitset on every path; " +
			"(R-C19-CTOR) getSize floors its argument at 512 before a doubling loop that returns (size, exponent) with size = 2^exponent ≥ n; NewBloomFilter stores mask size−1, shift 64−exponent, setLocs, and allocates size>>6 words from that same size; " +
			"(R-C19-JSON) JSONMarshal exports len(bitset)<<3 bytes, byte i read at &bitset[0]+i, and setLocs; newWithBoolset writes byte i at &bitset[0]+i of NewBloomFilter(float64(len<<3), float64(locs)); the fields imported are the fields exported. " +
			"NOT decided: that getSize(len<<3) reproduces the original size for every parameterisation (true for the powers of two it produces; arithmetic), float arithmetic in calcSizeByWrongPositives beyond the direction of the rounding of the location count (up).",
		Run: runC19,
	})
}

var phiName = regexp.MustCompile(`(phi|phiref)\[t\d+\]`)

func normPhi(s string) string { return phiName.ReplaceAllString(s, "$1") }

func runC19(c *Ctx) {
	L, P := c.L, c.P
	L.Rule("R-C19-ADDHAS", "Add and Has compute equal bit positions over i in [0,setLocs); Add sets all, Has fails on the first clear bit", 3)
	L.Rule("R-C19-SETISSET", "Set and IsSet address the same byte and bit; mask table is 1<<k", 3)
	L.Rule("R-C19-ADDIFNOT", "AddIfNotHas: Has => false without Add; else Add then true", 1)
	L.Rule("R-C19-CLEAR", "Clear zeroes every word on every path", 1)
	L.Rule("R-C19-CTOR", "getSize: floor 512 then doubling loop; constructor fields and allocation from the same size; hash-location count rounded up", 3)
	L.Rule("R-C19-JSON", "marshal/unmarshal byte addressing, lengths and setLocs agree", 3)

	posExpr := func(fn *ssa.Function, tb *TB, callee string) (string, *ssa.Call, *ssa.Phi) {
		cs := callsTo(fn, callee)
		if len(cs) != 1 {
			return "", nil, nil
		}
		call := cs[0].(*ssa.Call)
		arg := call.Call.Args[1]
		var loop *ssa.Phi
		var find func(v ssa.Value, d int)
		find = func(v ssa.Value, d int) {
			if d > 8 || loop != nil {
				return
			}
			if ph, ok := v.(*ssa.Phi); ok {
				loop = ph
				return
			}
			if bo, ok := v.(*ssa.BinOp); ok {
				find(bo.X, d+1)
				find(bo.Y, d+1)
			}
		}
		find(arg, 0)
		return normPhi(tb.T(arg).String()), call, loop
	}

	c.Group("R-C19-ADDHAS", "Bloom.Add#always", func() {
		// Add sets its bits for EVERY hash on every call: the only way out of Add is the exhaustion of the
		// location loop (no "already added" shortcut keyed on the hash value - 0 is a valid hash)
		fn := P.Fn("z", "Bloom", "Add")
		tb := newTB(fn)
		var exit map[Edge]bool
		for _, b := range fn.Blocks {
			if iff := lastIf(b); iff != nil && condPolarity(tb.T(iff.Cond), "lt(_,fld[setLocs](p[0]))", nil) != 0 {
				exit = edgesWhere(fn, tb, tb.T(iff.Cond).String(), nil, false)
			}
		}
		if len(exit) == 0 {
			L.Fail("R-C19-ADDHAS", "Bloom.Add#always", "Add has no loop over the setLocs locations", fn.Pos())
			return
		}
		bad, path := reach(entryPos(fn), isReturn, nil, cutSet(exit))
		L.Check(bad == nil, "R-C19-ADDHAS", "Bloom.Add#always", "Add returns only after the loop over all setLocs locations", "Add can return without setting the hash's bits (block path "+pathString(path)+"): Has is false right after Add for such a hash", instrPos(bad))
	})
	c.Group("R-C19-ADDHAS", "Bloom.Add/Has", func() {
		add := P.Fn("z", "Bloom", "Add")
		has := P.Fn("z", "Bloom", "Has")
		L.Analysed(fname(add), fname(has))
		ta, th := newTB(add), newTB(has)
		ea, ca, la := posExpr(add, ta, "z.Bloom.Set")
		eh, ch, lh := posExpr(has, th, "z.Bloom.IsSet")
		if ca == nil || ch == nil || la == nil || lh == nil {
			L.Fail("R-C19-ADDHAS", "Bloom.Add/Has#positions", "Add/Has do not call Set/IsSet exactly once inside a loop", add.Pos())
			return
		}
		want := "and(add(mul(phi(add(c[1],phiref),c[0]),shr(shl(p[1],fld[shift](p[0])),fld[shift](p[0]))),shr(p[1],fld[shift](p[0]))),fld[size](p[0]))"
		_ = want
		L.Check(ea == eh, "R-C19-ADDHAS", "Bloom.Add/Has#positions", "both use "+ea, "Add sets bit "+ea+" but Has tests bit "+eh+": an added hash can be reported absent", ch.Pos())
		// shape sanity of the shared expression: (h + i*l) & size with h = hash>>shift, l = hash<<shift>>shift
		shapeOK := Match("and(add(mul(_,shr(shl(p[1],fld[shift](p[0])),fld[shift](p[0]))),shr(p[1],fld[shift](p[0]))),fld[size](p[0]))", ta.T(ca.Call.Args[1]), nil) ||
			Match("and(fld[size](p[0]),add(shr(p[1],fld[shift](p[0])),mul(_,shr(shl(p[1],fld[shift](p[0])),fld[shift](p[0])))))", ta.T(ca.Call.Args[1]), nil) ||
			Match("and(add(shr(p[1],fld[shift](p[0])),mul(_,shr(shl(p[1],fld[shift](p[0])),fld[shift](p[0])))),fld[size](p[0]))", ta.T(ca.Call.Args[1]), nil)
		if !shapeOK {
			L.Advisory("Bloom.Add position expression is " + ea + " (not the documented (h + i*l) & size shape); Add/Has agreement is what the rule decides")
		}
		// loops: i from 0 while i < setLocs, step 1
		loopOK := func(fn *ssa.Function, tb *TB, ph *ssa.Phi) bool {
			init, step := false, false
			for _, e := range ph.Edges {
				if isConst(e, "0") {
					init = true
				}
				if bo, ok := e.(*ssa.BinOp); ok && bo.Op == token.ADD && bo.X == ssa.Value(ph) && isConst(bo.Y, "1") {
					step = true
				}
			}
			iff := lastIf(ph.Block())
			return init && step && iff != nil && condPolarity(tb.T(iff.Cond), "lt("+tb.T(ph).String()+",fld[setLocs](p[0]))", nil) > 0
		}
		L.Check(loopOK(add, ta, la) && loopOK(has, th, lh), "R-C19-ADDHAS", "Bloom.Add/Has#range", "both loops run i = 0 … setLocs−1", "Add and Has do not both iterate i over [0, setLocs)", ca.Pos())
		// Add: Set on every iteration; Has: false exactly on a clear bit, true after the loop
		body := ca.Block()
		skip, _ := reach(Pos{lastIf(la.Block()).Block().Succs[0], 0}, isInstr(lastIf(la.Block())), isInstr(ca), nil)
		okAdd := skip == nil && body != nil
		okHas := true
		clear := edgesWhere(has, th, th.T(ch).String(), nil, false)
		for _, r := range returnsOf(has) {
			v := th.T(returnValues(r)[0]).String()
			switch v {
			case "c[false]":
				if b, _ := reach(entryPos(has), isInstr(r), nil, cutSet(clear)); b != nil {
					okHas = false
				}
			case "c[true]":
				// reachable only through the loop exit (i >= setLocs) — i.e. not directly from a set/clear edge
				exit := edgesWhere(has, th, "lt("+th.T(lh).String()+",fld[setLocs](p[0]))", nil, false)
				if b, _ := reach(entryPos(has), isInstr(r), nil, cutSet(exit)); b != nil {
					okHas = false
				}
			default:
				okHas = false
			}
		}
		// a clear bit must lead to return false (not continue)
		for e := range clear {
			tgt := e.From.Succs[e.Succ]
			if b, _ := reach(Pos{tgt, 0}, func(in ssa.Instruction) bool {
				r, ok := in.(*ssa.Return)
				return ok && !isConst(returnValues(r)[0], "false")
			}, nil, nil); b != nil {
				okHas = false
			}
		}
		L.Check(okAdd && okHas, "R-C19-ADDHAS", "Bloom.Add/Has#decision", "Add sets every position; Has is false iff some position is clear", fmt.Sprintf("Add sets every position:%v; Has false exactly on a clear bit and true after all positions:%v", okAdd, okHas), ch.Pos())
	})

	c.Group("R-C19-SETISSET", "Bloom.Set/IsSet", func() {
		set := P.Fn("z", "Bloom", "Set")
		isset := P.Fn("z", "Bloom", "IsSet")
		L.Analysed(fname(set), fname(isset))
		ts, ti := newTB(set), newTB(isset)
		var st *ssa.Store
		eachInstr(set, func(in ssa.Instruction) {
			if s, ok := in.(*ssa.Store); ok {
				st = s
			}
		})
		if st == nil {
			L.Fail("R-C19-SETISSET", "Bloom.Set/IsSet#byte", "Set stores nothing", set.Pos())
			return
		}
		setAddr := ts.T(st.Addr).String()
		wantAddr := "conv[*uint8](conv[unsafe.Pointer](add(conv[uintptr](conv[unsafe.Pointer](addr(idx(fld[bitset](p[0]),shr(p[1],c[6]))))),conv[uintptr](shr(rem(p[1],c[64]),c[3])))))"
		// IsSet: the load feeding the result
		var isAddr string
		eachInstr(isset, func(in ssa.Instruction) {
			if u, ok := in.(*ssa.UnOp); ok && u.Op == token.MUL {
				if _, isConv := u.X.(*ssa.Convert); isConv {
					isAddr = ti.T(u.X).String()
				}
			}
		})
		L.Check(setAddr == isAddr && setAddr == wantAddr, "R-C19-SETISSET", "Bloom.Set/IsSet#byte", "both address byte &bitset[idx>>6] + (idx%64)>>3",
			"Set writes byte "+setAddr+" but IsSet reads byte "+isAddr+" (want "+wantAddr+")", st.Pos())
		byteT := "load(" + setAddr + ")"
		setVal := ts.T(st.Val).String()
		okSet := setVal == "or(idx(global[mask],rem(p[1],c[8])),"+byteT+")" || setVal == "or("+byteT+",idx(global[mask],rem(p[1],c[8])))"
		okIs := false
		for _, r := range returnsOf(isset) {
			v := ti.T(returnValues(r)[0]).String()
			if v == "eq(and(c[1],shr("+byteT+",rem(p[1],c[8]))),c[1])" || v == "eq(c[1],and(c[1],shr("+byteT+",rem(p[1],c[8]))))" || v == "ne(and(c[1],shr("+byteT+",rem(p[1],c[8]))),c[0])" {
				okIs = true
			}
		}
		L.Check(okSet && okIs, "R-C19-SETISSET", "Bloom.Set/IsSet#bit", "Set ORs mask[idx%8]; IsSet tests bit idx%8 of the same byte",
			fmt.Sprintf("Set/IsSet disagree on the bit (Set value %s; IsSet recognised:%v)", setVal, okIs), st.Pos())
		// mask table literal
		okMask, got := false, ""
		for _, f := range P.PPkgs["z"].Syntax {
			ast.Inspect(f, func(n ast.Node) bool {
				vs, ok := n.(*ast.ValueSpec)
				if !ok || len(vs.Names) != 1 || vs.Names[0].Name != "mask" || len(vs.Values) != 1 {
					return true
				}
				cl, ok := vs.Values[0].(*ast.CompositeLit)
				if !ok {
					return true
				}
				var vals []string
				for _, e := range cl.Elts {
					if tv, ok := P.PPkgs["z"].TypesInfo.Types[e]; ok && tv.Value != nil {
						vals = append(vals, tv.Value.ExactString())
					}
				}
				got = strings.Join(vals, ",")
				okMask = got == "1,2,4,8,16,32,64,128"
				return false
			})
		}
		L.Check(okMask, "R-C19-SETISSET", "mask table", "mask[k] = 1<<k for k = 0..7", "mask table is {"+got+"}, want {1,2,4,8,16,32,64,128}: Set and IsSet would address different bits", 0)
	})

	c.Group("R-C19-ADDIFNOT", "Bloom.AddIfNotHas", func() {
		fn := P.Fn("z", "Bloom", "AddIfNotHas")
		L.Analysed(fname(fn))
		tb := newTB(fn)
		paths, _ := explore(fn, tb, ExploreOpts{Start: entryPos(fn)})
		ok, n := true, 0
		for _, p := range paths {
			ret, isRet := p.End.(*ssa.Return)
			if !isRet {
				continue
			}
			n++
			nHas := countCalls(p, tb, "call[z.Bloom.Has](load(p[0]),p[1])", nil)
			has := p.CondHeld(tb, "call[z.Bloom.Has](load(p[0]),p[1])", nil)
			nAdd := countCalls(p, tb, "call[z.Bloom.Add](p[0],p[1])", nil)
			rv := tb.T(returnValues(ret)[0]).String()
			if nHas != 1 || has == 0 || (has == 1 && (nAdd != 0 || rv != "c[false]")) || (has == -1 && (nAdd != 1 || rv != "c[true]")) {
				ok = false
				L.Fail("R-C19-ADDIFNOT", "Bloom.AddIfNotHas", fmt.Sprintf("path %s: Has calls=%d present=%d Add calls=%d returns %s", p.BlockPath(), nHas, has, nAdd, rv), fn.Pos())
			}
		}
		if ok {
			L.Check(n == 2, "R-C19-ADDIFNOT", "Bloom.AddIfNotHas", "Has(hash) ⇒ false without Add; otherwise Add(hash), true", fmt.Sprintf("%d paths", n), fn.Pos())
		}
	})

	bloomClearRule(c, "R-C19-CLEAR")

	c.Group("R-C19-CTOR", "calcSizeByWrongPositives#locs", func() {
		fn := P.Fn("z", "", "calcSizeByWrongPositives")
		L.Analysed(fname(fn))
		tb := newTB(fn)
		ok := true
		n := 0
		for _, r := range returnsOf(fn) {
			rv := returnValues(r)
			if len(rv) != 2 {
				continue
			}
			n++
			t := tb.T(rv[1])
			if !Match("conv[uint64](call[math.Ceil](_))", t, nil) {
				ok = false
				L.Fail("R-C19-CTOR", "calcSizeByWrongPositives#locs", "the number of hash locations is "+t.String()+", not a positive quantity rounded UP (math.Ceil): rounding to nearest or down yields 0 locations for high false-positive rates, and with 0 locations Has is vacuously true (AddIfNotHas never adds, Clear does not empty)", r.Pos())
			}
		}
		if ok {
			L.Check(n > 0, "R-C19-CTOR", "calcSizeByWrongPositives#locs", "hash-location count is rounded up (≥ 1 for every positive ratio)", "no two-result return found", fn.Pos())
		}
	})

	c.Group("R-C19-CTOR", "getSize", func() {
		fn := P.Fn("z", "", "getSize")
		L.Analysed(fname(fn))
		tb := newTB(fn)
		rs := returnsOf(fn)
		if len(rs) != 1 {
			L.Undecided("R-C19-CTOR", "getSize", "expected one return", fn.Pos())
			return
		}
		rv := returnValues(rs[0])
		sz, okS := rv[0].(*ssa.Phi)
		ex, okE := rv[1].(*ssa.Phi)
		if !okS || !okE {
			L.Fail("R-C19-CTOR", "getSize", "getSize returns ("+tb.T(rv[0]).String()+", "+tb.T(rv[1]).String()+"): size/exponent are adjusted after the doubling loop, so size ≠ 2^exponent for small filters", rs[0].Pos())
			return
		}
		okSize := Match("phi(c[1],shl(phiref,c[1]))", tb.T(sz), nil) || strings.HasPrefix(normPhi(tb.T(sz).String()), "phi(c[1],shl(phi")
		szInit, szStep, exInit, exStep := false, false, false, false
		for _, e := range sz.Edges {
			if isConst(e, "1") {
				szInit = true
			}
			if bo, ok := e.(*ssa.BinOp); ok && bo.Op == token.SHL && bo.X == ssa.Value(sz) && isConst(bo.Y, "1") {
				szStep = true
			}
		}
		for _, e := range ex.Edges {
			if isConst(e, "0") {
				exInit = true
			}
			if bo, ok := e.(*ssa.BinOp); ok && bo.Op == token.ADD && bo.X == ssa.Value(ex) && isConst(bo.Y, "1") {
				exStep = true
			}
		}
		_ = okSize
		// loop test size < n where n = φ(ui64, 512) chosen by ui64 < 512, evaluated before the loop
		iff := lastIf(sz.Block())
		env := Env{}
		okTest := iff != nil && condPolarity(tb.T(iff.Cond), "lt("+tb.T(sz).String()+",?n)", env) > 0
		okFloor := false
		if okTest {
			if nph, ok := env["n"].V.(*ssa.Phi); ok {
				has512, hasArg := false, false
				for _, e := range nph.Edges {
					if isConst(e, "512") {
						has512 = true
					}
					if e == ssa.Value(fn.Params[0]) {
						hasArg = true
					}
				}
				okFloor = has512 && hasArg && nph.Block().Dominates(sz.Block()) && nph.Block() != sz.Block()
			} else if nt := env["n"].String(); nt == "call[max](p[0],c[512])" || nt == "call[max](c[512],p[0])" {
				// builtin max(ui64, 512), computed before the loop
				if mv, ok := env["n"].V.(ssa.Instruction); ok {
					okFloor = mv.Block().Dominates(sz.Block()) && mv.Block() != sz.Block()
				}
			}
		}
		same := sz.Block() == ex.Block()
		L.Check(szInit && szStep && exInit && exStep && okTest && okFloor && same, "R-C19-CTOR", "getSize", "n floored at 512 first; then size doubles and exponent counts in lock-step until size ≥ n; returns that pair",
			fmt.Sprintf("getSize is not `floor 512; size=1,exp=0; while size<n {size<<=1; exp++}` (size φ ok:%v exp φ ok:%v test ok:%v floor-before-loop:%v)", szInit && szStep, exInit && exStep, okTest, okFloor), rs[0].Pos())
	})
	c.Group("R-C19-CTOR", "NewBloomFilter#dispatch", func() {
		// the second parameter is a false-positive rate exactly when it is < 1; from 1 upwards it is a
		// number of hash locations (JSONUnmarshal re-imports a one-location filter as (size, 1.0): read as
		// a rate that yields 0 locations, and with 0 locations Has is vacuously true)
		fn := P.Fn("z", "", "NewBloomFilter")
		tb := newTB(fn)
		second := "idx(p[0],c[1])"
		rate := edgesWhere(fn, tb, "lt("+second+",c[1])", nil, true)
		count := edgesWhere(fn, tb, "lt("+second+",c[1])", nil, false)
		var calc, conv []ssa.Instruction
		eachInstr(fn, func(in ssa.Instruction) {
			if ci, ok := in.(ssa.CallInstruction); ok && calleeName(ci.Common()) == "z.calcSizeByWrongPositives" {
				calc = append(calc, in)
			}
			if cv, ok := in.(*ssa.Convert); ok && tb.T(cv).String() == "conv[uint64]("+second+")" {
				conv = append(conv, in)
			}
		})
		if len(calc) == 0 || len(conv) == 0 || len(rate) == 0 {
			L.Fail("R-C19-CTOR", "NewBloomFilter#dispatch", fmt.Sprintf("the rate/locations dispatch on `params[1] < 1` is not there (rate arm calls: %d, location arm conversions: %d, comparisons: %d)", len(calc), len(conv), len(rate)), fn.Pos())
			return
		}
		// which parameter goes where: entries (the argument of getSize) come from params[0], the number of
		// locations (the setLocs field) from params[1]; the rate arm passes (params[0], params[1]) in that order
		first := "idx(p[0],c[0])"
		calcT := "call[z.calcSizeByWrongPositives](" + first + "," + second + ")"
		leafTerms := func(v ssa.Value) []string {
			var out []string
			if ph, ok := v.(*ssa.Phi); ok {
				for _, e := range phiLeaves(ph) {
					out = append(out, tb.T(e).String())
				}
			} else {
				out = append(out, tb.T(v).String())
			}
			return out
		}
		within := func(got []string, allowed ...string) string {
			for _, g := range got {
				ok := g == "c[0]"
				for _, a := range allowed {
					ok = ok || g == a
				}
				if !ok {
					return g
				}
			}
			return ""
		}
		if gs := callsTo(fn, "z.getSize"); len(gs) == 1 {
			if w := within(leafTerms(gs[0].Common().Args[0]), "conv[uint64]("+first+")", "ext[0]("+calcT+")"); w != "" {
				L.Fail("R-C19-CTOR", "NewBloomFilter#dispatch", "the filter is sized from "+w+", not from the number of entries params[0] (a filter re-imported by JSONUnmarshal gets another size and answers Has differently)", gs[0].Pos())
				return
			}
		}
		eachInstr(fn, func(in ssa.Instruction) {
			if a, ok := in.(*ssa.Alloc); ok && a.Heap && recvName(a.Type()) == "Bloom" {
				if lf := litFields(a); len(lf["setLocs"]) == 1 {
					if w := within(leafTerms(lf["setLocs"][0].Val), "conv[uint64]("+second+")", "ext[1]("+calcT+")"); w != "" {
						L.Fail("R-C19-CTOR", "NewBloomFilter#dispatch", "the number of hash locations is taken from "+w+", not from params[1]", lf["setLocs"][0].Pos())
					}
				}
			}
		})
		b1, _ := reach(entryPos(fn), isAnyInstr(calc), nil, cutSet(rate))
		b2, _ := reach(entryPos(fn), isAnyInstr(conv), nil, cutSet(count))
		switch {
		case b1 != nil:
			L.Fail("R-C19-CTOR", "NewBloomFilter#dispatch", "the second parameter is taken for a false-positive rate without being < 1: a value of exactly 1 (one hash location) becomes a rate that yields no location at all", instrPos(b1))
		case b2 != nil:
			L.Fail("R-C19-CTOR", "NewBloomFilter#dispatch", "the second parameter is taken for a number of hash locations although it is < 1 (truncates to 0 locations)", instrPos(b2))
		default:
			L.Ok("R-C19-CTOR", "NewBloomFilter#dispatch", "params[1] < 1 ⇒ rate (calcSizeByWrongPositives), otherwise ⇒ number of hash locations", fn.Pos())
		}
	})
	c.Group("R-C19-CTOR", "NewBloomFilter", func() {
		fn := P.Fn("z", "", "NewBloomFilter")
		L.Analysed(fname(fn))
		tb := newTB(fn)
		var lit *ssa.Alloc
		eachInstr(fn, func(in ssa.Instruction) {
			if a, ok := in.(*ssa.Alloc); ok && a.Heap && recvName(a.Type()) == "Bloom" {
				lit = a
			}
		})
		gs := callsTo(fn, "z.getSize")
		if lit == nil || len(gs) != 1 {
			L.Undecided("R-C19-CTOR", "NewBloomFilter", "constructor shape not recognised", fn.Pos())
			return
		}
		g := tb.T(gs[0].(*ssa.Call)).String()
		lf := litFields(lit)
		get := func(f string) string {
			if len(lf[f]) == 1 {
				return tb.T(lf[f][0].Val).String()
			}
			return "<unset>"
		}
		var problems []string
		if get("size") != "sub(ext[0]("+g+"),c[1])" {
			problems = append(problems, "size mask = "+get("size"))
		}
		if get("shift") != "sub(c[64],ext[1]("+g+"))" {
			problems = append(problems, "shift = "+get("shift"))
		}
		if get("sizeExp") != "ext[1]("+g+")" {
			problems = append(problems, "sizeExp = "+get("sizeExp"))
		}
		okAlloc := false
		for _, ci := range callsTo(fn, "z.Bloom.Size") {
			if tb.T(ci.Common().Args[1]).String() == "ext[0]("+g+")" {
				okAlloc = true
			}
		}
		if !okAlloc {
			problems = append(problems, "bitset is not allocated from the same size")
		}
		szf := P.Fn("z", "Bloom", "Size")
		tbs := newTB(szf)
		okWords := false
		for _, st := range fieldStoresIn(szf, "Bloom", "bitset") {
			if Match("make(shr(p[1],c[6]),shr(p[1],c[6]))", tbs.T(st.Val), nil) {
				okWords = true
			}
		}
		if !okWords {
			problems = append(problems, "Size does not allocate sz>>6 words")
		}
		L.Check(len(problems) == 0, "R-C19-CTOR", "NewBloomFilter", "mask = size−1, shift = 64−exponent, bitset = size>>6 words, all from one getSize result", "constructor fields disagree: "+strings.Join(problems, "; "), lit.Pos())
	})

	c.Group("R-C19-JSON", "JSONMarshal", func() {
		fn := P.Fn("z", "Bloom", "JSONMarshal")
		L.Analysed(fname(fn))
		tb := newTB(fn)
		okLen, okLocs, okByte := false, false, false
		eachInstr(fn, func(in ssa.Instruction) {
			st, ok := in.(*ssa.Store)
			if !ok {
				return
			}
			a := tb.pointee(st.Addr).String()
			v := tb.T(st.Val).String()
			switch {
			case strings.HasPrefix(a, "fld[FilterSet]("):
				if ms, isMk := st.Val.(*ssa.MakeSlice); isMk && tb.T(ms.Len).String() == "shl(call[len](fld[bitset](p[0])),c[3])" {
					okLen = true
				}
			case strings.HasPrefix(a, "fld[SetLocs]("):
				okLocs = v == "fld[setLocs](p[0])"
			case strings.HasPrefix(a, "idx(fld[FilterSet]("):
				env := Env{}
				if Match("idx(_,?i)", tb.pointee(st.Addr), env) {
					okByte = Match("load(conv(conv(add(conv(conv(addr(idx(fld[bitset](p[0]),c[0])))),conv(?i)))))", tb.T(st.Val), Env{"i": env["i"]})
				}
			}
		})
		L.Check(okLen && okLocs && okByte, "R-C19-JSON", "JSONMarshal", "exports len(bitset)<<3 bytes, byte i = *(&bitset[0]+i), and setLocs",
			fmt.Sprintf("export is wrong (length len(bitset)<<3:%v setLocs:%v byte i from &bitset[0]+i:%v)", okLen, okLocs, okByte), fn.Pos())
	})
	c.Group("R-C19-JSON", "JSONUnmarshal#accepts", func() {
		// whatever JSONMarshal wrote is accepted: JSONUnmarshal fails only with json.Unmarshal's own error
		// (no extra validation that NewBloomFilter/JSONMarshal do not share, e.g. a cap on SetLocs)
		fn := P.Fn("z", "", "JSONUnmarshal")
		L.Analysed(fname(fn))
		tb := newTB(fn)
		var um *ssa.Call
		for _, ci := range callsTo(fn, "json.Unmarshal") {
			um, _ = ci.(*ssa.Call)
		}
		if um == nil {
			L.Undecided("R-C19-JSON", "JSONUnmarshal#accepts", "no json.Unmarshal call", fn.Pos())
			return
		}
		var bad []string
		var pos token.Pos
		for _, r := range returnsOf(fn) {
			rv := returnValues(r)
			if len(rv) != 2 || isConst(rv[1], "nil") {
				continue
			}
			if tb.T(rv[1]).String() != tb.T(um).String() {
				bad = append(bad, tb.T(rv[1]).String())
				pos = r.Pos()
			}
		}
		L.Check(len(bad) == 0, "R-C19-JSON", "JSONUnmarshal#accepts", "the only error returned is json.Unmarshal's", "JSONUnmarshal rejects input for a reason of its own ("+strings.Join(bad, "; ")+"): a filter JSONMarshal exported (any number of hash locations NewBloomFilter accepts) does not survive the round trip", pos)
	})
	c.Group("R-C19-JSON", "newWithBoolset", func() {
		fn := P.Fn("z", "", "newWithBoolset")
		L.Analysed(fname(fn))
		tb := newTB(fn)
		ctor := callsTo(fn, "z.NewBloomFilter")
		if len(ctor) != 1 {
			L.Fail("R-C19-JSON", "newWithBoolset", "does not build the filter with NewBloomFilter", fn.Pos())
			return
		}
		// variadic args: stores into the [2]float64
		var a0, a1 string
		eachInstr(fn, func(in ssa.Instruction) {
			if st, ok := in.(*ssa.Store); ok {
				if ia, ok := st.Addr.(*ssa.IndexAddr); ok {
					if _, isArr := ia.X.(*ssa.Alloc); isArr {
						if isConst(ia.Index, "0") {
							a0 = tb.T(st.Val).String()
						} else if isConst(ia.Index, "1") {
							a1 = tb.T(st.Val).String()
						}
					}
				}
			}
		})
		okArgs := a0 == "conv[float64](shl(call[len](load(p[0])),c[3]))" && a1 == "conv[float64](p[1])"
		okByte := false
		eachInstr(fn, func(in ssa.Instruction) {
			st, ok := in.(*ssa.Store)
			if !ok {
				return
			}
			env := Env{}
			if Match("conv[*uint8](conv[unsafe.Pointer](add(conv[uintptr](conv[unsafe.Pointer](addr(idx(fld[bitset](_),c[0])))),conv[uintptr](?i))))", tb.T(st.Addr), env) {
				if Match("idx(load(p[0]),?i)", tb.T(st.Val), Env{"i": env["i"]}) {
					okByte = true
				}
			}
		})
		L.Check(okArgs && okByte, "R-C19-JSON", "newWithBoolset", "NewBloomFilter(float64(len<<3), float64(locs)); byte i written at &bitset[0]+i",
			fmt.Sprintf("import is wrong (constructor args (%s, %s); byte i to &bitset[0]+i:%v)", a0, a1, okByte), ctor[0].Pos())
	})
	c.Group("R-C19-JSON", "JSONUnmarshal", func() {
		fn := P.Fn("z", "", "JSONUnmarshal")
		tb := newTB(fn)
		cs := callsTo(fn, "z.newWithBoolset")
		ok := len(cs) == 1
		if ok {
			args := cs[0].Common().Args
			ok = strings.Contains(tb.T(args[1]).String(), "fld[SetLocs]")
			fromFS := strings.Contains(tb.T(args[0]).String(), "FilterSet")
			if a, isA := args[0].(*ssa.Alloc); isA {
				for _, st := range wholeStores(a) {
					if strings.Contains(tb.T(st.Val).String(), "FilterSet") {
						fromFS = true
					}
				}
			}
			ok = ok && fromFS
		}
		L.Check(ok, "R-C19-JSON", "JSONUnmarshal", "rebuilds from the exported FilterSet and SetLocs", "JSONUnmarshal does not pass the exported FilterSet and SetLocs to newWithBoolset", fn.Pos())
	})
}

// bloomClearRule: Bloom.Clear zeroes every word of the bitset on every path (loop bound is the
// length of the bitset itself). Shared by C19 and C18 (the doorkeeper is a z.Bloom: a word that
// survives Clear keeps first-access marks across aging resets and clears).
func bloomClearRule(c *Ctx, ruleID string) {
	L, P := c.L, c.P
	c.Group(ruleID, "Bloom.Clear", func() {
		fn := P.Fn("z", "Bloom", "Clear")
		L.Analysed(fname(fn))
		tb := newTB(fn)
		var st *ssa.Store
		eachInstr(fn, func(in ssa.Instruction) {
			if s, ok := in.(*ssa.Store); ok && isConst(s.Val, "0") && Match("idx(fld[bitset](p[0]),_)", tb.pointee(s.Addr), nil) {
				st = s
			}
		})
		if st == nil {
			L.Fail(ruleID, "Bloom.Clear", "Clear does not store 0 into the bitset words", fn.Pos())
			return
		}
		var hdr *ssa.If
		for _, b := range fn.Blocks {
			if iff := lastIf(b); iff != nil && condPolarity(tb.T(iff.Cond), "lt(_,call[len](fld[bitset](p[0])))", nil) != 0 {
				hdr = iff
			}
		}
		if hdr == nil {
			L.Fail(ruleID, "Bloom.Clear", "Clear does not range over the whole bitset", fn.Pos())
			return
		}
		// every path from entry to a return goes through the loop header, and the only way out of the loop is exhaustion
		bad, _ := mustPass(entryPos(fn), isInstr(hdr), nil)
		body := hdr.Block().Succs[0]
		esc, _ := reach(Pos{body, 0}, isReturn, isInstr(hdr), nil)
		skip, _ := reach(Pos{body, 0}, isInstr(hdr), isInstr(st), nil)
		L.Check(bad == nil && esc == nil && skip == nil, ruleID, "Bloom.Clear", "every word := 0 on every path",
			"Clear can return without zeroing every word of the bitset (early return or skipped word): bits loaded or set earlier survive", instrPos(bad))
	})
}
