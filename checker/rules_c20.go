package main

import (
	"fmt"
	"go/token"
	"path/filepath"

	"golang.org/x/tools/go/ssa"
)

func init() {
	register(&PropCheck{
		ID: "C20",
		Explanation: "Decides the access-bound and index-agreement conditions of 'simd.Search agrees with the reference search': " +
			"(R-C20-BOUNDED) every memory load of the amd64 kernel (Plan 9 assembly parsed and abstractly interpreted with a residue-mod-8 × 'idx<len' domain over symbolic base/len/k) stays below len, given only the precondition that the Go wrapper provably establishes at the call (slice length len&^7, call dominated by n>0) — the repaired finding F1; " +
			"(R-C20-FIXUP) each compare is `CMPQ mem, k` followed by the unsigned JAE; the Found label it targets adds exactly displacement/8 to the index; the epilogue halves the index (SHRL $31; ADDL; SHRL $1) on the found path and len on the not-found path and stores it to ret+32(FP); argument offsets match the Go stub; " +
			"(R-C20-WRAPPER) the amd64 wrapper accepts the kernel's answer only if it is below n/2, otherwise continues with a step-2 loop from n under i<len using unsigned xs[i] >= k, returning i/2, and len/2 at the end; " +
			"(R-C20-PORTABLE) the portable Search (linux/arm64 build) falls back to Naive unless len ≥ 8 and len%8 == 0, and its unrolled loop compares xs[i+d] >= k (unsigned) returning (i+d)/2 for the same d ∈ {0,2,4,6}, step 8 under i<len, len/2 at the end; Naive: step 2, >=, i/2; " +
			"(R-C20-CALLER) node.search hands simd.Search exactly n[:2*numKeys]. " +
			"NOT decided: extensional equality with Naive for all inputs — it follows from the rules only by an informal argument (same comparison, same order, same index map).",
		Variants: func(tier string) []Variant { return []Variant{V0, V1} },
		Run:      runC20,
	})
}

// resolveArrayElem: for a load of a constant-index element of a local array, find the
// store that defines it (same block before the load, else a dominating store).
func resolveArrayElem(v ssa.Value) ssa.Value {
	ld, ok := v.(*ssa.UnOp)
	if !ok || ld.Op != token.MUL {
		return v
	}
	ia, ok := ld.X.(*ssa.IndexAddr)
	if !ok {
		return v
	}
	al, ok := ia.X.(*ssa.Alloc)
	if !ok {
		return v
	}
	ci, ok := ia.Index.(*ssa.Const)
	if !ok {
		return v
	}
	var best *ssa.Store
	for _, r := range *al.Referrers() {
		ia2, ok := r.(*ssa.IndexAddr)
		if !ok {
			continue
		}
		c2, ok := ia2.Index.(*ssa.Const)
		if !ok || constSym(c2) != constSym(ci) {
			continue
		}
		for _, rr := range *ia2.Referrers() {
			st, ok := rr.(*ssa.Store)
			if !ok || st.Addr != ssa.Value(ia2) {
				continue
			}
			if instrDominates(st, ld) {
				if best == nil || instrDominates(best, st) {
					best = st
				}
			}
		}
	}
	if best != nil {
		return best.Val
	}
	return v
}

func runC20(c *Ctx) {
	L, P := c.L, c.P
	if P.Variant.Name == "V0" {
		runC20amd64(c)
	} else {
		runC20portable(c)
	}
	_ = L
}

func runC20amd64(c *Ctx) {
	L, P := c.L, c.P
	L.Rule("R-C20-BOUNDED", "every load of the kernel is below len under the precondition the Go wrapper establishes", 4)
	L.Rule("R-C20-FIXUP", "unsigned compare against k; Found label adds displacement/8; epilogue halves idx / len; frame offsets match the stub", 7)
	L.Rule("R-C20-WRAPPER", "wrapper: kernel answer accepted only below n/2; tail loop step 2, unsigned >=, i/2; len/2 at the end", 4)
	L.Rule("R-C20-PORTABLE", "portable Search: fallback guard, four compares with matching index fix-up, step 8; Naive reference shape", 7)
	L.Rule("R-C20-CALLER", "node.search passes n[:2*numKeys]", 1)

	// ---- Go side: precondition and wrapper shape
	var pre asmPre
	var kernelName string
	c.Group("R-C20-WRAPPER", "simd.Search(amd64)", func() {
		fn := P.Fn("simd", "", "Search")
		L.Analysed(fname(fn))
		if fn.Blocks == nil {
			// the exported function is the assembly itself: no precondition at all
			kernelName = "Search"
			L.OkTrivial("R-C20-WRAPPER", "simd.Search(amd64)", "Search is implemented directly in assembly (no Go-side precondition)", fn.Pos())
			return
		}
		tb := newTB(fn)
		var call *ssa.Call
		for _, ci := range allCalls(fn) {
			if sc := staticCallee(ci.Common()); sc != nil && sc.Blocks == nil && sc.Pkg == P.Pkgs["simd"] {
				call, _ = ci.(*ssa.Call)
				kernelName = sc.Name()
			}
		}
		if call == nil {
			L.Undecided("R-C20-WRAPPER", "simd.Search(amd64)", "the wrapper does not call an assembly kernel", fn.Pos())
			return
		}
		// precondition: facts about len(arg0) that hold at the call
		argT := tb.T(call.Call.Args[0])
		env := Env{}
		lenT := ""
		switch {
		case Match("slice(p[0],_,?n,_)", argT, env):
			lenT = env["n"].String()
		case argT.String() == "p[0]":
			lenT = "call[len](p[0])"
		default:
			L.Undecided("R-C20-WRAPPER", "simd.Search(amd64)", "kernel argument "+argT.String()+" is not xs or a prefix of xs", call.Pos())
			return
		}
		if env["n"] != nil && Match("andnot(call[len](p[0]),c[7])", env["n"], nil) {
			pre.LenMod8Zero = true
		}
		// guards that dominate the call
		for _, g := range []struct {
			pat  string
			want bool
			set  func()
		}{
			{"lt(c[0]," + lenT + ")", true, func() {
				if pre.LenMod8Zero {
					pre.LenGE8 = true
				}
			}},
			{"le(c[8]," + lenT + ")", true, func() { pre.LenGE8 = true }},
			{"lt(" + lenT + ",c[8])", false, func() { pre.LenGE8 = true }},
			{"eq(rem(" + lenT + ",c[8]),c[0])", true, func() { pre.LenMod8Zero = true }},
			{"ne(rem(" + lenT + ",c[8]),c[0])", false, func() { pre.LenMod8Zero = true }},
		} {
			edges := edgesWhere(fn, tb, g.pat, nil, g.want)
			if len(edges) == 0 {
				continue
			}
			if b, _ := reach(entryPos(fn), isInstr(call), nil, cutSet(edges)); b == nil {
				g.set()
			}
		}
		L.Ok("R-C20-WRAPPER", "simd.Search(amd64)#pre", fmt.Sprintf("at the kernel call: len(arg) = %s, established: len ≡ 0 (mod 8): %v, len ≥ 8: %v", lenT, pre.LenMod8Zero, pre.LenGE8), call.Pos())
		if lenT == "call[len](p[0])" {
			// plain guard form: then the result must be returned as is and the other side must use Naive
			return
		}
		// prefix form: answer accepted only below n/2; tail loop; final len/2
		n := lenT
		accept := edgesWhere(fn, tb, "lt(conv[int]("+tb.T(call).String()+"),quo("+n+",c[2]))", nil, true)
		okAccept := len(accept) > 0
		nRetKernel := 0
		for _, r := range returnsOf(fn) {
			if returnValues(r)[0] == ssa.Value(call) {
				nRetKernel++
				if b, _ := reach(entryPos(fn), isInstr(r), nil, cutSet(accept)); b != nil {
					okAccept = false
				}
			}
		}
		L.Check(okAccept && nRetKernel == 1, "R-C20-WRAPPER", "simd.Search(amd64)#accept", "the kernel's index is returned only when it is below n/2 (a real hit inside the prefix)",
			"the kernel's answer is returned without the test `int(idx) < n/2`: a 'not found in the prefix' answer (n/2) or an out-of-prefix index would be returned although the tail still has to be searched", call.Pos())
		// tail loop
		var iPhi *ssa.Phi
		eachInstr(fn, func(in ssa.Instruction) {
			if ph, ok := in.(*ssa.Phi); ok {
				for _, e := range ph.Edges {
					if tb.T(e).String() == n {
						iPhi = ph
					}
				}
			}
		})
		if iPhi == nil {
			L.Fail("R-C20-WRAPPER", "simd.Search(amd64)#tail", "no tail loop starting at n: the words after the multiple-of-8 prefix are never searched", fn.Pos())
			return
		}
		step := false
		for _, e := range iPhi.Edges {
			if bo, ok := e.(*ssa.BinOp); ok && bo.Op == token.ADD && bo.X == ssa.Value(iPhi) && isConst(bo.Y, "2") {
				step = true
			}
		}
		iT := tb.T(iPhi).String()
		cond := lastIf(iPhi.Block())
		okLoop := step && cond != nil && condPolarity(tb.T(cond.Cond), "lt("+iT+",call[len](p[0]))", nil) > 0
		hit := edgesWhere(fn, tb, "le(p[1],idx(p[0],"+iT+"))", nil, true)
		okHit := len(hit) > 0
		nTail, nEnd := 0, 0
		for _, r := range returnsOf(fn) {
			rt := tb.T(returnValues(r)[0]).String()
			switch rt {
			case "conv[int16](quo(" + iT + ",c[2]))":
				nTail++
				if b, _ := reach(entryPos(fn), isInstr(r), nil, cutSet(hit)); b != nil {
					okHit = false
				}
			case "conv[int16](quo(call[len](p[0]),c[2]))":
				nEnd++
			}
		}
		L.Check(okLoop && okHit && nTail == 1, "R-C20-WRAPPER", "simd.Search(amd64)#tail", "tail: i = n; i < len; i += 2; xs[i] >= k (unsigned) ⇒ i/2", fmt.Sprintf("tail loop is wrong (loop i=n..len step 2:%v; hit on xs[i] >= k returning i/2:%v)", okLoop, okHit && nTail == 1), iPhi.Pos())
		L.Check(nEnd == 1 && len(returnsOf(fn)) == 3, "R-C20-WRAPPER", "simd.Search(amd64)#notfound", "falls through to len(xs)/2", "the not-found result is not len(xs)/2", fn.Pos())
	})

	// ---- assembly
	c.Group("R-C20-BOUNDED", "search_amd64.s", func() {
		path := filepath.Join(c.Repo, "z", "simd", "search_amd64.s")
		funcs, err := parseAsmFile(path)
		if err != nil {
			L.Undecided("R-C20-BOUNDED", "search_amd64.s", "cannot parse the assembly: "+err.Error(), 0)
			return
		}
		var f *asmFunc
		for _, x := range funcs {
			if x.Name == kernelName {
				f = x
			}
		}
		if f == nil {
			L.Undecided("R-C20-BOUNDED", "search_amd64.s", "no TEXT ·"+kernelName+" in search_amd64.s", 0)
			return
		}
		rel := "z/simd/search_amd64.s"
		loads, problems, states := interpretSearchKernel(f, pre, nil)
		for _, p := range problems {
			L.Undecided("R-C20-BOUNDED", fmt.Sprintf("asm:%d", p.Line), p.Msg, 0)
		}
		if len(loads) == 0 {
			L.Undecided("R-C20-BOUNDED", "search_amd64.s", "no memory loads found in the kernel", 0)
			return
		}
		for _, ld := range loads {
			cons := fmt.Sprintf("%s(amd64)#load+%d", "simd."+kernelName, ld.Disp)
			o := &Obligation{Rule: "R-C20-BOUNDED", Construct: cons, Pos: fmt.Sprintf("%s:%d", rel, ld.Line), Nontrivial: true}
			if ld.Safe {
				o.Outcome, o.Detail = OK, ld.Why
			} else {
				o.Outcome = Violation
				o.Detail = fmt.Sprintf("load at displacement %d may read beyond len(xs): %s; the result would depend on memory after the slice", ld.Disp, ld.Why)
			}
			L.add(o)
		}
		// ---- R-C20-FIXUP
		idxReg, keyReg, lenReg := "", "", ""
		for i, ins := range f.Instrs {
			if len(ins.Args) == 2 && ins.Args[0].Kind == "mem" && ins.Op == "CMPQ" {
				idxReg = ins.Args[0].Index
				if ins.Args[1].Kind == "reg" {
					keyReg = ins.Args[1].Reg
					if states[i] != nil && states[i].Reg[keyReg].K != aKey {
						L.Fail("R-C20-FIXUP", fmt.Sprintf("asm:cmp+%d", ins.Args[0].Off), "the word is compared with "+states[i].Reg[keyReg].String()+", not with k", 0)
					}
				}
			}
		}
		for r, v := range states[len(f.Instrs)-1].Reg {
			_ = r
			_ = v
		}
		for i, ins := range f.Instrs {
			if ins.Op != "CMPQ" || len(ins.Args) != 2 || ins.Args[0].Kind != "mem" {
				continue
			}
			cons := fmt.Sprintf("asm:cmp+%d", ins.Args[0].Off)
			pos := fmt.Sprintf("%s:%d", rel, ins.Line)
			if i+1 >= len(f.Instrs) {
				continue
			}
			j := f.Instrs[i+1]
			if j.Op != "JAE" && j.Op != "JCC" && j.Op != "JHS" {
				L.add(&Obligation{Rule: "R-C20-FIXUP", Construct: cons, Outcome: Violation, Nontrivial: true, Pos: pos,
					Detail: "the compare is followed by " + j.Op + ", not the unsigned JAE: keys ≥ 2^63 would be ordered as negative"})
				continue
			}
			// sum of immediates added to the index register from the target label to the copy into the result register
			sum, ok := int64(0), false
			k := f.Labels[j.Args[0].Name]
			for steps := 0; steps < 20 && k < len(f.Instrs); steps++ {
				x := f.Instrs[k]
				if (x.Op == "ADDL" || x.Op == "ADDQ") && len(x.Args) == 2 && x.Args[0].Kind == "imm" && x.Args[1].Reg == idxReg {
					sum += x.Args[0].Imm
					k++
					continue
				}
				if x.Op == "JMP" {
					k = f.Labels[x.Args[0].Name]
					continue
				}
				if (x.Op == "MOVL" || x.Op == "MOVQ") && len(x.Args) == 2 && x.Args[0].Reg == idxReg && x.Args[1].Kind == "reg" {
					ok = true
				}
				break
			}
			if !ok || sum != ins.Args[0].Off/8 {
				L.add(&Obligation{Rule: "R-C20-FIXUP", Construct: cons, Outcome: Violation, Nontrivial: true, Pos: pos,
					Detail: fmt.Sprintf("the hit at displacement %d (word idx+%d) jumps to %s, which adds %d to the index before it is returned", ins.Args[0].Off, ins.Args[0].Off/8, j.Args[0].Name, sum)})
			} else {
				L.add(&Obligation{Rule: "R-C20-FIXUP", Construct: cons, Outcome: OK, Nontrivial: true, Pos: pos,
					Detail: fmt.Sprintf("CMPQ %d(base)(idx*8), k; JAE %s; %s adds %d = displacement/8", ins.Args[0].Off, j.Args[0].Name, j.Args[0].Name, sum)})
			}
		}
		// loop step and test
		okStep := false
		for i, ins := range f.Instrs {
			if ins.Op == "ADDQ" && len(ins.Args) == 2 && ins.Args[0].Kind == "imm" && ins.Args[0].Imm == 8 && ins.Args[1].Reg == idxReg && i+2 < len(f.Instrs) {
				cmp, jb := f.Instrs[i+1], f.Instrs[i+2]
				if cmp.Op == "CMPQ" && cmp.Args[0].Reg == idxReg && states[i+1] != nil && states[i+1].Reg[cmp.Args[1].Reg].K == aLen && (jb.Op == "JB" || jb.Op == "JCS" || jb.Op == "JLO") {
					okStep = true
					lenReg = cmp.Args[1].Reg
				}
			}
		}
		o := &Obligation{Rule: "R-C20-FIXUP", Construct: "asm:loop", Nontrivial: true, Pos: rel}
		if okStep {
			o.Outcome, o.Detail = OK, "idx += 8; CMPQ idx, len; JB loop (unsigned, strict)"
		} else {
			o.Outcome, o.Detail = Violation, "the loop does not advance by 8 words under the strict unsigned test `idx < len` (JB)"
		}
		L.add(o)
		// epilogue: result register = (BX + BX>>31) >> 1, stored to ret+32(FP); BX = idx on found, len on not found
		n := len(f.Instrs)
		okEpi := n >= 6
		if okEpi {
			e := f.Instrs[n-6:]
			okEpi = e[0].Op == "MOVL" && e[1].Op == "SHRL" && e[1].Args[0].Imm == 31 && e[2].Op == "ADDL" && e[3].Op == "SHRL" && e[3].Args[0].Imm == 1 &&
				e[4].Op == "MOVL" && e[4].Args[1].Kind == "fp" && e[4].Args[1].Name == "ret" && e[5].Op == "RET" &&
				e[0].Args[1].Reg == e[1].Args[1].Reg && e[2].Args[0].Reg == e[0].Args[0].Reg && e[2].Args[1].Reg == e[1].Args[1].Reg && e[3].Args[1].Reg == e[1].Args[1].Reg && e[4].Args[0].Reg == e[3].Args[1].Reg
			if okEpi {
				// the halved register holds idx on the found path and len on the not-found path
				src := e[0].Args[0].Reg
				st := states[n-6]
				v := st.Reg[src]
				if !(v.K == aIdx || v.K == aLen) {
					okEpi = false
				}
				// not-found path: the JMP to this label carries len in src
				for i, ins := range f.Instrs {
					if ins.Op == "JMP" && f.Labels[ins.Args[0].Name] == n-6 && states[i] != nil && states[i].Reg[src].K != aLen {
						okEpi = false
					}
				}
			}
		}
		o2 := &Obligation{Rule: "R-C20-FIXUP", Construct: "asm:epilogue", Nontrivial: true, Pos: rel}
		if okEpi {
			o2.Outcome, o2.Detail = OK, "result = x/2 (SHRL $31; ADDL; SHRL $1) of idx on the found path and of len on the not-found path, stored to ret+32(FP)"
		} else {
			o2.Outcome, o2.Detail = Violation, "the epilogue is not `result = (idx or len)/2 → ret+32(FP)`"
		}
		L.add(o2)
		// frame: argument offsets as the Go stub lays them out
		okArgs := true
		for _, ins := range f.Instrs {
			for _, a := range ins.Args {
				if a.Kind == "fp" {
					want := map[string]int64{"xs_base": 0, "xs_len": 8, "xs_cap": 16, "k": 24, "ret": 32}
					if w, ok := want[a.Name]; !ok || w != a.Off {
						okArgs = false
					}
				}
			}
		}
		stub := P.Fn("simd", "", kernelName)
		sigOK := stub != nil && stub.Signature.Params().Len() == 2 && stub.Signature.Results().Len() == 1 &&
			stub.Signature.Params().At(0).Type().String() == "[]uint64" && stub.Signature.Params().At(1).Type().String() == "uint64" && stub.Signature.Results().At(0).Type().String() == "int16"
		o3 := &Obligation{Rule: "R-C20-FIXUP", Construct: "asm:frame", Pos: rel}
		if okArgs && sigOK && f.ArgSize == 34 {
			o3.Outcome, o3.Detail = OK, "xs_base+0, xs_len+8, k+24, ret+32 for func(xs []uint64, k uint64) int16, $0-34"
		} else {
			o3.Outcome, o3.Detail, o3.Nontrivial = Violation, "argument offsets / frame size do not match func(xs []uint64, k uint64) int16", true
		}
		L.add(o3)
		_ = lenReg
	})

	// ---- R-C20-CALLER
	c.Group("R-C20-CALLER", "node.search", func() {
		fn := P.Fn("z", "node", "search")
		L.Analysed(fname(fn))
		tb := newTB(fn)
		cs := callsTo(fn, "simd.Search")
		if len(cs) != 1 {
			L.Fail("R-C20-CALLER", "node.search", "node.search does not call simd.Search exactly once", fn.Pos())
			return
		}
		a := tb.T(cs[0].Common().Args[0])
		ok := Match("slice(p[0],_,mul(c[2],call[z.node.numKeys](p[0])),_)", a, nil)
		L.Check(ok, "R-C20-CALLER", "node.search", "passes n[:2*numKeys]: exactly the key/value words in use", "passes "+a.String()+" instead of n[:2*numKeys()]: the page trailer or stale slots could be taken for keys", cs[0].Pos())
	})
}

func runC20portable(c *Ctx) {
	L, P := c.L, c.P
	c.Group("R-C20-PORTABLE", "simd.Search(portable)", func() {
		fn := P.Fn("simd", "", "Search")
		L.Analysed(fname(fn) + "(portable)")
		if fn.Blocks == nil {
			L.Undecided("R-C20-PORTABLE", "simd.Search(portable)", "no Go body for Search on "+P.Variant.GOARCH, fn.Pos())
			return
		}
		tb := newTB(fn)
		lenT := "call[len](p[0])"
		// fallback guard
		naive := callsTo(fn, "simd.Naive")
		okGuard := len(naive) == 1
		if okGuard {
			nc := naive[0].(*ssa.Call)
			okGuard = tb.T(nc.Call.Args[0]).String() == "p[0]" && tb.T(nc.Call.Args[1]).String() == "p[1]"
			// the unrolled loop is reachable only with len >= 8 and len%8 == 0
			ge8 := edgesWhere(fn, tb, "lt("+lenT+",c[8])", nil, false)
			mod := edgesWhere(fn, tb, "ne(rem("+lenT+",c[8]),c[0])", nil, false)
			firstLoad := func(in ssa.Instruction) bool {
				ia, ok := in.(*ssa.IndexAddr)
				return ok && tb.T(ia.X).String() == "p[0]"
			}
			b1, _ := reach(entryPos(fn), firstLoad, nil, cutSet(ge8))
			b2, _ := reach(entryPos(fn), firstLoad, nil, cutSet(mod))
			okGuard = okGuard && b1 == nil && b2 == nil && len(ge8) > 0 && len(mod) > 0
			// and the fallback result is returned
			ret := false
			for _, r := range returnsOf(fn) {
				if returnValues(r)[0] == ssa.Value(nc) {
					ret = true
				}
			}
			okGuard = okGuard && ret
		}
		L.Check(okGuard, "R-C20-PORTABLE", "simd.Search(portable)#guard", "len < 8 || len%8 != 0 ⇒ Naive(xs,k); the unrolled loop runs only on non-zero multiples of 8", "the unrolled loop is reachable for a length that is not a non-zero multiple of 8 (it reads xs[i+2..i+6] without checking)", fn.Pos())
		// loop variable
		var iPhi *ssa.Phi
		eachInstr(fn, func(in ssa.Instruction) {
			if ph, ok := in.(*ssa.Phi); ok {
				for _, e := range ph.Edges {
					if bo, ok := e.(*ssa.BinOp); ok && bo.Op == token.ADD && bo.X == ssa.Value(ph) && isConst(bo.Y, "8") {
						iPhi = ph
					}
				}
			}
		})
		if iPhi == nil {
			L.Fail("R-C20-PORTABLE", "simd.Search(portable)#loop", "no loop stepping by 8", fn.Pos())
			return
		}
		iT := tb.T(iPhi).String()
		cond := lastIf(iPhi.Block())
		L.Check(cond != nil && condPolarity(tb.T(cond.Cond), "lt("+iT+","+lenT+")", nil) > 0, "R-C20-PORTABLE", "simd.Search(portable)#loop", "for i := 0; i < len(xs); i += 8", "the loop test is not i < len(xs)", iPhi.Pos())
		// the four compares
		found := map[string]bool{}
		for _, b := range fn.Blocks {
			iff := lastIf(b)
			if iff == nil {
				continue
			}
			bo, ok := iff.Cond.(*ssa.BinOp)
			if !ok || (bo.Op != token.GEQ && bo.Op != token.LEQ && bo.Op != token.GTR && bo.Op != token.LSS) {
				continue
			}
			x, y := resolveArrayElem(bo.X), resolveArrayElem(bo.Y)
			xt, yt := tb.T(x), tb.T(y)
			if bo.Op == token.LEQ { // k <= xs[..]
				xt, yt = yt, xt
			} else if bo.Op != token.GEQ {
				continue
			}
			if yt.String() != "p[1]" {
				continue
			}
			env := Env{}
			d := ""
			if xt.String() == "idx(p[0],"+iT+")" {
				d = "0"
			} else if Match("idx(p[0],add("+iT+",?d))", xt, env) || Match("idx(p[0],add(?d,"+iT+"))", xt, env) {
				if env["d"].Op == "c" {
					d = env["d"].Sym
				}
			}
			if d == "" {
				continue
			}
			// the true successor returns (i+d)/2
			tgt := b.Succs[0]
			ret, _ := tgt.Instrs[len(tgt.Instrs)-1].(*ssa.Return)
			cons := "simd.Search(portable)#cmp+" + d
			if ret == nil {
				L.Fail("R-C20-PORTABLE", cons, "a hit does not return", iff.Pos())
				continue
			}
			rt := tb.T(returnValues(ret)[0]).String()
			want := "conv[int16](quo(add(" + iT + ",c[" + d + "]),c[2]))"
			want2 := "conv[int16](quo(add(c[" + d + "]," + iT + "),c[2]))"
			if d == "0" {
				want, want2 = "conv[int16](quo("+iT+",c[2]))", ""
			}
			found[d] = true
			L.Check(rt == want || rt == want2, "R-C20-PORTABLE", cons, "xs[i+"+d+"] >= k (unsigned) ⇒ (i+"+d+")/2", "a hit on xs[i+"+d+"] returns "+rt+", want (i+"+d+")/2", ret.Pos())
		}
		for _, d := range []string{"0", "2", "4", "6"} {
			if !found[d] {
				L.Fail("R-C20-PORTABLE", "simd.Search(portable)#cmp+"+d, "no comparison `xs[i+"+d+"] >= k` in the unrolled loop", iPhi.Pos())
			}
		}
		// fall-through returns len/2
		end := false
		for _, r := range returnsOf(fn) {
			if tb.T(returnValues(r)[0]).String() == "conv[int16](quo("+lenT+",c[2]))" {
				end = true
			}
		}
		L.Check(end, "R-C20-PORTABLE", "simd.Search(portable)#notfound", "falls through to len(xs)/2", "the not-found result is not len(xs)/2", fn.Pos())
	})
	c.Group("R-C20-PORTABLE", "simd.Naive", func() {
		fn := P.Fn("simd", "", "Naive")
		L.Analysed(fname(fn))
		tb := newTB(fn)
		var iPhi *ssa.Phi
		eachInstr(fn, func(in ssa.Instruction) {
			if ph, ok := in.(*ssa.Phi); ok {
				for _, e := range ph.Edges {
					if bo, ok := e.(*ssa.BinOp); ok && bo.Op == token.ADD && bo.X == ssa.Value(ph) && isConst(bo.Y, "2") {
						iPhi = ph
					}
				}
			}
		})
		if iPhi == nil {
			L.Fail("R-C20-PORTABLE", "simd.Naive", "reference search does not step by 2", fn.Pos())
			return
		}
		iT := tb.T(iPhi).String()
		hit := edgesWhere(fn, tb, "le(p[1],idx(p[0],"+iT+"))", nil, true)
		okHit, okEnd := false, false
		exit := edgesWhere(fn, tb, "lt("+iT+",call[len](p[0]))", nil, false)
		for _, r := range returnsOf(fn) {
			rt := tb.T(returnValues(r)[0]).String()
			viaHit, _ := reach(entryPos(fn), isInstr(r), nil, cutSet(hit))
			viaExit, _ := reach(entryPos(fn), isInstr(r), nil, cutSet(exit))
			switch {
			case viaHit == nil && len(hit) > 0: // only reachable across a hit
				if rt == "conv[int16](quo("+iT+",c[2]))" {
					okHit = true
				}
			case viaExit == nil && len(exit) > 0: // only reachable after the loop ran out
				if rt == "conv[int16](quo("+iT+",c[2]))" || rt == "conv[int16](quo(call[len](p[0]),c[2]))" {
					okEnd = true
				}
			}
		}
		cond := lastIf(iPhi.Block())
		okLoop := cond != nil && condPolarity(tb.T(cond.Cond), "lt("+iT+",call[len](p[0]))", nil) > 0
		L.Check(okHit && okLoop && okEnd, "R-C20-PORTABLE", "simd.Naive", "reference: i=0; i<len; i+=2; xs[i] >= k ⇒ i/2; else len/2", "the reference search is not the step-2 `first key >= k` scan", fn.Pos())
	})
}
