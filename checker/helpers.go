package main

import (
	"go/token"
	"go/types"
	"strings"

	"golang.org/x/tools/go/ssa"
)

// returnsOf lists the Return instructions of fn, excluding the synthetic recover block.
func returnsOf(fn *ssa.Function) []*ssa.Return {
	var out []*ssa.Return
	for _, b := range fn.Blocks {
		if b == fn.Recover {
			continue
		}
		if len(b.Instrs) == 0 {
			continue
		}
		if r, ok := b.Instrs[len(b.Instrs)-1].(*ssa.Return); ok {
			out = append(out, r)
		}
	}
	return out
}

// returnValues resolves the result values of a Return, looking through the result
// spill slots go/ssa introduces in functions with defer (store; rundefers; load; return).
func returnValues(r *ssa.Return) []ssa.Value {
	out := make([]ssa.Value, len(r.Results))
	b := r.Block()
	for i, v := range r.Results {
		out[i] = v
		ld, ok := v.(*ssa.UnOp)
		if !ok || ld.Op != token.MUL {
			continue
		}
		a, ok := ld.X.(*ssa.Alloc)
		if !ok || ld.Block() != b {
			continue
		}
		// last store to a in this block before the load
		for j := posOf(ld).I - 1; j >= 0; j-- {
			if st, ok := b.Instrs[j].(*ssa.Store); ok && st.Addr == a {
				out[i] = st.Val
				break
			}
		}
	}
	return out
}

// litFields collects the field initialisers of a composite literal that go/ssa lowered
// to an Alloc followed by FieldAddr stores: field name -> stored values (in block order).
func litFields(a ssa.Value) map[string][]*ssa.Store {
	out := map[string][]*ssa.Store{}
	if a == nil || a.Referrers() == nil {
		return out
	}
	for _, r := range *a.Referrers() {
		fa, ok := r.(*ssa.FieldAddr)
		if !ok || fa.X != a {
			continue
		}
		name := fieldName(fa.X.Type(), fa.Field)
		for _, rr := range *fa.Referrers() {
			if st, ok := rr.(*ssa.Store); ok && st.Addr == fa {
				out[name] = append(out[name], st)
			}
		}
	}
	return out
}

// structValueAlloc: if v is a load of a local Alloc that was built field by field
// (struct literal), return the Alloc.
func structValueAlloc(v ssa.Value) *ssa.Alloc {
	if ld, ok := v.(*ssa.UnOp); ok && ld.Op == token.MUL {
		if a, ok := ld.X.(*ssa.Alloc); ok {
			return a
		}
	}
	if a, ok := v.(*ssa.Alloc); ok {
		return a
	}
	return nil
}

func isConst(v ssa.Value, sym string) bool {
	c, ok := v.(*ssa.Const)
	return ok && constSym(c) == sym
}

// mapUpdatesOf lists MapUpdate instructions in fn whose map operand matches pat.
func mapUpdatesOf(fn *ssa.Function, tb *TB, pat string) []*ssa.MapUpdate {
	var out []*ssa.MapUpdate
	eachInstr(fn, func(in ssa.Instruction) {
		if mu, ok := in.(*ssa.MapUpdate); ok && Match(pat, tb.T(mu.Map), nil) {
			out = append(out, mu)
		}
	})
	return out
}

// lookupsOf lists map lookups in fn whose map operand matches pat.
func lookupsOf(fn *ssa.Function, tb *TB, pat string) []*ssa.Lookup {
	var out []*ssa.Lookup
	eachInstr(fn, func(in ssa.Instruction) {
		if lk, ok := in.(*ssa.Lookup); ok && Match(pat, tb.T(lk.X), nil) {
			out = append(out, lk)
		}
	})
	return out
}

// builtinCalls lists calls of builtin name in fn.
func builtinCalls(fn *ssa.Function, name string) []*ssa.Call {
	var out []*ssa.Call
	eachInstr(fn, func(in ssa.Instruction) {
		if c, ok := in.(*ssa.Call); ok {
			if b, ok := c.Call.Value.(*ssa.Builtin); ok && b.Name() == name {
				out = append(out, c)
			}
		}
	})
	return out
}

// callArgs returns receiver+args for static/invoke calls uniformly: for invoke the
// receiver is prepended, for static method calls go/ssa already has it as Args[0].
func callArgs(c *ssa.CallCommon) []ssa.Value {
	if c.IsInvoke() {
		return append([]ssa.Value{c.Value}, c.Args...)
	}
	return c.Args
}

// allCalls lists every call instruction in fn.
func allCalls(fn *ssa.Function) []ssa.CallInstruction {
	var out []ssa.CallInstruction
	eachInstr(fn, func(in ssa.Instruction) {
		if c, ok := in.(ssa.CallInstruction); ok {
			out = append(out, c)
		}
	})
	return out
}

// fieldStoresIn lists Store instructions in fn that write field `field` of a struct of
// named type `typ` (through a FieldAddr).
func fieldStoresIn(fn *ssa.Function, typ, field string) []*ssa.Store {
	var out []*ssa.Store
	eachInstr(fn, func(in ssa.Instruction) {
		st, ok := in.(*ssa.Store)
		if !ok {
			return
		}
		fa, ok := st.Addr.(*ssa.FieldAddr)
		if !ok {
			return
		}
		if recvName(fa.X.Type()) == typ && fieldName(fa.X.Type(), fa.Field) == field {
			out = append(out, st)
		}
	})
	return out
}

// fieldAddrsIn lists FieldAddr/Field instructions in fn that address field of typ.
func fieldAccessesIn(fn *ssa.Function, typ, field string) []ssa.Instruction {
	var out []ssa.Instruction
	eachInstr(fn, func(in ssa.Instruction) {
		switch x := in.(type) {
		case *ssa.FieldAddr:
			if recvName(x.X.Type()) == typ && fieldName(x.X.Type(), x.Field) == field {
				out = append(out, x)
			}
		case *ssa.Field:
			if recvName(x.X.Type()) == typ && fieldName(x.X.Type(), x.Field) == field {
				out = append(out, x)
			}
		}
	})
	return out
}

func isModuleFunc(f *ssa.Function) bool {
	f = origin(f)
	return f != nil && f.Pkg != nil && strings.HasPrefix(f.Pkg.Pkg.Path(), modPath)
}

func termsOf(tb *TB, vs []ssa.Value) []*Term {
	out := make([]*Term, len(vs))
	for i, v := range vs {
		out[i] = tb.T(v)
	}
	return out
}

func termStrings(ts []*Term) string {
	s := make([]string, len(ts))
	for i, t := range ts {
		s[i] = t.String()
	}
	return strings.Join(s, ", ")
}

// lastIf returns the If terminating block b, if any.
func lastIf(b *ssa.BasicBlock) *ssa.If {
	if len(b.Instrs) == 0 {
		return nil
	}
	iff, _ := b.Instrs[len(b.Instrs)-1].(*ssa.If)
	return iff
}

// sends lists Send instructions and Select send-states in fn: returns (instr, chan, value, blocking).
type sendSite struct {
	In       ssa.Instruction
	Chan     ssa.Value
	Val      ssa.Value
	Blocking bool
	Sel      *ssa.Select
	State    int
}

func sendsIn(fn *ssa.Function) []sendSite {
	var out []sendSite
	eachInstr(fn, func(in ssa.Instruction) {
		switch x := in.(type) {
		case *ssa.Send:
			out = append(out, sendSite{In: x, Chan: x.Chan, Val: x.X, Blocking: true})
		case *ssa.Select:
			for i, st := range x.States {
				if st.Dir == types.SendOnly {
					out = append(out, sendSite{In: x, Chan: st.Chan, Val: st.Send, Blocking: x.Blocking, Sel: x, State: i})
				}
			}
		}
	})
	return out
}

type recvSite struct {
	In       ssa.Instruction
	Chan     ssa.Value
	Blocking bool
	Sel      *ssa.Select
	State    int
}

func recvsIn(fn *ssa.Function) []recvSite {
	var out []recvSite
	eachInstr(fn, func(in ssa.Instruction) {
		switch x := in.(type) {
		case *ssa.UnOp:
			if x.Op == token.ARROW {
				out = append(out, recvSite{In: x, Chan: x.X, Blocking: true})
			}
		case *ssa.Select:
			for i, st := range x.States {
				if st.Dir == types.RecvOnly {
					out = append(out, recvSite{In: x, Chan: st.Chan, Blocking: x.Blocking, Sel: x, State: i})
				}
			}
		}
	})
	return out
}

// selectArmEdges: for a Select instruction, the CFG edge taken when state k is chosen.
// go/ssa lowers the dispatch to a chain of `index == k` tests.
func selectArmEdge(sel *ssa.Select, k int) (Edge, bool) {
	fn := sel.Parent()
	for _, b := range fn.Blocks {
		iff := lastIf(b)
		if iff == nil {
			continue
		}
		bo, ok := iff.Cond.(*ssa.BinOp)
		if !ok || bo.Op != token.EQL {
			continue
		}
		ex, ok := bo.X.(*ssa.Extract)
		if !ok || ex.Tuple != sel || ex.Index != 0 {
			continue
		}
		if c, ok := bo.Y.(*ssa.Const); ok && constSym(c) == itoa(k) {
			return Edge{b, 0}, true
		}
	}
	return Edge{}, false
}

// selectRecvValue returns the value received in state k of sel (Extract index 2+...).
func selectRecvValue(sel *ssa.Select, k int) ssa.Value {
	// tuple layout: (index int, recvOk bool, r_0 T_0, ... r_n-1 T_n-1) for recv states in order
	idx := 2
	for i, st := range sel.States {
		if st.Dir != types.RecvOnly {
			continue
		}
		if i == k {
			for _, r := range *sel.Referrers() {
				if ex, ok := r.(*ssa.Extract); ok && ex.Index == idx {
					return ex
				}
			}
			return nil
		}
		idx++
	}
	return nil
}

// phiLeaves returns the non-φ values that can flow into ph through any chain of φ-nodes.
func phiLeaves(ph *ssa.Phi) []ssa.Value {
	seen := map[*ssa.Phi]bool{}
	var out []ssa.Value
	var walk func(p *ssa.Phi)
	walk = func(p *ssa.Phi) {
		if seen[p] {
			return
		}
		seen[p] = true
		for _, e := range p.Edges {
			if q, ok := e.(*ssa.Phi); ok {
				walk(q)
			} else {
				out = append(out, e)
			}
		}
	}
	walk(ph)
	return out
}

// importRules evaluates another property's rules in a scratch ledger and files the obligations of the
// named rules under this property's rule ids (a rule that is a necessary condition of both).
func importRules(c *Ctx, run func(*Ctx), rename map[string]string) {
	importRulesWhere(c, run, rename, nil)
}

// importRulesWhere: like importRules, restricted to the obligations keep accepts (by construct).
var importing bool

func importRulesWhere(c *Ctx, run func(*Ctx), rename map[string]string, keep func(*Obligation) bool) {
	if importing {
		return // imports do not nest (C09 takes the halving rule from C18, C18 the estimate rule from C09)
	}
	importing = true
	defer func() { importing = false }()
	sub := &Ctx{L: newLedger(c.L.Prop), P: c.P, Tier: c.Tier}
	sub.L.P = c.P
	run(sub)
	for _, o := range sub.L.Obls {
		if keep != nil && !keep(o) {
			continue
		}
		if to, ok := rename[o.Rule]; ok {
			o.Rule = to
			c.L.add(o)
		}
	}
}

// rangeLoop: `for i, x := range s` over a slice as go/ssa lowers it - header block with the
// index φ(-1, i+1), the test i+1 < len(s), the body entered on the true edge.
type rangeLoop struct {
	Hdr   *ssa.BasicBlock
	Index ssa.Value // i+1, the index of the element visited in the body
	Slice ssa.Value // the ranged slice (operand of len)
	Body  *ssa.BasicBlock
	Done  *ssa.BasicBlock
}

func rangeLoopsOf(fn *ssa.Function) []rangeLoop {
	var out []rangeLoop
	for _, b := range fn.Blocks {
		iff := lastIf(b)
		if iff == nil {
			continue
		}
		cmp, ok := iff.Cond.(*ssa.BinOp)
		if !ok || cmp.Op != token.LSS {
			continue
		}
		ln, ok := cmp.Y.(*ssa.Call)
		if !ok {
			continue
		}
		if bi, ok := ln.Call.Value.(*ssa.Builtin); !ok || bi.Name() != "len" {
			continue
		}
		stepOf := func(ph *ssa.Phi, init string) (ok bool) {
			hasInit, hasBack := false, false
			for _, e := range ph.Edges {
				if isConst(e, init) {
					hasInit = true
				} else if inc, isInc := e.(*ssa.BinOp); isInc && inc.Op == token.ADD && inc.X == ssa.Value(ph) && isConst(inc.Y, "1") {
					hasBack = true
				} else {
					return false
				}
			}
			return hasInit && hasBack
		}
		// `for i, x := range s`: index φ(-1, i+1), the element visited is i+1
		if inc, ok := cmp.X.(*ssa.BinOp); ok && inc.Op == token.ADD && isConst(inc.Y, "1") {
			if ph, ok := inc.X.(*ssa.Phi); ok && ph.Block() == b && stepOf(ph, "-1") {
				out = append(out, rangeLoop{Hdr: b, Index: inc, Slice: ln.Call.Args[0], Body: b.Succs[0], Done: b.Succs[1]})
				continue
			}
		}
		// `for i := 0; i < len(s); i++`: index φ(0, i+1), the element visited is i
		if ph, ok := cmp.X.(*ssa.Phi); ok && ph.Block() == b && stepOf(ph, "0") {
			out = append(out, rangeLoop{Hdr: b, Index: ph, Slice: ln.Call.Args[0], Body: b.Succs[0], Done: b.Succs[1]})
		}
	}
	return out
}

// Blocks of the loop body (everything reachable from Body without passing the header).
func (r rangeLoop) Blocks() map[*ssa.BasicBlock]bool {
	set := map[*ssa.BasicBlock]bool{}
	var walk func(b *ssa.BasicBlock)
	walk = func(b *ssa.BasicBlock) {
		if b == r.Hdr || set[b] {
			return
		}
		set[b] = true
		for _, s := range b.Succs {
			walk(s)
		}
	}
	walk(r.Body)
	return set
}

// Whole: the only way out of the loop is exhaustion of the slice (no break, return or panic in
// the body), so every element is visited.
func (r rangeLoop) Whole() bool {
	set := r.Blocks()
	if set[r.Done] {
		return false // the body can reach the exit block without going through the header
	}
	for b := range set {
		if len(b.Succs) == 0 {
			return false
		}
	}
	return true
}

// isModuleCall: the call's static callee is a function of the module under analysis.
func isModuleCall(ci ssa.CallInstruction) bool {
	sc := staticCallee(ci.Common())
	return sc != nil && isModuleFunc(sc)
}

func blockReaches(from, to *ssa.BasicBlock) bool {
	seen := map[*ssa.BasicBlock]bool{}
	var walk func(b *ssa.BasicBlock) bool
	walk = func(b *ssa.BasicBlock) bool {
		for _, s := range b.Succs {
			if s == to {
				return true
			}
			if !seen[s] {
				seen[s] = true
				if walk(s) {
					return true
				}
			}
		}
		return false
	}
	return walk(from)
}

// loopHeaderOf: the header of the innermost natural loop that contains b - the nearest dominator of b
// (b itself included) that b can reach again - or nil when b is not in a loop.
func loopHeaderOf(b *ssa.BasicBlock) *ssa.BasicBlock {
	for d := b; d != nil; d = d.Idom() {
		if blockReaches(b, d) && (d == b || d.Dominates(b)) {
			// d must be a real loop header: one of its predecessors is inside the loop
			for _, p := range d.Preds {
				if d.Dominates(p) {
					return d
				}
			}
		}
	}
	return nil
}

// loopBodyOf: the blocks of the natural loop with header h (h included).
func loopBodyOf(h *ssa.BasicBlock) map[*ssa.BasicBlock]bool {
	set := map[*ssa.BasicBlock]bool{h: true}
	for _, b := range h.Parent().Blocks {
		if b != h && h.Dominates(b) && blockReaches(b, h) {
			set[b] = true
		}
	}
	return set
}
