package main

import (
	"fmt"
	"go/constant"
	"go/token"
	"sort"
	"strings"

	"golang.org/x/tools/go/ssa"
)

// Shared analysis A4: linear effect summaries of small loop-free functions.
//
// Every acyclic path from entry to a return is enumerated; along a path the listed
// memory cells (struct fields addressed through a FieldAddr) are versioned and integer
// arithmetic is normalised into linear forms sum(c_i * atom_i) over the ring Z/2^64
// (conversions between int64/uint64 are transparent, ^x == -x-1). Atoms are provenance
// terms (parameters, map lookups, opaque calls). Nothing is evaluated on concrete values
// and no solver is used: two summaries are equal iff their normal forms are identical.

type Lin map[string]int64

func (l Lin) clone() Lin {
	n := Lin{}
	for k, v := range l {
		n[k] = v
	}
	return n
}

func (l Lin) norm() Lin {
	for k, v := range l {
		if v == 0 {
			delete(l, k)
		}
	}
	return l
}

func (l Lin) String() string {
	l.norm()
	var ks []string
	for k := range l {
		ks = append(ks, k)
	}
	sort.Strings(ks)
	if len(ks) == 0 {
		return "0"
	}
	var sb strings.Builder
	for i, k := range ks {
		c := l[k]
		if i > 0 {
			sb.WriteString(" ")
		}
		if k == "1" {
			sb.WriteString(fmt.Sprintf("%+d", c))
		} else if c == 1 {
			sb.WriteString("+" + k)
		} else if c == -1 {
			sb.WriteString("-" + k)
		} else {
			sb.WriteString(fmt.Sprintf("%+d*%s", c, k))
		}
	}
	return sb.String()
}

func linAtom(a string) Lin { return Lin{a: 1} }
func linConst(c int64) Lin { return Lin{"1": c}.norm() }
func (l Lin) add(o Lin) Lin {
	n := l.clone()
	for k, v := range o {
		n[k] += v
	}
	return n.norm()
}
func (l Lin) sub(o Lin) Lin {
	n := l.clone()
	for k, v := range o {
		n[k] -= v
	}
	return n.norm()
}
func (l Lin) scale(c int64) Lin {
	n := Lin{}
	for k, v := range l {
		n[k] = v * c
	}
	return n.norm()
}
func (l Lin) equal(o Lin) bool { return l.sub(o).String() == "0" }
func (l Lin) isConst() (int64, bool) {
	l.norm()
	if len(l) == 0 {
		return 0, true
	}
	if len(l) == 1 {
		if c, ok := l["1"]; ok {
			return c, true
		}
	}
	return 0, false
}

// PathSummary is the effect of one entry->return path.
type PathSummary struct {
	Blocks []*ssa.BasicBlock
	Conds  []PathCond
	Ret    *ssa.Return
	Mem    map[string]Lin       // final value of tracked cells (key: pointee term string)
	MemSet map[string]ssa.Value // last non-arithmetic value stored into a tracked cell (e.g. a fresh map)
	Events []PathEvent
	val    map[ssa.Value]Lin
}

type PathCond struct {
	Cond *Term
	True bool
	If   *ssa.If
}

// PathEvent: a map update/delete or a call, with linear values of its integer operands.
type PathEvent struct {
	Kind string // "mapset", "mapdel", "call", "store"
	In   ssa.Instruction
	Map  string // map term for mapset/mapdel; callee for call; cell for store
	Key  *Term
	Val  Lin
	Args []Lin
	ArgT []*Term
}

// HasCond reports whether the path took the edge on which pattern pat holds (want=true)
// or fails (want=false).
func (p *PathSummary) HasCond(pat string, want bool) bool {
	for _, c := range p.Conds {
		pol := condPolarity(c.Cond, pat, nil)
		if pol == 0 {
			continue
		}
		holds := (pol > 0) == c.True
		if holds == want {
			return true
		}
	}
	return false
}

func (p *PathSummary) BlockPath() string { return pathString(p.Blocks) }

// enumeratePaths lists all acyclic entry->return paths of fn (nil, false if there is a
// loop or more than max paths).
func enumeratePaths(fn *ssa.Function, max int) ([][]*ssa.BasicBlock, bool) {
	var out [][]*ssa.BasicBlock
	ok := true
	var dfs func(b *ssa.BasicBlock, path []*ssa.BasicBlock, on map[*ssa.BasicBlock]bool)
	dfs = func(b *ssa.BasicBlock, path []*ssa.BasicBlock, on map[*ssa.BasicBlock]bool) {
		if !ok {
			return
		}
		if on[b] {
			ok = false // loop
			return
		}
		on[b] = true
		path = append(path, b)
		if len(b.Succs) == 0 {
			if len(b.Instrs) > 0 && isReturn(b.Instrs[len(b.Instrs)-1]) {
				out = append(out, append([]*ssa.BasicBlock{}, path...))
				if len(out) > max {
					ok = false
				}
			}
		}
		for _, s := range b.Succs {
			dfs(s, path, on)
		}
		delete(on, b)
	}
	dfs(fn.Blocks[0], nil, map[*ssa.BasicBlock]bool{})
	return out, ok
}

// summarize computes path summaries. cells lists the tracked memory cells by pointee
// term string (e.g. "fld[used](p[0])").
func summarize(fn *ssa.Function, tb *TB, cells []string) ([]*PathSummary, error) {
	paths, ok := enumeratePaths(fn, 256)
	if !ok {
		return nil, fmt.Errorf("%s has a loop or too many paths: outside the linear-summary idiom", fname(fn))
	}
	tracked := map[string]bool{}
	for _, c := range cells {
		tracked[c] = true
	}
	var out []*PathSummary
	for _, path := range paths {
		ps := &PathSummary{Blocks: path, Mem: map[string]Lin{}, MemSet: map[string]ssa.Value{}, val: map[ssa.Value]Lin{}}
		for c := range tracked {
			ps.Mem[c] = linAtom(c + "@entry")
		}
		var prev *ssa.BasicBlock
		for bi, b := range path {
			for _, in := range b.Instrs {
				switch x := in.(type) {
				case *ssa.Phi:
					for i, p := range b.Preds {
						if p == prev {
							ps.val[x] = ps.lin(tb, x.Edges[i])
						}
					}
				case *ssa.UnOp:
					if x.Op == token.MUL {
						cell := tb.pointee(x.X).String()
						if _, isA := x.X.(*ssa.Alloc); !isA && tracked[cell] {
							ps.val[x] = ps.Mem[cell].clone()
						}
					}
				case *ssa.Store:
					cell := tb.pointee(x.Addr).String()
					if tracked[cell] {
						ps.Mem[cell] = ps.lin(tb, x.Val)
						ps.MemSet[cell] = x.Val
						ps.Events = append(ps.Events, PathEvent{Kind: "store", In: in, Map: cell, Val: ps.lin(tb, x.Val)})
					}
				case *ssa.MapUpdate:
					ps.Events = append(ps.Events, PathEvent{Kind: "mapset", In: in, Map: tb.T(x.Map).String(), Key: tb.T(x.Key), Val: ps.lin(tb, x.Value)})
				case *ssa.Call:
					n := calleeName(&x.Call)
					if n == "delete" {
						ps.Events = append(ps.Events, PathEvent{Kind: "mapdel", In: in, Map: tb.T(x.Call.Args[0]).String(), Key: tb.T(x.Call.Args[1])})
						continue
					}
					ev := PathEvent{Kind: "call", In: in, Map: n}
					for _, a := range callArgs(&x.Call) {
						ev.Args = append(ev.Args, ps.lin(tb, a))
						ev.ArgT = append(ev.ArgT, tb.T(a))
					}
					ps.Events = append(ps.Events, ev)
				case *ssa.If:
					if bi+1 < len(path) {
						ps.Conds = append(ps.Conds, PathCond{Cond: tb.T(x.Cond), True: b.Succs[0] == path[bi+1], If: x})
					}
				case *ssa.Return:
					ps.Ret = x
				}
			}
			prev = b
		}
		out = append(out, ps)
	}
	return out, nil
}

// lin gives the linear form of an SSA value in the context of the path.
func (ps *PathSummary) lin(tb *TB, v ssa.Value) Lin {
	if l, ok := ps.val[v]; ok {
		return l.clone()
	}
	switch x := v.(type) {
	case *ssa.Const:
		if x.Value != nil && x.Value.Kind() == constant.Int {
			if i, ok := constant.Int64Val(x.Value); ok {
				return linConst(i)
			}
			if u, ok := constant.Uint64Val(x.Value); ok {
				return linConst(int64(u))
			}
		}
	case *ssa.BinOp:
		switch x.Op {
		case token.ADD:
			return ps.lin(tb, x.X).add(ps.lin(tb, x.Y))
		case token.SUB:
			return ps.lin(tb, x.X).sub(ps.lin(tb, x.Y))
		case token.MUL:
			if c, ok := ps.lin(tb, x.X).isConst(); ok {
				return ps.lin(tb, x.Y).scale(c)
			}
			if c, ok := ps.lin(tb, x.Y).isConst(); ok {
				return ps.lin(tb, x.X).scale(c)
			}
		case token.SHL:
			if c, ok := ps.lin(tb, x.Y).isConst(); ok && c >= 0 && c < 63 {
				return ps.lin(tb, x.X).scale(1 << uint(c))
			}
		}
	case *ssa.UnOp:
		switch x.Op {
		case token.SUB:
			return ps.lin(tb, x.X).scale(-1)
		case token.XOR: // ^x == -x - 1
			return ps.lin(tb, x.X).scale(-1).add(linConst(-1))
		}
	case *ssa.Convert:
		// integer conversions of equal width are the identity in Z/2^64
		ts := x.Type().String()
		xs := x.X.Type().String()
		if (ts == "uint64" || ts == "int64") && (xs == "uint64" || xs == "int64") {
			return ps.lin(tb, x.X)
		}
	case *ssa.ChangeType:
		return ps.lin(tb, x.X)
	}
	return linAtom(tb.T(v).String())
}

// RetLin: linear values of the return results (looking through defer spills).
func (ps *PathSummary) RetLin(tb *TB) []Lin {
	if ps.Ret == nil {
		return nil
	}
	var out []Lin
	for _, v := range returnValues(ps.Ret) {
		out = append(out, ps.lin(tb, v))
	}
	return out
}

// Equalities implied by the branch conditions of the path: both x<y and y<x refuted
// (trichotomy), or an eq(x,y) edge taken. Returned as substitutions atom(x) := atom(y).
func (p *PathSummary) Equalities() map[string]string {
	out := map[string]string{}
	type pair struct{ a, b string }
	refuted := map[pair]bool{}
	for _, c := range p.Conds {
		t := c.Cond
		sign := c.True
		for t.Op == "not" {
			t = t.Args[0]
			sign = !sign
		}
		if len(t.Args) != 2 {
			continue
		}
		a, b := t.Args[0].String(), t.Args[1].String()
		switch t.Op {
		case "lt":
			if !sign {
				refuted[pair{a, b}] = true
			}
		case "le": // le(a,b) true  <=> not lt(b,a)
			if sign {
				refuted[pair{b, a}] = true
			}
		case "eq":
			if sign {
				out[a] = b
			}
		case "ne":
			if !sign {
				out[a] = b
			}
		}
	}
	for pr := range refuted {
		if refuted[pair{pr.b, pr.a}] && pr.a < pr.b {
			out[pr.a] = pr.b
		}
	}
	return out
}

// subst replaces atoms according to eq.
func (l Lin) subst(eq map[string]string) Lin {
	n := Lin{}
	for k, v := range l {
		if r, ok := eq[k]; ok {
			n[r] += v
		} else {
			n[k] += v
		}
	}
	return n.norm()
}
