package main

import (
	"bytes"
	"fmt"
	"go/ast"
	"go/parser"
	"go/printer"
	"go/token"
	"go/types"
	"os"
	"path/filepath"
	"sort"
	"strings"

	"golang.org/x/tools/go/ast/astutil"
	"golang.org/x/tools/go/packages"
)

// Source normalisation ("de-extraction"): a refactoring that moves a block of an anchor
// function verbatim into a NEW unexported helper changes no behaviour but hides the block
// from intraprocedural rules. Before the rules run, every function that is not in the
// frozen list of functions known on the reference tree (checker/known_funcs.txt) and
// whose every use is a plain call in a simple statement is substituted back into its
// callers on a scratch copy of /repo:
//   - no defer/recover in the helper: parameters are bound in a new block, the body is
//     spliced in, `return` becomes assignment to result temporaries + `break` out of a
//     one-iteration labelled loop (or stays a `return` at a tail-call site);
//   - with defer/recover: the call becomes an immediately invoked function literal.
// The result is type-checked again; if anything fails, the original tree is analysed
// unchanged. On the reference tree nothing is unknown, so nothing is rewritten. The
// transformation is semantics-preserving, so the deciding step still decides /repo's
// current source; reports say which helpers were substituted.

var libDirs = map[string]string{"ristretto": ".", "z": "z", "simd": "z/simd"}

func funcKey(pkg string, fd *ast.FuncDecl) string {
	recv := ""
	if fd.Recv != nil && len(fd.Recv.List) == 1 {
		t := fd.Recv.List[0].Type
		for {
			switch x := t.(type) {
			case *ast.StarExpr:
				t = x.X
				continue
			case *ast.IndexExpr:
				t = x.X
				continue
			case *ast.IndexListExpr:
				t = x.X
				continue
			case *ast.ParenExpr:
				t = x.X
				continue
			}
			break
		}
		if id, ok := t.(*ast.Ident); ok {
			recv = id.Name
		}
	}
	return pkg + ":" + recv + "." + fd.Name.Name
}

// dumpFuncs lists the function keys of the library packages (all build variants).
func dumpFuncs(repo string) ([]string, error) {
	var out []string
	fset := token.NewFileSet()
	for pkg, dir := range libDirs {
		ents, err := os.ReadDir(filepath.Join(repo, dir))
		if err != nil {
			return nil, err
		}
		for _, e := range ents {
			n := e.Name()
			if e.IsDir() || !strings.HasSuffix(n, ".go") || strings.HasSuffix(n, "_test.go") {
				continue
			}
			f, err := parser.ParseFile(fset, filepath.Join(repo, dir, n), nil, parser.SkipObjectResolution)
			if err != nil {
				return nil, err
			}
			if f.Name.Name == "main" {
				continue
			}
			for _, d := range f.Decls {
				if fd, ok := d.(*ast.FuncDecl); ok {
					out = append(out, funcKey(pkg, fd))
				}
			}
		}
	}
	sort.Strings(out)
	return out, nil
}

func loadKnownFuncs(verif string) (map[string]bool, error) {
	data, err := os.ReadFile(filepath.Join(verif, "checker", "known_funcs.txt"))
	if err != nil {
		return nil, err
	}
	m := map[string]bool{}
	for _, l := range strings.Split(string(data), "\n") {
		if l = strings.TrimSpace(l); l != "" {
			m[l] = true
		}
	}
	return m, nil
}

type inlineSite struct {
	list  *[]ast.Stmt
	index int
	call  *ast.CallExpr
	kind  string // expr | assign | return | ifinit | hoist
	fn    *ast.FuncDecl
}

// normalizeRepo returns the directory to analyse (repo itself when nothing was rewritten)
// and the helpers substituted.
func normalizeRepo(repo, verif string) (string, []string, func(), error) {
	noop := func() {}
	known, err := loadKnownFuncs(verif)
	if err != nil {
		return repo, nil, noop, nil // no list: analyse as is
	}
	// cheap pre-check on the syntax alone: is there any function the reference tree did not have?
	if fs, err := dumpFuncs(repo); err == nil {
		unknown := false
		for _, f := range fs {
			if !known[f] {
				unknown = true
			}
		}
		if !unknown {
			return repo, nil, noop, nil
		}
	}
	cur := repo
	var inlined []string
	cleanup := noop
	for round := 0; round < 3; round++ {
		next, done, err := normalizeOnce(cur, known, round)
		if err != nil {
			normDebug("round %d failed: %v", round, err)
		}
		if err != nil || next == "" {
			break
		}
		// verify that the rewritten tree type-checks
		if !typeChecks(next) {
			normDebug("the rewritten tree does not type-check; analysing the original tree (kept at %s when debugging)", next)
			if os.Getenv("VERIF_NORM_DEBUG") == "" {
				os.RemoveAll(next)
			}
			break
		}
		if cur != repo {
			os.RemoveAll(cur)
		}
		cur = next
		inlined = append(inlined, done...)
		dir := cur
		cleanup = func() { os.RemoveAll(dir) }
	}
	return cur, inlined, cleanup, nil
}

func typeChecks(dir string) bool {
	cfg := &packages.Config{Mode: packages.NeedTypes | packages.NeedSyntax | packages.NeedTypesInfo | packages.NeedName | packages.NeedImports | packages.NeedDeps | packages.NeedFiles | packages.NeedCompiledGoFiles,
		Dir: dir, Env: append(os.Environ(), "GOOS=linux", "GOARCH=amd64", "CGO_ENABLED=0", "GOWORK=off")}
	pkgs, err := packages.Load(cfg, "./...")
	if err != nil || len(pkgs) == 0 {
		return false
	}
	ok := true
	packages.Visit(pkgs, nil, func(p *packages.Package) {
		if len(p.Errors) > 0 {
			ok = false
		}
	})
	return ok
}

func normalizeOnce(repo string, known map[string]bool, round int) (string, []string, error) {
	cfg := &packages.Config{Mode: packages.NeedTypes | packages.NeedSyntax | packages.NeedTypesInfo | packages.NeedName | packages.NeedImports | packages.NeedDeps | packages.NeedFiles | packages.NeedCompiledGoFiles,
		Dir: repo, Env: append(os.Environ(), "GOOS=linux", "GOARCH=amd64", "CGO_ENABLED=0", "GOWORK=off")}
	pkgs, err := packages.Load(cfg, "./...")
	if err != nil {
		return "", nil, err
	}
	changedFiles := map[string]*ast.File{}
	var fsetAll *token.FileSet
	var done []string
	counter := 0
	for _, p := range pkgs {
		name := ""
		switch p.PkgPath {
		case modPath:
			name = "ristretto"
		case modPath + "/z":
			name = "z"
		case modPath + "/z/simd":
			name = "simd"
		default:
			continue
		}
		if len(p.Errors) > 0 {
			return "", nil, fmt.Errorf("type errors")
		}
		fsetAll = p.Fset
		// unknown helpers
		helpers := map[*types.Func]*ast.FuncDecl{}
		declFile := map[*ast.FuncDecl]*ast.File{}
		for _, f := range p.Syntax {
			for _, d := range f.Decls {
				fd, ok := d.(*ast.FuncDecl)
				if !ok || fd.Body == nil || known[funcKey(name, fd)] || fd.Name.IsExported() && fd.Recv == nil {
					continue
				}
				if fd.Name.IsExported() {
					continue // new exported methods are API, not extracted helpers
				}
				if obj, ok := p.TypesInfo.Defs[fd.Name].(*types.Func); ok {
					helpers[obj] = fd
					declFile[fd] = f
				}
			}
		}
		if len(helpers) == 0 {
			continue
		}
		// eligibility
		for obj, fd := range helpers {
			if !helperEligible(p, obj, fd, helpers) {
				normDebug("helper %s is not eligible (variadic, own type parameters, recursive, goto or unnamed parameters)", obj.Name())
				delete(helpers, obj)
			}
		}
		// expression helpers (`func h(a, b) T { return <expr> }` called with plain local names): the call is
		// replaced by the expression itself, so that a condition like `if item.expired()` is again the
		// short-circuit test the rules read. Done in a round of its own.
		if n, names := substituteExprHelpers(p, name, helpers, declFile, changedFiles); n > 0 {
			done = append(done, names...)
			continue
		}
		// all uses must be supported call sites
		sites := map[*types.Func][]inlineSite{}
		bad := map[*types.Func]bool{}
		used := map[*ast.Ident]bool{}
		for _, f := range p.Syntax {
			for _, d := range f.Decls {
				fd, ok := d.(*ast.FuncDecl)
				if !ok || fd.Body == nil {
					continue
				}
				collectSites(p, fd, fd.Body, helpers, sites, used)
			}
		}
		for id, obj := range p.TypesInfo.Uses {
			if fo, ok := obj.(*types.Func); ok && helpers[fo.Origin()] != nil && !used[id] {
				bad[fo.Origin()] = true // referenced other than as a supported call
				normDebug("helper %s is referenced other than as a supported call at %s", fo.Name(), p.Fset.Position(id.Pos()))
			}
		}
		// a helper that calls another unknown helper waits for the next round
		for obj, fd := range helpers {
			ast.Inspect(fd.Body, func(n ast.Node) bool {
				if id, ok := n.(*ast.Ident); ok {
					if fo, ok := p.TypesInfo.Uses[id].(*types.Func); ok && helpers[fo.Origin()] != nil && fo.Origin() != obj {
						bad[obj] = true
					}
				}
				return true
			})
		}
		type job struct {
			obj  *types.Func
			site inlineSite
		}
		var jobs []job
		for obj, ss := range sites {
			if bad[obj] || helpers[obj] == nil || len(ss) == 0 {
				continue
			}
			okAll := true
			for _, s := range ss {
				if !sameTypeArgs(p, obj, s.call) {
					okAll = false
					normDebug("helper %s is generic and instantiated with other type arguments than same-named type parameters at %s", obj.Name(), p.Fset.Position(s.call.Pos()))
				}
				if !shadowSafe(p, helpers[obj], s.call) {
					okAll = false
					normDebug("helper %s: a name it uses means something else at the call site %s", obj.Name(), p.Fset.Position(s.call.Pos()))
				}
			}
			if !okAll {
				continue
			}
			for _, s := range ss {
				jobs = append(jobs, job{obj, s})
			}
		}
		if len(jobs) == 0 {
			continue
		}
		// apply from the end of each list so that indexes stay valid
		sort.Slice(jobs, func(i, j int) bool {
			if jobs[i].site.list != jobs[j].site.list {
				return fmt.Sprintf("%p", jobs[i].site.list) < fmt.Sprintf("%p", jobs[j].site.list)
			}
			return jobs[i].site.index > jobs[j].site.index
		})
		doneHere := map[*types.Func]bool{}
		for _, jb := range jobs {
			counter++
			repl, err := inlineAt(p, helpers[jb.obj], jb.obj, jb.site, counter+round*1000)
			if err != nil {
				return "", nil, err
			}
			l := *jb.site.list
			nl := append(append(append([]ast.Stmt{}, l[:jb.site.index]...), repl...), l[jb.site.index+1:]...)
			*jb.site.list = nl
			doneHere[jb.obj] = true
			for _, f := range p.Syntax {
				if f.Pos() <= jb.site.fn.Pos() && jb.site.fn.End() <= f.End() {
					changedFiles[p.Fset.Position(f.Pos()).Filename] = f
				}
			}
		}
		// drop the helper declarations
		for obj := range doneHere {
			fd := helpers[obj]
			f := declFile[fd]
			var nd []ast.Decl
			for _, d := range f.Decls {
				if d != ast.Decl(fd) {
					nd = append(nd, d)
				}
			}
			f.Decls = nd
			changedFiles[p.Fset.Position(f.Pos()).Filename] = f
			done = append(done, funcKey(name, fd))
		}
	}
	if len(changedFiles) == 0 {
		return "", nil, nil
	}
	tmp, err := os.MkdirTemp("", "vnorm.")
	if err != nil {
		return "", nil, err
	}
	dst := filepath.Join(tmp, "repo")
	if err := copyTree(repo, dst); err != nil {
		os.RemoveAll(tmp)
		return "", nil, err
	}
	for fname, f := range changedFiles {
		rel, err := filepath.Rel(repo, fname)
		if err != nil {
			continue
		}
		f.Comments = nil // positions of comments no longer match
		var buf bytes.Buffer
		if err := (&printer.Config{Mode: printer.UseSpaces | printer.TabIndent, Tabwidth: 8}).Fprint(&buf, fsetAll, f); err != nil {
			os.RemoveAll(tmp)
			return "", nil, err
		}
		// build constraints live in comments: keep the original header lines up to the package clause
		orig, _ := os.ReadFile(fname)
		header := ""
		for _, l := range strings.Split(string(orig), "\n") {
			if strings.HasPrefix(l, "package ") {
				break
			}
			if strings.HasPrefix(l, "//go:build") || strings.HasPrefix(l, "// +build") {
				header += l + "\n"
			}
		}
		if header != "" {
			header += "\n"
		}
		if err := os.WriteFile(filepath.Join(dst, rel), append([]byte(header), buf.Bytes()...), 0o644); err != nil {
			os.RemoveAll(tmp)
			return "", nil, err
		}
	}
	sort.Strings(done)
	return dst, done, nil
}

func copyTree(src, dst string) error {
	return filepath.Walk(src, func(path string, info os.FileInfo, err error) error {
		if err != nil {
			return err
		}
		rel, _ := filepath.Rel(src, path)
		if rel == ".git" || strings.HasPrefix(rel, ".git"+string(filepath.Separator)) {
			if info.IsDir() {
				return filepath.SkipDir
			}
			return nil
		}
		target := filepath.Join(dst, rel)
		if info.IsDir() {
			return os.MkdirAll(target, 0o755)
		}
		if !info.Mode().IsRegular() {
			return nil
		}
		data, err := os.ReadFile(path)
		if err != nil {
			return err
		}
		return os.WriteFile(target, data, 0o644)
	})
}

func helperEligible(p *packages.Package, obj *types.Func, fd *ast.FuncDecl, helpers map[*types.Func]*ast.FuncDecl) bool {
	sig := obj.Type().(*types.Signature)
	if sig.Variadic() {
		return false
	}
	ok := true
	ast.Inspect(fd.Body, func(n ast.Node) bool {
		switch x := n.(type) {
		case *ast.Ident:
			if fo, isF := p.TypesInfo.Uses[x].(*types.Func); isF && fo.Origin() == obj {
				ok = false // recursive
			}
		case *ast.BranchStmt:
			if x.Tok == token.GOTO {
				ok = false
			}
		}
		return true
	})
	// unnamed parameters cannot be bound
	for _, f := range fd.Type.Params.List {
		if len(f.Names) == 0 {
			ok = false
		}
	}
	return ok
}

func hasDeferOrRecover(fd *ast.FuncDecl) bool {
	found := false
	ast.Inspect(fd.Body, func(n ast.Node) bool {
		switch x := n.(type) {
		case *ast.FuncLit:
			return false
		case *ast.DeferStmt:
			found = true
		case *ast.CallExpr:
			if id, ok := x.Fun.(*ast.Ident); ok && id.Name == "recover" {
				found = true
			}
		}
		return true
	})
	return found
}

// collectSites finds supported call sites of helpers inside the statement lists of body.
func collectSites(p *packages.Package, fn *ast.FuncDecl, body *ast.BlockStmt, helpers map[*types.Func]*ast.FuncDecl, sites map[*types.Func][]inlineSite, used map[*ast.Ident]bool) {
	var visitList func(list *[]ast.Stmt)
	calleeOf := func(c *ast.CallExpr) (*types.Func, *ast.Ident) {
		var id *ast.Ident
		fun := c.Fun
		switch x := fun.(type) {
		case *ast.IndexExpr:
			fun = x.X
		case *ast.IndexListExpr:
			fun = x.X
		}
		switch f := fun.(type) {
		case *ast.Ident:
			id = f
		case *ast.SelectorExpr:
			id = f.Sel
		}
		if id == nil {
			return nil, nil
		}
		if fo, ok := p.TypesInfo.Uses[id].(*types.Func); ok && helpers[fo.Origin()] != nil {
			return fo.Origin(), id
		}
		return nil, nil
	}
	// firstHelperCall: the first call/receive in EVALUATION order among the expressions, if it
	// is a call of a helper (operands and arguments are evaluated before the call they belong to)
	firstHelperCall := func(exprs ...ast.Expr) *ast.CallExpr {
		var first ast.Node
		var res *ast.CallExpr
		var walk func(e ast.Node)
		walk = func(e ast.Node) {
			if e == nil || first != nil {
				return
			}
			switch x := e.(type) {
			case *ast.FuncLit:
				return
			case *ast.CallExpr:
				if tv, ok := p.TypesInfo.Types[x.Fun]; ok && tv.IsType() {
					for _, a := range x.Args {
						walk(a)
					}
					return
				}
				if fo, _ := calleeOf(x); fo != nil {
					// the helper's own arguments are evaluated inside the hoisted binding, in order
					if sel, ok := x.Fun.(*ast.SelectorExpr); ok {
						walk(sel.X)
					}
					if first == nil {
						first, res = x, x
					}
					return
				}
				walk(x.Fun)
				for _, a := range x.Args {
					walk(a)
				}
				if first != nil {
					return
				}
				if id, ok := x.Fun.(*ast.Ident); ok && (id.Name == "len" || id.Name == "cap") {
					if _, isB := p.TypesInfo.Uses[id].(*types.Builtin); isB {
						return
					}
				}
				first = x
				if fo, _ := calleeOf(x); fo != nil {
					res = x
				}
				return
			case *ast.UnaryExpr:
				walk(x.X)
				if first == nil && x.Op == token.ARROW {
					first = x
				}
				return
			case *ast.BinaryExpr:
				walk(x.X)
				if x.Op == token.LAND || x.Op == token.LOR {
					// the right operand is evaluated conditionally: a helper call there cannot be hoisted
					if first == nil {
						blocked := false
						ast.Inspect(x.Y, func(n ast.Node) bool {
							if c, ok := n.(*ast.CallExpr); ok {
								if fo, _ := calleeOf(c); fo != nil {
									blocked = true
								}
							}
							return true
						})
						if blocked {
							first = x
						}
					}
					return
				}
				walk(x.Y)
				return
			}
			// generic: children in source order
			ast.Inspect(e, func(n ast.Node) bool {
				if n == nil || n == e {
					return true
				}
				if first != nil {
					return false
				}
				if ex, ok := n.(ast.Expr); ok {
					walk(ex)
					return false
				}
				return true
			})
		}
		for _, e := range exprs {
			if e != nil {
				walk(e)
			}
		}
		return res
	}
	visitStmt := func(list *[]ast.Stmt, i int) {
		s := (*list)[i]
		add := func(c *ast.CallExpr, kind string) {
			fo, id := calleeOf(c)
			if fo == nil {
				return
			}
			used[id] = true
			sites[fo] = append(sites[fo], inlineSite{list: list, index: i, call: c, kind: kind, fn: fn})
		}
		switch x := s.(type) {
		case *ast.ExprStmt:
			if c, ok := x.X.(*ast.CallExpr); ok {
				if fo, _ := calleeOf(c); fo != nil {
					add(c, "expr")
					return
				}
			}
			if c := firstHelperCall(x.X); c != nil {
				add(c, "hoist")
			}
		case *ast.AssignStmt:
			if len(x.Rhs) == 1 {
				if c, ok := x.Rhs[0].(*ast.CallExpr); ok {
					if fo, _ := calleeOf(c); fo != nil && firstHelperCall(x.Lhs...) == nil {
						add(c, "assign")
						return
					}
				}
			}
			if c := firstHelperCall(append(append([]ast.Expr{}, x.Lhs...), x.Rhs...)...); c != nil {
				add(c, "hoist")
			}
		case *ast.ReturnStmt:
			if len(x.Results) == 1 {
				if c, ok := x.Results[0].(*ast.CallExpr); ok {
					if fo, _ := calleeOf(c); fo != nil {
						add(c, "return")
						return
					}
				}
			}
			if c := firstHelperCall(x.Results...); c != nil {
				add(c, "hoist")
			}
		case *ast.IfStmt:
			if x.Init != nil {
				if as, ok := x.Init.(*ast.AssignStmt); ok && len(as.Rhs) == 1 {
					if c, ok := as.Rhs[0].(*ast.CallExpr); ok {
						if fo, _ := calleeOf(c); fo != nil {
							add(c, "ifinit")
						}
					}
				}
			} else if c := firstHelperCall(x.Cond); c != nil {
				add(c, "hoist")
			}
		case *ast.IncDecStmt:
			if c := firstHelperCall(x.X); c != nil {
				add(c, "hoist")
			}
		case *ast.SendStmt:
			if c := firstHelperCall(x.Chan, x.Value); c != nil {
				add(c, "hoist")
			}
		}
	}
	visitList = func(list *[]ast.Stmt) {
		for i := range *list {
			visitStmt(list, i)
			// recurse into nested lists
			ast.Inspect((*list)[i], func(n ast.Node) bool {
				switch x := n.(type) {
				case *ast.BlockStmt:
					if n != ast.Node((*list)[i]) || true {
						visitList(&x.List)
						return false
					}
				case *ast.CaseClause:
					visitList(&x.Body)
					return false
				case *ast.CommClause:
					visitList(&x.Body)
					return false
				}
				return true
			})
		}
	}
	visitList(&body.List)
}

// shadowSafe: the package-level and universe names the helper's body uses must mean the
// same thing at the call site.
func shadowSafe(p *packages.Package, fd *ast.FuncDecl, call *ast.CallExpr) bool {
	scope := p.Types.Scope().Innermost(call.Pos())
	if scope == nil {
		return false
	}
	ok := true
	ast.Inspect(fd.Body, func(n ast.Node) bool {
		id, isID := n.(*ast.Ident)
		if !isID {
			return true
		}
		obj := p.TypesInfo.Uses[id]
		if obj == nil {
			return true
		}
		par := obj.Parent()
		if par == p.Types.Scope() || par == types.Universe || obj.Pkg() == nil {
			if _, o2 := scope.LookupParent(id.Name, call.Pos()); o2 != obj {
				ok = false
			}
		}
		if pn, isPkg := obj.(*types.PkgName); isPkg {
			if _, o2 := scope.LookupParent(id.Name, call.Pos()); o2 != types.Object(pn) {
				ok = false
			}
		}
		return true
	})
	return ok
}

func typeStr(p *packages.Package, t types.Type) string {
	return types.TypeString(t, func(q *types.Package) string {
		if q == p.Types {
			return ""
		}
		return q.Name()
	})
}

func exprSrc(fset *token.FileSet, e ast.Node) string {
	var buf bytes.Buffer
	printer.Fprint(&buf, fset, e)
	return buf.String()
}

// inlineAt builds the replacement statements for one call site.
func inlineAt(p *packages.Package, fd *ast.FuncDecl, obj *types.Func, site inlineSite, n int) ([]ast.Stmt, error) {
	fset := p.Fset
	sig := obj.Type().(*types.Signature)
	stmt := (*site.list)[site.index]
	// parameter bindings
	var names, args []string
	if fd.Recv != nil && len(fd.Recv.List) == 1 && len(fd.Recv.List[0].Names) == 1 && fd.Recv.List[0].Names[0].Name != "_" {
		sel, ok := site.call.Fun.(*ast.SelectorExpr)
		if !ok {
			return nil, fmt.Errorf("method call without selector")
		}
		recv := exprSrc(fset, sel.X)
		// pointer receiver called on an addressable value / value receiver on pointer
		rt := sig.Recv().Type()
		if tv, ok := p.TypesInfo.Types[sel.X]; ok {
			_, wantPtr := rt.(*types.Pointer)
			_, havePtr := tv.Type.Underlying().(*types.Pointer)
			if wantPtr && !havePtr {
				recv = "&" + recv
			} else if !wantPtr && havePtr {
				recv = "*" + recv
			}
		}
		names = append(names, fd.Recv.List[0].Names[0].Name)
		args = append(args, recv)
	}
	ai := 0
	for _, f := range fd.Type.Params.List {
		for _, nm := range f.Names {
			if ai >= len(site.call.Args) {
				return nil, fmt.Errorf("argument count")
			}
			names = append(names, nm.Name)
			args = append(args, exprSrc(fset, site.call.Args[ai]))
			ai++
		}
	}
	var bind string
	var keepNames, keepArgs []string
	for i, nm := range names {
		if nm == "_" {
			keepNames = append(keepNames, "_")
		} else {
			keepNames = append(keepNames, nm)
		}
		keepArgs = append(keepArgs, args[i])
	}
	if len(keepNames) > 0 {
		allBlank := true
		for _, nm := range keepNames {
			if nm != "_" {
				allBlank = false
			}
		}
		op := ":="
		if allBlank {
			op = "="
		}
		bind = strings.Join(keepNames, ", ") + " " + op + " " + strings.Join(keepArgs, ", ") + "\n"
		for _, nm := range keepNames {
			if nm != "_" {
				bind += "_ = " + nm + "\n"
			}
		}
	}
	body := exprSrc(fset, fd.Body) // "{ ... }"
	nres := sig.Results().Len()
	var rtemps, rtypes []string
	for i := 0; i < nres; i++ {
		rtemps = append(rtemps, fmt.Sprintf("vInl%dr%d", n, i))
		rtypes = append(rtypes, typeStr(p, sig.Results().At(i).Type()))
	}
	// named results become locals of the spliced block
	var namedDecl string
	var resNames []string
	if fd.Type.Results != nil {
		for _, f := range fd.Type.Results.List {
			for _, nm := range f.Names {
				resNames = append(resNames, nm.Name)
			}
		}
	}
	if len(resNames) == nres && nres > 0 {
		for i, nm := range resNames {
			if nm != "_" {
				namedDecl += fmt.Sprintf("var %s %s\n_ = %s\n", nm, rtypes[i], nm)
			}
		}
	}
	label := fmt.Sprintf("lInl%d", n)
	once := fmt.Sprintf("vInl%donce", n)

	var src strings.Builder
	useIIFE := hasDeferOrRecover(fd)
	if useIIFE {
		// immediately invoked function literal with the same result list
		res := ""
		if nres > 0 {
			if len(resNames) == nres {
				var parts []string
				for i, nm := range resNames {
					parts = append(parts, nm+" "+rtypes[i])
				}
				res = "(" + strings.Join(parts, ", ") + ")"
			} else {
				res = "(" + strings.Join(rtypes, ", ") + ")"
			}
		}
		lit := "func() " + res + " {\n" + bind + strings.TrimSuffix(strings.TrimPrefix(body, "{"), "}") + "\n}()"
		return rebuildWithExpr(p, site, stmt, lit, nres)
	}
	if site.kind == "return" {
		// tail call: returns of the helper are returns of the caller
		src.WriteString("{\n" + bind + namedDecl + strings.TrimSuffix(strings.TrimPrefix(body, "{"), "}") + "\n}\n")
		stmts, err := parseStmts(src.String())
		if err != nil {
			return nil, err
		}
		if len(resNames) == nres && nres > 0 {
			rewriteBareReturns(stmts, resNames)
		}
		// a helper whose body can fall off the end cannot be in return position (it has results, so it cannot)
		return stmts, nil
	}
	for i := range rtemps {
		src.WriteString(fmt.Sprintf("var %s %s\n", rtemps[i], rtypes[i]))
	}
	src.WriteString("{\n" + bind + namedDecl)
	_ = once
	// a labelled switch with only a default clause: `break label` leaves it, there is no loop
	// condition and therefore no spurious path on which the results keep their zero value
	if hasReturn(fd) {
		src.WriteString(fmt.Sprintf("%s:\nswitch {\ndefault:\n", label))
		src.WriteString(strings.TrimSuffix(strings.TrimPrefix(body, "{"), "}"))
		src.WriteString("\n}\n}\n")
	} else {
		src.WriteString(strings.TrimSuffix(strings.TrimPrefix(body, "{"), "}"))
		src.WriteString("\n}\n")
	}
	stmts, err := parseStmts(src.String())
	if err != nil {
		return nil, err
	}
	rewriteReturns(stmts, rtemps, resNames, label)
	// rebuild the original statement with the call replaced by the temporaries
	tail, err := rebuildWithTemps(p, site, stmt, rtemps)
	if err != nil {
		return nil, err
	}
	return append(stmts, tail...), nil
}

func parseStmts(src string) ([]ast.Stmt, error) {
	f, err := parser.ParseFile(token.NewFileSet(), "", "package p\nfunc _() {\n"+src+"\n}", parser.SkipObjectResolution)
	if err != nil {
		return nil, fmt.Errorf("normalise: cannot parse spliced code: %v\n%s", err, src)
	}
	fd := f.Decls[0].(*ast.FuncDecl)
	clearPos(fd.Body)
	return fd.Body.List, nil
}

// clearPos is a no-op placeholder: go/printer handles position-less nodes.
func clearPos(n ast.Node) {}

// rewriteReturns turns `return a, b` (outside function literals) into assignments to the
// result temporaries followed by a break out of the one-iteration loop.
func rewriteReturns(stmts []ast.Stmt, temps, resNames []string, label string) {
	var rewriteList func(list []ast.Stmt) []ast.Stmt
	var rewriteStmt func(s ast.Stmt) ast.Stmt
	mkBreak := func() ast.Stmt { return &ast.BranchStmt{Tok: token.BREAK, Label: ast.NewIdent(label)} }
	rewriteStmt = func(s ast.Stmt) ast.Stmt {
		switch x := s.(type) {
		case *ast.ReturnStmt:
			var out []ast.Stmt
			if len(temps) > 0 {
				var lhs, rhs []ast.Expr
				for _, t := range temps {
					lhs = append(lhs, ast.NewIdent(t))
				}
				if len(x.Results) == 0 && len(resNames) == len(temps) {
					for _, nm := range resNames {
						rhs = append(rhs, ast.NewIdent(nm))
					}
				} else {
					rhs = x.Results
				}
				out = append(out, &ast.AssignStmt{Lhs: lhs, Tok: token.ASSIGN, Rhs: rhs})
			}
			out = append(out, mkBreak())
			return &ast.BlockStmt{List: out}
		case *ast.BlockStmt:
			x.List = rewriteList(x.List)
		case *ast.IfStmt:
			x.Body.List = rewriteList(x.Body.List)
			if x.Else != nil {
				x.Else = rewriteStmt(x.Else)
			}
		case *ast.ForStmt:
			x.Body.List = rewriteList(x.Body.List)
		case *ast.RangeStmt:
			x.Body.List = rewriteList(x.Body.List)
		case *ast.SwitchStmt:
			x.Body.List = rewriteList(x.Body.List)
		case *ast.TypeSwitchStmt:
			x.Body.List = rewriteList(x.Body.List)
		case *ast.SelectStmt:
			x.Body.List = rewriteList(x.Body.List)
		case *ast.CaseClause:
			x.Body = rewriteList(x.Body)
		case *ast.CommClause:
			x.Body = rewriteList(x.Body)
		case *ast.LabeledStmt:
			x.Stmt = rewriteStmt(x.Stmt)
		}
		return s
	}
	rewriteList = func(list []ast.Stmt) []ast.Stmt {
		for i := range list {
			list[i] = rewriteStmt(list[i])
		}
		return list
	}
	rewriteList(stmts)
}

func rewriteBareReturns(stmts []ast.Stmt, resNames []string) {
	for _, s := range stmts {
		ast.Inspect(s, func(n ast.Node) bool {
			switch x := n.(type) {
			case *ast.FuncLit:
				return false
			case *ast.ReturnStmt:
				if len(x.Results) == 0 {
					for _, nm := range resNames {
						x.Results = append(x.Results, ast.NewIdent(nm))
					}
				}
			}
			return true
		})
	}
}

// rebuildWithTemps re-creates the statement at the call site with the call expression
// replaced by the result temporaries.
func rebuildWithTemps(p *packages.Package, site inlineSite, stmt ast.Stmt, temps []string) ([]ast.Stmt, error) {
	fset := p.Fset
	repl := strings.Join(temps, ", ")
	switch site.kind {
	case "expr":
		return nil, nil
	case "assign":
		as := stmt.(*ast.AssignStmt)
		var lhs []string
		for _, l := range as.Lhs {
			lhs = append(lhs, exprSrc(fset, l))
		}
		if len(temps) == 0 {
			return nil, fmt.Errorf("assignment from a call without results")
		}
		return parseStmts(strings.Join(lhs, ", ") + " " + as.Tok.String() + " " + repl)
	case "ifinit":
		is := stmt.(*ast.IfStmt)
		as := is.Init.(*ast.AssignStmt)
		var lhs []string
		for _, l := range as.Lhs {
			lhs = append(lhs, exprSrc(fset, l))
		}
		cp := *is
		cp.Init = nil
		src := "{\n" + strings.Join(lhs, ", ") + " " + as.Tok.String() + " " + repl + "\n" + exprSrc(fset, &cp) + "\n}"
		return parseStmts(src)
	case "hoist":
		if len(temps) != 1 {
			return nil, fmt.Errorf("hoisting a call with %d results", len(temps))
		}
		src := exprSrc(fset, stmt)
		callSrc := exprSrc(fset, site.call)
		if strings.Count(src, callSrc) != 1 {
			return nil, fmt.Errorf("call text not unique in statement")
		}
		return parseStmts(strings.Replace(src, callSrc, temps[0], 1))
	}
	return nil, fmt.Errorf("unsupported site kind %s", site.kind)
}

// rebuildWithExpr replaces the call by an expression (function literal call) in place.
func rebuildWithExpr(p *packages.Package, site inlineSite, stmt ast.Stmt, expr string, nres int) ([]ast.Stmt, error) {
	fset := p.Fset
	src := exprSrc(fset, stmt)
	callSrc := exprSrc(fset, site.call)
	if strings.Count(src, callSrc) != 1 {
		return nil, fmt.Errorf("call text not unique in statement")
	}
	return parseStmts(strings.Replace(src, callSrc, expr, 1))
}

func normDebug(format string, args ...any) {
	if os.Getenv("VERIF_NORM_DEBUG") != "" {
		fmt.Fprintf(os.Stderr, "normalise: "+format+"\n", args...)
	}
}

// sameTypeArgs: a generic helper may be substituted only where it is instantiated with the
// caller's type parameters of the same names (so that the names in its body keep their meaning).
func sameTypeArgs(p *packages.Package, obj *types.Func, call *ast.CallExpr) bool {
	sig := obj.Type().(*types.Signature)
	tps := sig.TypeParams()
	if tps == nil || tps.Len() == 0 {
		return true
	}
	var id *ast.Ident
	fun := call.Fun
	for {
		switch x := fun.(type) {
		case *ast.IndexExpr:
			fun = x.X
			continue
		case *ast.IndexListExpr:
			fun = x.X
			continue
		}
		break
	}
	switch f := fun.(type) {
	case *ast.Ident:
		id = f
	case *ast.SelectorExpr:
		id = f.Sel
	}
	if id == nil {
		return false
	}
	inst, ok := p.TypesInfo.Instances[id]
	if !ok || inst.TypeArgs == nil || inst.TypeArgs.Len() != tps.Len() {
		return false
	}
	for i := 0; i < tps.Len(); i++ {
		tp, ok := inst.TypeArgs.At(i).(*types.TypeParam)
		if !ok || tp.Obj().Name() != tps.At(i).Obj().Name() {
			return false
		}
	}
	return true
}

func hasReturn(fd *ast.FuncDecl) bool {
	found := false
	ast.Inspect(fd.Body, func(n ast.Node) bool {
		switch n.(type) {
		case *ast.FuncLit:
			return false
		case *ast.ReturnStmt:
			found = true
		}
		return true
	})
	return found
}

// substituteExprHelpers handles unknown helpers whose body is a single `return <expr>` without
// function literals, composite literals or address-taking, and whose every use is a call with
// arguments (and receiver) that are plain identifiers of local variables, parameters or constants,
// or basic literals. Such a call is replaced by the parenthesised expression with the parameters
// renamed to the arguments: evaluation of a local name is pure, so evaluating it as often as the
// parameter occurs changes nothing.
func substituteExprHelpers(p *packages.Package, pkgName string, helpers map[*types.Func]*ast.FuncDecl, declFile map[*ast.FuncDecl]*ast.File, changedFiles map[string]*ast.File) (int, []string) {
	cand := map[*types.Func]ast.Expr{}
	for obj, fd := range helpers {
		if len(fd.Body.List) != 1 || fd.Type.TypeParams != nil {
			continue
		}
		rs, ok := fd.Body.List[0].(*ast.ReturnStmt)
		if !ok || len(rs.Results) != 1 {
			continue
		}
		good := true
		ast.Inspect(rs.Results[0], func(n ast.Node) bool {
			switch x := n.(type) {
			case *ast.FuncLit, *ast.CompositeLit:
				good = false
			case *ast.UnaryExpr:
				if x.Op == token.AND || x.Op == token.ARROW {
					good = false
				}
			case *ast.Ident:
				if fo, isF := p.TypesInfo.Uses[x].(*types.Func); isF && helpers[fo.Origin()] != nil {
					good = false // calls another unknown helper: later round
				}
			}
			return true
		})
		if good {
			cand[obj] = rs.Results[0]
		}
	}
	if len(cand) == 0 {
		return 0, nil
	}
	simpleArg := func(e ast.Expr) bool {
		switch x := e.(type) {
		case *ast.BasicLit:
			return true
		case *ast.Ident:
			switch o := p.TypesInfo.Uses[x].(type) {
			case *types.Const, *types.Nil:
				return true
			case *types.Var:
				return !o.IsField() && o.Parent() != nil && o.Parent() != p.Types.Scope() // local variable or parameter
			}
		}
		return false
	}
	calleeOf := func(c *ast.CallExpr) (*types.Func, *ast.Ident) {
		var id *ast.Ident
		switch f := c.Fun.(type) {
		case *ast.Ident:
			id = f
		case *ast.SelectorExpr:
			id = f.Sel
		}
		if id == nil {
			return nil, nil
		}
		if fo, ok := p.TypesInfo.Uses[id].(*types.Func); ok && cand[fo.Origin()] != nil {
			return fo.Origin(), id
		}
		return nil, nil
	}
	// every use must be an eligible call
	usedAsCall := map[*ast.Ident]bool{}
	type site struct {
		call *ast.CallExpr
		obj  *types.Func
	}
	var sitesList []site
	bad := map[*types.Func]bool{}
	for _, f := range p.Syntax {
		ast.Inspect(f, func(n ast.Node) bool {
			c, ok := n.(*ast.CallExpr)
			if !ok {
				return true
			}
			fo, id := calleeOf(c)
			if fo == nil {
				return true
			}
			usedAsCall[id] = true
			fd := helpers[fo]
			okSite := shadowSafe(p, fd, c)
			for _, a := range c.Args {
				if !simpleArg(a) {
					okSite = false
				}
			}
			if fd.Recv != nil {
				sel, isSel := c.Fun.(*ast.SelectorExpr)
				if !isSel || !simpleArg(sel.X) || len(fd.Recv.List) != 1 || len(fd.Recv.List[0].Names) != 1 {
					okSite = false
				} else {
					_, recvPtr := fd.Recv.List[0].Type.(*ast.StarExpr)
					_, argPtr := p.TypesInfo.TypeOf(sel.X).Underlying().(*types.Pointer)
					if recvPtr != argPtr {
						okSite = false
					}
				}
			}
			if !okSite {
				bad[fo] = true
			}
			sitesList = append(sitesList, site{c, fo})
			return true
		})
	}
	for id, obj := range p.TypesInfo.Uses {
		if fo, ok := obj.(*types.Func); ok && cand[fo.Origin()] != nil && !usedAsCall[id] {
			bad[fo.Origin()] = true
		}
	}
	repl := map[*ast.CallExpr]ast.Expr{}
	doneObjs := map[*types.Func]bool{}
	for _, st := range sitesList {
		if bad[st.obj] {
			continue
		}
		fd := helpers[st.obj]
		bind := map[string]string{}
		i := 0
		for _, f := range fd.Type.Params.List {
			for _, nm := range f.Names {
				bind[nm.Name] = exprSrc(p.Fset, st.call.Args[i])
				i++
			}
		}
		if fd.Recv != nil {
			bind[fd.Recv.List[0].Names[0].Name] = exprSrc(p.Fset, st.call.Fun.(*ast.SelectorExpr).X)
		}
		body, err := parser.ParseExpr(exprSrc(p.Fset, cand[st.obj]))
		if err != nil {
			bad[st.obj] = true
			continue
		}
		failed := false
		body = astutil.Apply(body, func(c *astutil.Cursor) bool {
			id, ok := c.Node().(*ast.Ident)
			if !ok {
				return true
			}
			if _, isSel := c.Parent().(*ast.SelectorExpr); isSel && c.Name() == "Sel" {
				return true
			}
			if src, has := bind[id.Name]; has {
				e, err := parser.ParseExpr(src)
				if err != nil {
					failed = true
					return true
				}
				c.Replace(e)
			}
			return true
		}, nil).(ast.Expr)
		if failed {
			bad[st.obj] = true
			continue
		}
		repl[st.call] = &ast.ParenExpr{X: body}
		doneObjs[st.obj] = true
	}
	n := 0
	for _, f := range p.Syntax {
		changed := false
		astutil.Apply(f, func(c *astutil.Cursor) bool {
			if call, ok := c.Node().(*ast.CallExpr); ok {
				if e, has := repl[call]; has {
					if fo, _ := calleeOf(call); fo != nil && !bad[fo] {
						c.Replace(e)
						changed = true
						n++
						return false
					}
				}
			}
			return true
		}, nil)
		if changed {
			changedFiles[p.Fset.Position(f.Pos()).Filename] = f
		}
	}
	var names []string
	for obj := range doneObjs {
		if bad[obj] {
			continue
		}
		fd := helpers[obj]
		f := declFile[fd]
		var nd []ast.Decl
		for _, d := range f.Decls {
			if d != ast.Decl(fd) {
				nd = append(nd, d)
			}
		}
		f.Decls = nd
		changedFiles[p.Fset.Position(f.Pos()).Filename] = f
		names = append(names, funcKey(pkgName, fd))
	}
	return n, names
}
