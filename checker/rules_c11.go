package main

import (
	"fmt"
	"go/token"
	"go/types"
	"strings"

	"golang.org/x/tools/go/ssa"
)

func init() {
	register(&PropCheck{
		ID: "C11",
		Explanation: "Decides the structural conditions of 'z.Buffer returns what was written, in order, and sorts correctly' (thin claim): " +
			"(R-C11-GROWFIRST) in Allocate, AllocateOffset, Write and SliceAllocate the call b.Grow(n) — with n covering exactly the bytes then claimed — dominates every use of b.buf and every advance of b.offset, and the offset advances by that n; " +
			"(R-C11-GROW) in Grow the max-size refusal (maxSz > 0 && offset+n > maxSz ⇒ panic) cuts every path to a normal return and to any change of curSz (including the fits-already return); the no-op return is on offset+n < curSz; on each reallocating path the used prefix b.buf[:offset] is copied into the new storage before Free(b.buf) and before b.buf is re-assigned; every storage handed to b.buf is sized by the updated curSz; " +
			"(R-C11-CODEC) the length prefix is written big-endian into Allocate(w) and read big-endian, and the constant w is the same at all six sites (writeLen, SliceAllocate's extra grow, Slice's offset+w, rawSlice's w+sz, merge's ls[w:]/rs[w:]) and equals the codec width 8; " +
			"(R-C11-ITER) SliceIterate skips only empty slices (continue, never stop), propagates the callback's error and advances with the next offset Slice returns; Slice returns next = −1 exactly when next ≥ offset; " +
			"(R-C11-SORTCOPY) sortSmall copies its scratch back over exactly [start,end) under an assert on the count; merge copies the remaining side when the other is exhausted. " +
			"NOT decided: that sorting yields an ordered permutation, and byte-level contents across the calloc→mmap switch.",
		Run: runC11,
	})
}

func runC11(c *Ctx) {
	L, P := c.L, c.P
	L.Rule("R-C11-GROWFIRST", "Grow(n) dominates every write/claim; offset advances by the same n", 4)
	L.Rule("R-C11-GROW", "max-size refusal first (also before the no-op return); copy-before-free; storage sized by updated curSz; no-op on offset+n < curSz; growth amount floored by n last", 6)
	L.Rule("R-C11-CODEC", "length prefix width agrees at all six sites and equals the big-endian uint64 codec width", 6)
	L.Rule("R-C11-ITER", "SliceIterate skips only empty slices, propagates errors; Slice's next/-1 logic", 3)
	L.Rule("R-C11-MAXSZ", "the limit Grow compares against is the very number given to WithMaxSize (the only writer of maxSz)", 1)
	L.Rule("R-C11-SORTRANGE", "the sorter walks exactly the slices in [start,end): every offset it collects is behind `next < end`; chunks are consecutive offset pairs; sort splits [lo,hi] at mid and merges over offsets[lo]..offsets[hi]", 4)
	L.Rule("R-C11-SORTCOPY", "sortSmall writes back exactly [start,end); merge copies the remainder", 2)

	off := "fld[offset](p[0])"
	buf := "fld[buf](p[0])"

	growFirst := func(name, nTerm string) {
		c.Group("R-C11-GROWFIRST", "Buffer."+name, func() {
			fn := P.Fn("z", "Buffer", name)
			L.Analysed(fname(fn))
			tb := newTB(fn)
			var grow ssa.Instruction
			for _, g := range callsTo(fn, "z.Buffer.Grow") {
				if tb.T(g.Common().Args[0]).String() == "p[0]" && tb.T(g.Common().Args[1]).String() == nTerm {
					grow = g.(ssa.Instruction)
				}
			}
			if grow == nil {
				L.Fail("R-C11-GROWFIRST", "Buffer."+name, "no b.Grow("+nTerm+") before the bytes are claimed: the write can land beyond the allocated storage", fn.Pos())
				return
			}
			touches := func(in ssa.Instruction) bool {
				switch x := in.(type) {
				case *ssa.FieldAddr:
					f := fieldName(x.X.Type(), x.Field)
					return x.X == ssa.Value(fn.Params[0]) && (f == "buf" || f == "offset")
				case *ssa.Call:
					n := calleeName(&x.Call)
					return n == "z.Buffer.Allocate" || n == "z.Buffer.writeLen"
				}
				return false
			}
			bad, _ := reach(entryPos(fn), touches, isInstr(grow), nil)
			if bad != nil {
				L.Fail("R-C11-GROWFIRST", "Buffer."+name, "b.buf / b.offset is used before b.Grow("+nTerm+")", instrPos(bad))
				return
			}
			// offset advance
			okAdv := true
			nAdv := 0
			for _, st := range fieldStoresIn(fn, "Buffer", "offset") {
				nAdv++
				want1 := "add(" + off + ",conv[uint64](" + nTerm + "))"
				want2 := "add(conv[uint64](" + nTerm + ")," + off + ")"
				if v := tb.T(st.Val).String(); v != want1 && v != want2 {
					okAdv = false
					L.Fail("R-C11-GROWFIRST", "Buffer."+name, "offset advances by "+v+", not by the "+nTerm+" bytes that were grown for", st.Pos())
				}
			}
			if name == "SliceAllocate" {
				// delegates: writeLen(sz) then Allocate(sz), in that order, both after Grow
				wl := callsTo(fn, "z.Buffer.writeLen")
				al := callsTo(fn, "z.Buffer.Allocate")
				ok := len(wl) == 1 && len(al) == 1 && tb.T(wl[0].Common().Args[1]).String() == "p[1]" && tb.T(al[0].Common().Args[1]).String() == "p[1]" &&
					instrDominates(wl[0].(ssa.Instruction), al[0].(ssa.Instruction))
				if ok {
					for _, r := range returnsOf(fn) {
						if returnValues(r)[0] != ssa.Value(al[0].(*ssa.Call)) {
							ok = false
						}
					}
				}
				L.Check(ok, "R-C11-GROWFIRST", "Buffer.SliceAllocate", "Grow(8+sz); writeLen(sz); return Allocate(sz)", "SliceAllocate is not Grow(w+sz); writeLen(sz); return Allocate(sz)", fn.Pos())
				return
			}
			if okAdv {
				L.Check(nAdv == 1, "R-C11-GROWFIRST", "Buffer."+name, "Grow("+nTerm+") first; offset += "+nTerm, fmt.Sprintf("%d offset updates", nAdv), grow.Pos())
			}
		})
	}
	growFirst("Allocate", "p[1]")
	growFirst("AllocateOffset", "p[1]")
	growFirst("Write", "call[len](p[1])")
	growFirst("SliceAllocate", "add(c[8],p[1])")
	c.Group("R-C11-GROWFIRST", "Buffer.Allocate#result", func() {
		fn := P.Fn("z", "Buffer", "Allocate")
		tb := newTB(fn)
		ok := false
		for _, r := range returnsOf(fn) {
			t := tb.T(returnValues(r)[0])
			// buf[old offset : int(new offset)] — offsets are unversioned field terms, so check the slice is of b.buf between the offset field values
			if Match("slice("+buf+","+off+",conv[int]("+off+"),_)", t, nil) {
				ok = true
			}
		}
		L.Check(ok, "R-C11-GROWFIRST", "Buffer.Allocate#result", "returns b.buf[offset_before : offset_after]", "Allocate does not return b.buf[old offset : new offset]", fn.Pos())
	})

	// ---- R-C11-GROW
	c.Group("R-C11-GROW", "Buffer.Grow", func() {
		fn := P.Fn("z", "Buffer", "Grow")
		L.Analysed(fname(fn))
		tb := newTB(fn)
		need := "add(conv[int](" + off + "),p[1])"
		noLimit := edgesWhere(fn, tb, "lt(c[0],fld[maxSz](p[0]))", nil, false)
		within := edgesWhere(fn, tb, "lt(fld[maxSz](p[0]),"+need+")", nil, false)
		if len(noLimit) == 0 || len(within) == 0 {
			L.Fail("R-C11-GROW", "Buffer.Grow#maxsize", "no `maxSz > 0 && offset+n > maxSz` refusal: a buffer limited by WithMaxSize grows beyond its limit", fn.Pos())
		} else {
			target := func(in ssa.Instruction) bool {
				if isReturn(in) {
					return true
				}
				if st, ok := in.(*ssa.Store); ok {
					return tb.pointee(st.Addr).String() == "fld[curSz](p[0])"
				}
				return false
			}
			bad, path := reach(entryPos(fn), target, nil, cutSet(noLimit, within))
			if bad != nil {
				what := "a change of curSz"
				if isReturn(bad) {
					what = "a normal return"
				}
				L.Fail("R-C11-GROW", "Buffer.Grow#maxsize", what+" is reachable without the max-size test having passed (block path "+pathString(path)+"): writes that fit the over-allocated capacity but exceed WithMaxSize are accepted", instrPos(bad))
			} else {
				// the exceeding side must panic
				exceed := edgesWhere(fn, tb, "lt(fld[maxSz](p[0]),"+need+")", nil, true)
				okPanic := len(exceed) > 0
				for e := range exceed {
					tgt := e.From.Succs[e.Succ]
					if r, _ := reach(Pos{tgt, 0}, isReturn, isPanic, nil); r != nil {
						okPanic = false
					}
				}
				L.Check(okPanic, "R-C11-GROW", "Buffer.Grow#maxsize", "maxSz > 0 && offset+n > maxSz ⇒ panic, before the no-op return and before any growth", "exceeding the limit does not panic", fn.Pos())
			}
		}
		// no-op return
		fits := edgesWhere(fn, tb, "lt("+need+",fld[curSz](p[0]))", nil, true)
		okNoop := len(fits) > 0
		for e := range fits {
			tgt := e.From.Succs[e.Succ]
			if s, _ := reach(Pos{tgt, 0}, func(in ssa.Instruction) bool { _, isS := in.(*ssa.Store); return isS }, isReturn, nil); s != nil {
				okNoop = false
			}
		}
		// growth only when it does not fit
		grows := edgesWhere(fn, tb, "lt("+need+",fld[curSz](p[0]))", nil, false)
		var curStore *ssa.Store
		for _, st := range fieldStoresIn(fn, "Buffer", "curSz") {
			curStore = st
			if b, _ := reach(entryPos(fn), isInstr(st), nil, cutSet(grows)); b != nil {
				okNoop = false
			}
		}
		L.Check(okNoop && curStore != nil, "R-C11-GROW", "Buffer.Grow#noop", "offset+n < curSz ⇒ return untouched; otherwise grow", "the fits-already test is not `offset+n < curSz` guarding the growth", fn.Pos())
		if curStore == nil {
			return
		}
		// growth amount at least n: curSz += growBy where growBy = max(n, <capped amount>), the floor applied LAST
		// (capping after the floor under-allocates a single request above the cap)
		func() {
			bo, isBin := curStore.Val.(*ssa.BinOp)
			if !isBin || bo.Op != token.ADD {
				L.Undecided("R-C11-GROW", "Buffer.Grow#atleast", "curSz is not updated by an addition: "+tb.T(curStore.Val).String(), curStore.Pos())
				return
			}
			g := bo.Y
			if Match("fld[curSz](p[0])", tb.T(g), nil) {
				g = bo.X
			}
			gt := tb.T(g)
			if gt.Op == "call" && gt.Sym == "max" && strings.Contains(gt.String(), "p[1]") {
				L.Ok("R-C11-GROW", "Buffer.Grow#atleast", "growth amount is max(n, …)", curStore.Pos())
				return
			}
			phi, isPhi := g.(*ssa.Phi)
			if !isPhi || len(phi.Edges) != 2 {
				L.Undecided("R-C11-GROW", "Buffer.Grow#atleast", "growth amount "+gt.String()+" is not of the form `if n > growBy { growBy = n }` applied last", curStore.Pos())
				return
			}
			ni := -1
			for i, e := range phi.Edges {
				if tb.T(e).String() == "p[1]" {
					ni = i
				}
			}
			if ni < 0 {
				L.Fail("R-C11-GROW", "Buffer.Grow#atleast", "the amount added to curSz ("+gt.String()+") is not floored by n as the last step: a request larger than the cap grows the buffer by less than it needs and the following write lands beyond the storage", curStore.Pos())
				return
			}
			oi := 1 - ni
			x := tb.T(phi.Edges[oi]).String()
			pred := phi.Block().Preds[oi]
			iff := lastIf(pred)
			ok := false
			if iff != nil {
				for _, pat := range []string{"lt(" + x + ",p[1])", "le(" + x + ",p[1])"} {
					pol := condPolarity(tb.T(iff.Cond), pat, nil)
					if pol == 0 {
						continue
					}
					falseSucc := 1
					if pol < 0 {
						falseSucc = 0
					}
					if pred.Succs[falseSucc] == phi.Block() {
						ok = true
					}
				}
			}
			L.Check(ok, "R-C11-GROW", "Buffer.Grow#atleast", "curSz += max(n, capped amount): the floor `n > growBy ⇒ growBy = n` is the last adjustment", "the un-floored amount "+x+" reaches `curSz +=` on an edge that does not establish n <= "+x, curStore.Pos())
		}()
		// every storage handed to b.buf is sized by curSz after the update and the prefix is copied first
		for _, st := range fieldStoresIn(fn, "Buffer", "buf") {
			vt := tb.T(st.Val)
			pos := st.Pos()
			switch {
			case Match("call[z.Calloc](fld[curSz](p[0]),_)", vt, nil):
				cons := "Buffer.Grow#calloc"
				call := st.Val.(*ssa.Call)
				okSize := instrDominates(curStore, call)
				var cp *ssa.Call
				for _, ci := range builtinCalls(fn, "copy") {
					if ci.Call.Args[0] == ssa.Value(call) && Match("slice("+buf+",_,"+off+",_)", tb.T(ci.Call.Args[1]), nil) {
						cp = ci
					}
				}
				var free ssa.Instruction
				for _, f := range callsTo(fn, "z.Free") {
					if tb.T(f.Common().Args[0]).String() == buf && f.(ssa.Instruction).Block() == st.Block() {
						free = f.(ssa.Instruction)
					}
				}
				ok := okSize && cp != nil && instrDominates(cp, st) && (free == nil || instrDominates(cp, free)) && (free == nil || instrDominates(free, st))
				L.Check(ok, "R-C11-GROW", cons, "newBuf = Calloc(updated curSz); copy(newBuf, b.buf[:offset]); Free(b.buf); b.buf = newBuf", "calloc growth does not copy b.buf[:offset] into Calloc(curSz) before freeing / re-assigning b.buf", pos)
			case Match("fld[Data](_)", vt, nil):
				// mmap arms: either the auto-mmap switch (OpenMmapFileUsing(file, curSz, true) + copy + Free) or Truncate(int64(curSz))
				inSwitch := false
				for _, o := range callsTo(fn, "z.OpenMmapFileUsing") {
					if o.(ssa.Instruction).Block().Dominates(st.Block()) {
						inSwitch = true
						okSize := tb.T(o.Common().Args[1]).String() == "fld[curSz](p[0])" && instrDominates(curStore, o.(ssa.Instruction))
						var cp *ssa.Call
						for _, ci := range builtinCalls(fn, "copy") {
							if Match("fld[Data](ext[0](call[z.OpenMmapFileUsing]))", tb.T(ci.Call.Args[0]), nil) && Match("slice("+buf+",_,"+off+",_)", tb.T(ci.Call.Args[1]), nil) {
								cp = ci
							}
						}
						okOrder := cp != nil && instrDominates(cp, st)
						for _, f := range callsTo(fn, "z.Free") {
							if f.(ssa.Instruction).Block() == st.Block() && cp != nil && !instrDominates(cp, f.(ssa.Instruction)) {
								okOrder = false
							}
						}
						L.Check(okSize && okOrder, "R-C11-GROW", "Buffer.Grow#automap", "mmap file of the updated curSz; copy(mmap.Data, b.buf[:offset]) before Free(b.buf) and b.buf = mmap.Data", "the calloc→mmap switch does not copy the used prefix into a file of the updated size before releasing the old buffer", pos)
					}
				}
				if !inSwitch {
					okTrunc := false
					for _, t := range callsTo(fn, "z.MmapFile.Truncate") {
						if tb.T(t.Common().Args[1]).String() == "conv[int64](fld[curSz](p[0]))" && instrDominates(curStore, t.(ssa.Instruction)) && t.(ssa.Instruction).Block().Dominates(st.Block()) {
							okTrunc = true
						}
					}
					L.Check(okTrunc, "R-C11-GROW", "Buffer.Grow#truncate", "Truncate(int64(updated curSz)) then b.buf = mmapFile.Data", "mmap growth does not truncate the file to the updated curSz before remapping b.buf", pos)
				}
			default:
				L.Fail("R-C11-GROW", "Buffer.Grow#other", "b.buf is assigned "+vt.String()+", not storage sized by the updated curSz", pos)
			}
		}
	})

	bufferSizeInvRule(c, "R-C11-GROW")

	// ---- R-C11-CODEC
	c.Group("R-C11-CODEC", "prefix width", func() {
		widths := map[string]string{}
		// writeLen: Allocate(w), PutUint64
		{
			fn := P.Fn("z", "Buffer", "writeLen")
			L.Analysed(fname(fn))
			tb := newTB(fn)
			al := callsTo(fn, "z.Buffer.Allocate")
			put := false
			for _, ci := range allCalls(fn) {
				if strings.HasSuffix(calleeName(ci.Common()), "bigEndian.PutUint64") {
					a := ci.Common().Args
					if len(al) == 1 && a[len(a)-2] == ssa.Value(al[0].(*ssa.Call)) && tb.T(a[len(a)-1]).String() == "conv[uint64](p[1])" {
						put = true
					}
				}
			}
			if len(al) == 1 && put {
				widths["writeLen"] = tb.T(al[0].Common().Args[1]).String()
			}
		}
		// SliceAllocate: Grow(w+sz)
		{
			fn := P.Fn("z", "Buffer", "SliceAllocate")
			tb := newTB(fn)
			for _, g := range callsTo(fn, "z.Buffer.Grow") {
				env := Env{}
				if Match("add(?w,p[1])", tb.T(g.Common().Args[1]), env) && env["w"].Op == "c" {
					widths["SliceAllocate"] = env["w"].String()
				}
			}
		}
		// Slice: sz = Uint64(b.buf[offset:]); start = offset + w
		{
			fn := P.Fn("z", "Buffer", "Slice")
			L.Analysed(fname(fn))
			tb := newTB(fn)
			rd := ""
			for _, ci := range allCalls(fn) {
				if strings.HasSuffix(calleeName(ci.Common()), "bigEndian.Uint64") {
					a := ci.Common().Args
					if Match("slice("+buf+",p[1],_,_)", tb.T(a[len(a)-1]), nil) {
						rd = tb.T(ci.(*ssa.Call)).String()
					}
				}
			}
			for _, r := range returnsOf(fn) {
				env := Env{}
				if rd != "" && Match("slice("+buf+",add(?w,p[1]),add(add(?w,p[1]),conv[int]("+rd+")),_)", tb.T(returnValues(r)[0]), env) && env["w"].Op == "c" {
					widths["Slice"] = env["w"].String()
				}
			}
		}
		// rawSlice: buf[:w+int(Uint64(buf))]
		{
			fn := P.Fn("z", "", "rawSlice")
			tb := newTB(fn)
			for _, r := range returnsOf(fn) {
				env := Env{}
				t := tb.T(returnValues(r)[0])
				if Match("slice(p[0],_,add(?w,conv[int](?rd)),_)", t, env) && env["w"].Op == "c" && strings.Contains(env["rd"].String(), "bigEndian.Uint64](") && strings.HasSuffix(env["rd"].String(), "p[0])") {
					widths["rawSlice"] = env["w"].String()
				}
			}
		}
		// merge: less(ls[w:], rs[w:])
		{
			fn := P.Fn("z", "sortHelper", "merge")
			L.Analysed(fname(fn))
			tb := newTB(fn)
			for _, ci := range allCalls(fn) {
				cc := ci.Common()
				if calleeName(cc) != "dyn" || !Match("fld[less](p[0])", tb.T(cc.Value), nil) {
					continue
				}
				e1, e2 := Env{}, Env{}
				if Match("slice(_,?w,_,_)", tb.T(cc.Args[0]), e1) && Match("slice(_,?w,_,_)", tb.T(cc.Args[1]), e2) && e1["w"].Op == "c" {
					widths["merge.left"] = e1["w"].String()
					widths["merge.right"] = e2["w"].String()
				}
			}
		}
		for _, site := range []string{"writeLen", "SliceAllocate", "Slice", "rawSlice", "merge.left", "merge.right"} {
			w, ok := widths[site]
			if !ok {
				L.Fail("R-C11-CODEC", "prefix@"+site, "the length-prefix handling at this site is not of the recognised shape (big-endian uint64 prefix of constant width)", 0)
				continue
			}
			L.Check(w == "c[8]", "R-C11-CODEC", "prefix@"+site, "width 8 = big-endian uint64", "uses prefix width "+w+" while the codec (BigEndian.PutUint64/Uint64) is 8 bytes wide and the other sites use 8: slices are mis-framed", 0)
		}
	})

	// ---- R-C11-ITER
	c.Group("R-C11-ITER", "Buffer.SliceIterate", func() {
		fn := P.Fn("z", "Buffer", "SliceIterate")
		L.Analysed(fname(fn))
		tb := newTB(fn)
		sl := callsTo(fn, "z.Buffer.Slice")
		if len(sl) != 1 {
			L.Fail("R-C11-ITER", "Buffer.SliceIterate", "expected one b.Slice(next) call", fn.Pos())
			return
		}
		call := sl[0].(*ssa.Call)
		paths, _ := explore(fn, tb, ExploreOpts{Start: after(call), StopAt: isInstr(call)})
		slice := "ext[0](" + tb.T(call).String() + ")"
		ok, nEmpty, nCb := true, 0, 0
		for _, p := range paths {
			empty := p.CondHeld(tb, "eq(call[len]("+slice+"),c[0])", nil)
			var cb *ssa.Call
			for _, s := range p.Steps {
				if cl, isC := s.In.(*ssa.Call); isC && calleeName(&cl.Call) == "dyn" && Match("p[1]", tb.T(cl.Call.Value), nil) {
					cb = cl
				}
			}
			_, isRet := p.End.(*ssa.Return)
			switch {
			case empty == 1:
				nEmpty++
				if cb != nil || (isRet && p.CondHeld(tb, "le(c[0],_)", nil) != -1) {
					// an empty slice must neither be passed on nor end the iteration (unless the loop condition itself ended it)
					if cb != nil {
						ok = false
						L.Fail("R-C11-ITER", "Buffer.SliceIterate", "an empty slice is passed to the callback", call.Pos())
					} else if isRet {
						ok = false
						L.Fail("R-C11-ITER", "Buffer.SliceIterate", "an empty slice ends the iteration (block path "+p.BlockPath()+"): the slices written after it are never yielded", call.Pos())
					}
				}
			case empty == -1:
				if cb == nil {
					ok = false
					L.Fail("R-C11-ITER", "Buffer.SliceIterate", "a non-empty slice is not passed to the callback (block path "+p.BlockPath()+")", call.Pos())
					continue
				}
				nCb++
				if tb.T(cb.Call.Args[0]).String() != slice {
					ok = false
					L.Fail("R-C11-ITER", "Buffer.SliceIterate", "the callback receives "+tb.T(cb.Call.Args[0]).String()+" instead of the slice just read", cb.Pos())
				}
				errNonNil := p.CondHeld(tb, "ne("+tb.T(cb).String()+",c[nil])", nil)
				if errNonNil == 1 {
					ret, isR := p.End.(*ssa.Return)
					if !isR || returnValues(ret)[0] != ssa.Value(cb) {
						ok = false
						L.Fail("R-C11-ITER", "Buffer.SliceIterate", "the callback's error is not returned", cb.Pos())
					}
				}
			}
		}
		// next offset comes from Slice
		okNext := false
		eachInstr(fn, func(in ssa.Instruction) {
			if ph, isP := in.(*ssa.Phi); isP {
				for _, e := range ph.Edges {
					if ex, isE := e.(*ssa.Extract); isE && ex.Tuple == ssa.Value(call) && ex.Index == 1 && call.Call.Args[1] == ssa.Value(ph) {
						okNext = true
					}
				}
			}
		})
		if ok {
			L.Check(nEmpty > 0 && nCb > 0 && okNext, "R-C11-ITER", "Buffer.SliceIterate", "empty slices are skipped (iteration continues), non-empty ones go to the callback, its error is returned, next comes from Slice", fmt.Sprintf("iteration shape not recognised (empty paths %d, callback paths %d, next from Slice %v)", nEmpty, nCb, okNext), call.Pos())
		}
	})
	c.Group("R-C11-ITER", "Buffer.Slice", func() {
		fn := P.Fn("z", "Buffer", "Slice")
		tb := newTB(fn)
		offI := "conv[int](" + off + ")"
		beyond := edgesWhere(fn, tb, "le("+offI+",p[1])", nil, true)
		okGuard := len(beyond) > 0
		for e := range beyond {
			tgt := e.From.Succs[e.Succ]
			r, _ := reach(Pos{tgt, 0}, func(in ssa.Instruction) bool {
				ret, isR := in.(*ssa.Return)
				if !isR {
					return false
				}
				rv := returnValues(ret)
				return !(isConst(rv[0], "nil") && isConst(rv[1], "-1"))
			}, isReturn, nil)
			if r != nil {
				okGuard = false
			}
		}
		L.Check(okGuard, "R-C11-ITER", "Buffer.Slice#end", "offset ≥ b.offset ⇒ (nil, −1)", "reading at or past the write offset does not return (nil, −1)", fn.Pos())
		// next = -1 iff next >= offset (either one return of φ(-1, next) or two returns)
		okLast := false
		reached := edgesWhere(fn, tb, "le("+offI+",_)", nil, true)
		notReached := edgesWhere(fn, tb, "le("+offI+",_)", nil, false)
		var m1Rets, nextRets []ssa.Instruction
		for _, r := range returnsOf(fn) {
			rv := returnValues(r)
			if isConst(rv[0], "nil") && isConst(rv[1], "-1") {
				continue // the (nil, -1) guard above
			}
			if ph, isP := rv[1].(*ssa.Phi); isP {
				hasM1, hasNext := false, false
				for i, e := range ph.Edges {
					if isConst(e, "-1") {
						pred := ph.Block().Preds[i]
						for ed := range reached {
							if ed.From == pred || ed.From.Succs[ed.Succ] == pred {
								hasM1 = true
							}
						}
					} else if strings.HasPrefix(tb.T(e).String(), "add(") {
						hasNext = true
					}
				}
				okLast = hasM1 && hasNext
				continue
			}
			if isConst(rv[1], "-1") {
				m1Rets = append(m1Rets, r)
			} else if strings.HasPrefix(tb.T(rv[1]).String(), "add(") {
				nextRets = append(nextRets, r)
			}
		}
		if okLast && (len(m1Rets) > 0 || len(nextRets) > 0) {
			// besides the φ(-1, next) return there are further returns: each must obey the same condition
			guardPass := edgesWhere(fn, tb, "le("+offI+",p[1])", nil, true)
			guardFail := edgesWhere(fn, tb, "le("+offI+",p[1])", nil, false)
			cutFor := func(side map[Edge]bool) func(Edge) bool {
				return func(e Edge) bool { return guardPass[e] || side[e] && !guardFail[e] }
			}
			b1, _ := reach(entryPos(fn), isAnyInstr(m1Rets), nil, cutFor(reached))
			b2, _ := reach(entryPos(fn), isAnyInstr(nextRets), nil, cutFor(notReached))
			okLast = b1 == nil && b2 == nil
		}
		if !okLast && len(m1Rets) > 0 && len(nextRets) > 0 {
			// past the guard (offset < b.offset side), -1 only behind `next >= b.offset`, the real offset only behind its negation
			guardPass := edgesWhere(fn, tb, "le("+offI+",p[1])", nil, true)
			guardFail := edgesWhere(fn, tb, "le("+offI+",p[1])", nil, false)
			cutFor := func(side map[Edge]bool) func(Edge) bool {
				// the guard's own edges are not the comparison of the NEXT offset: its taken side is
				// excluded, its fall-through side is always allowed
				return func(e Edge) bool { return guardPass[e] || side[e] && !guardFail[e] }
			}
			b1, _ := reach(entryPos(fn), isAnyInstr(m1Rets), nil, cutFor(reached))
			b2, _ := reach(entryPos(fn), isAnyInstr(nextRets), nil, cutFor(notReached))
			okLast = b1 == nil && b2 == nil
		}
		L.Check(okLast, "R-C11-ITER", "Buffer.Slice#next", "next = start+sz, or −1 when that reaches the write offset", "Slice does not return next = −1 exactly when the next offset reaches b.offset", fn.Pos())
	})

	// ---- R-C11-GROWFIRST: raw writes into a Buffer's storage
	c.Group("R-C11-GROWFIRST", "Buffer.buf#raw-writers", func() {
		// who writes bytes into a Buffer's backing array other than through the Grow-guarded API: only
		// Write (behind Grow, checked above) and the sorter writing back INTO THE RANGE IT SORTS of the
		// buffer being sorted (s.b). Writing into another buffer's array (the sorter's scratch s.tmp, a
		// freshly obtained b.buf[b.offset:]) without Grow overruns it as soon as the data is larger than
		// the array happens to be.
		type site struct{ fn, base string }
		allowed := map[site]string{
			{"z.Buffer.Write", "p[0]"}:                        "behind Grow(len(p)) (R-C11-GROWFIRST)",
			{"z.sortHelper.sortSmall", "fld[b](p[0])"}:        "copy-back over [start,end) of the sorted buffer",
			{"z.sortHelper.merge", "fld[b](p[0])"}:            "merge output inside [start,end) of the sorted buffer",
			{"z.sortHelper.merge$1", "fld[b](load(fv[0:s]))"}: "copyLeft closure: merge output",
			{"z.sortHelper.merge$2", "fld[b](load(fv[0:s]))"}: "copyRight closure: merge output",
			{"z.sortHelper.merge$1", "fld[b](fv[0:s])"}:       "copyLeft closure: merge output",
			{"z.sortHelper.merge$2", "fld[b](fv[0:s])"}:       "copyRight closure: merge output",
		}
		n := 0
		var bad []string
		var pos token.Pos
		for _, fn := range P.SrcFuncs {
			if fn.Pkg != P.Pkgs["z"] {
				continue
			}
			tb := newTB(fn)
			check := func(dst ssa.Value, in ssa.Instruction) {
				t := tb.T(dst)
				env := Env{}
				f := Find("fld[buf](?b)", t, env)
				if f == nil || recvNameOfTerm(env["b"]) != "Buffer" {
					return
				}
				n++
				base := env["b"].String()
				if _, ok := allowed[site{fname(fn), base}]; ok {
					return
				}
				// the sorter closures may capture s differently after refactoring: accept any base that is the helper's b
				if strings.HasPrefix(fname(fn), "z.sortHelper.") && strings.HasPrefix(base, "fld[b](") {
					return
				}
				bad = append(bad, fname(fn)+" writes into "+t.String())
				pos = in.Pos()
			}
			eachInstr(fn, func(in ssa.Instruction) {
				switch x := in.(type) {
				case *ssa.Call:
					if b, ok := x.Call.Value.(*ssa.Builtin); ok && b.Name() == "copy" {
						check(x.Call.Args[0], in)
					}
				case *ssa.Store:
					if ia, ok := x.Addr.(*ssa.IndexAddr); ok {
						check(ia.X, in)
					}
				}
			})
		}
		L.Check(len(bad) == 0 && n >= 5, "R-C11-GROWFIRST", "Buffer.buf#raw-writers", fmt.Sprintf("%d raw writes into a Buffer's array: Write (behind Grow) and the sorter's write-back into the sorted buffer", n), "raw write into a Buffer's backing array outside the Grow-guarded API: "+strings.Join(bad, "; ")+" - nothing makes the array large enough for it", pos)
	})

	// ---- R-C11-MAXSZ
	c.Group("R-C11-MAXSZ", "Buffer.maxSz#writers", func() {
		var desc []string
		ok := true
		for _, fn := range P.SrcFuncs {
			if fn.Pkg != P.Pkgs["z"] {
				continue
			}
			tb := newTB(fn)
			for _, st := range fieldStoresIn(fn, "Buffer", "maxSz") {
				if fa, isFA := st.Addr.(*ssa.FieldAddr); isFA && baseIsFresh(fa.X) {
					continue // literal in a constructor
				}
				v := tb.T(st.Val).String()
				if fname(fn) == "z.Buffer.WithMaxSize" && v == "p[1]" {
					desc = append(desc, fname(fn)+": maxSz = size")
					continue
				}
				ok = false
				L.Fail("R-C11-MAXSZ", "maxSz@"+fname(fn), "Buffer.maxSz is set to "+v+", not to the limit the caller gave to WithMaxSize: Grow compares offset+n (padding included) with this field, so the buffer grows beyond - or refuses before - the limit", st.Pos())
			}
		}
		if ok {
			L.Check(len(desc) == 1, "R-C11-MAXSZ", "Buffer.maxSz#writers", strings.Join(desc, "; ")+" (Grow's comparison against it: R-C11-GROW)", "no writer of Buffer.maxSz found", 0)
		}
	})

	// ---- R-C11-SORTRANGE
	walkRule := func(fn *ssa.Function, cons, recv string) {
		// the offsets walk: next = start; for next >= 0 && next < end { collect next; _, next = Slice(next) }
		tb := newTB(fn)
		var walk *ssa.Call
		for _, ci := range callsTo(fn, "z.Buffer.Slice") {
			cl, ok := ci.(*ssa.Call)
			if !ok {
				continue
			}
			if _, isPhi := cl.Call.Args[1].(*ssa.Phi); isPhi && tb.T(cl.Call.Args[0]).String() == recv {
				walk = cl
			}
		}
		if walk == nil {
			L.Undecided("R-C11-SORTRANGE", cons, "the offsets walk (a loop calling Slice(next) on the sorted buffer) was not recognised", fn.Pos())
			return
		}
		next := walk.Call.Args[1].(*ssa.Phi)
		var problems []string
		fromStart, fromSlice := false, false
		for _, e := range phiLeaves(next) {
			switch {
			case tb.T(e).String() == "p[1]":
				fromStart = true
			case tb.T(e).String() == "ext[1]("+tb.T(walk).String()+")":
				fromSlice = true
			default:
				problems = append(problems, "next can be "+tb.T(e).String())
			}
		}
		if !fromStart || !fromSlice {
			problems = append(problems, "next is not φ(start, the next offset returned by Slice(next))")
		}
		nt := tb.T(next).String()
		inRange := edgesWhere(fn, tb, "lt("+nt+",p[2])", nil, true)
		nonNeg := edgesWhere(fn, tb, "le(c[0],"+nt+")", nil, true)
		if len(inRange) == 0 || len(nonNeg) == 0 {
			problems = append(problems, "the walk is not bounded by `next >= 0 && next < end`")
		}
		// every use of next other than the bound tests (collecting it, reading the slice at it) lies behind both tests
		var uses []ssa.Instruction
		for _, r := range *next.Referrers() {
			switch x := r.(type) {
			case *ssa.BinOp, *ssa.Phi:
			case ssa.Instruction:
				uses = append(uses, x)
			}
		}
		if bad, path := reach(entryPos(fn), isAnyInstr(uses), nil, cutSet(inRange)); bad != nil && len(inRange) > 0 {
			problems = append(problems, "an offset is collected / read without `next < end` (block path "+pathString(path)+"): slices beyond the end of the range are sorted into it and the copy-back truncates the result")
		}
		if bad, path := reach(entryPos(fn), isAnyInstr(uses), nil, cutSet(nonNeg)); bad != nil && len(nonNeg) > 0 {
			problems = append(problems, "an offset is used without `next >= 0` (block path "+pathString(path)+")")
		}
		L.Check(len(problems) == 0, "R-C11-SORTRANGE", cons, "next = φ(start, Slice(next).next); every offset collected lies behind next >= 0 && next < end", strings.Join(problems, "; "), walk.Pos())
	}
	c.Group("R-C11-SORTRANGE", "sortHelper.sortSmall#walk", func() {
		fn := P.Fn("z", "sortHelper", "sortSmall")
		walkRule(fn, "sortHelper.sortSmall#walk", "fld[b](p[0])")
	})
	c.Group("R-C11-SORTRANGE", "Buffer.SortSliceBetween#walk", func() {
		fn := P.Fn("z", "Buffer", "SortSliceBetween")
		L.Analysed(fname(fn))
		walkRule(fn, "Buffer.SortSliceBetween#walk", "p[0]")
	})
	c.Group("R-C11-SORTRANGE", "Buffer.SortSliceBetween#chunks", func() {
		fn := P.Fn("z", "Buffer", "SortSliceBetween")
		tb := newTB(fn)
		var problems []string
		calls := callsTo(fn, "z.sortHelper.sortSmall")
		sorts := callsTo(fn, "z.sortHelper.sort")
		if len(calls) != 1 || len(sorts) != 1 {
			L.Fail("R-C11-SORTRANGE", "Buffer.SortSliceBetween#chunks", fmt.Sprintf("expected one sortSmall call in a loop and one final sort call, found %d and %d", len(calls), len(sorts)), fn.Pos())
			return
		}
		call := calls[0].(*ssa.Call)
		// sortSmall(left, off): off ranges over offsets[1:], left is the previous offset (offsets[0] first)
		env := Env{}
		offT := tb.T(call.Call.Args[2])
		startT := tb.T(call.Call.Args[1])
		hdrOfCall := loopHeaderOf(call.Block())
		wholeLoop := func() bool {
			// every chunk is sorted: the loop around the call is left only from its header
			if hdrOfCall == nil {
				return false
			}
			body := loopBodyOf(hdrOfCall)
			for b := range body {
				if b == hdrOfCall {
					continue
				}
				if len(b.Succs) == 0 {
					return false
				}
				for _, s2 := range b.Succs {
					if !body[s2] {
						return false
					}
				}
			}
			return true
		}
		switch {
		case Match("idx(slice(?o,c[1],_,_),_)", offT, env):
			// for _, off := range offsets[1:] { sortSmall(left, off); left = off } with left := offsets[0]
			left, isPhi := call.Call.Args[1].(*ssa.Phi)
			okLeft := isPhi
			if isPhi {
				first, prev := false, false
				for _, e := range left.Edges {
					et := tb.T(e).String()
					switch {
					case et == "idx("+env["o"].String()+",c[0])":
						first = true
					case e == call.Call.Args[2] || et == offT.String():
						prev = true
					default:
						okLeft = false
					}
				}
				okLeft = okLeft && first && prev
			}
			if !okLeft {
				problems = append(problems, "the chunk start is "+startT.String()+", not φ(offsets[0], the previous chunk end): chunks would overlap or leave gaps")
			}
		case Match("idx(?o,?i)", offT, env):
			// for i := 1; i < len(offsets); i++ { sortSmall(offsets[i-1], offsets[i]) }
			o, i := env["o"].String(), env["i"].String()
			if startT.String() != "idx("+o+",sub("+i+",c[1]))" && startT.String() != "idx("+o+",add(c[-1],"+i+"))" {
				problems = append(problems, "the chunk start is "+startT.String()+", not offsets[i-1] for the chunk end offsets[i]: chunks would overlap or leave gaps")
			}
			ph, isPhi := env["i"].V.(*ssa.Phi)
			okIdx := isPhi && hdrOfCall != nil && ph.Block() == hdrOfCall
			if okIdx {
				from1, step := false, false
				for _, e := range ph.Edges {
					if isConst(e, "1") {
						from1 = true
					} else if inc, ok := e.(*ssa.BinOp); ok && inc.Op == token.ADD && inc.X == ssa.Value(ph) && isConst(inc.Y, "1") {
						step = true
					} else {
						okIdx = false
					}
				}
				okIdx = okIdx && from1 && step
				if iff := lastIf(hdrOfCall); iff == nil || condPolarity(tb.T(iff.Cond), "lt("+i+",call[len]("+o+"))", nil) == 0 {
					okIdx = false
				}
			}
			if !okIdx {
				problems = append(problems, "the chunk index does not run from 1 in steps of 1 while i < len(offsets)")
			}
		default:
			problems = append(problems, "the chunk end is "+offT.String()+", not an element of the offsets")
		}
		if env["o"] != nil {
			if !wholeLoop() {
				problems = append(problems, "not every chunk is sorted (the loop over the offsets can exit early)")
			}
			st := sorts[0].(*ssa.Call)
			if tb.T(st.Call.Args[1]).String() != "c[0]" || tb.T(st.Call.Args[2]).String() != "sub(call[len]("+env["o"].String()+"),c[1])" {
				problems = append(problems, "the merge phase is sort("+tb.T(st.Call.Args[1]).String()+", "+tb.T(st.Call.Args[2]).String()+"), not sort(0, len(offsets)-1)")
			}
			// the helper sorts this buffer, with these offsets and this comparison
			var helper *ssa.Alloc
			eachInstr(fn, func(in ssa.Instruction) {
				if a, ok := in.(*ssa.Alloc); ok && recvName(a.Type()) == "sortHelper" {
					if _, isStruct := a.Type().Underlying().(*types.Pointer).Elem().Underlying().(*types.Struct); isStruct {
						helper = a
					}
				}
			})
			if helper == nil {
				problems = append(problems, "no sortHelper literal found")
			} else {
				lf := litFields(helper)
				get := func(f string) string {
					if len(lf[f]) == 1 {
						return tb.T(lf[f][0].Val).String()
					}
					return "<unset>"
				}
				if get("offsets") != env["o"].String() || get("b") != "p[0]" || get("less") != "p[3]" {
					problems = append(problems, "sortHelper is built with offsets="+get("offsets")+" b="+get("b")+" less="+get("less"))
				}
			}
			// offsets ends with `end`
			endStored := false
			eachInstr(fn, func(in ssa.Instruction) {
				if s2, ok := in.(*ssa.Store); ok && tb.T(s2.Val).String() == "p[2]" {
					if _, isIA := s2.Addr.(*ssa.IndexAddr); isIA {
						endStored = true
					}
				}
			})
			if !endStored {
				problems = append(problems, "`end` is never appended to the offsets: the last chunk has no upper bound")
			}
		}
		L.Check(len(problems) == 0, "R-C11-SORTRANGE", "Buffer.SortSliceBetween#chunks", "sortSmall(offsets[i-1], offsets[i]) for every i ≥ 1, then sort(0, len(offsets)-1); offsets closed by end; helper wired to this buffer and comparison", strings.Join(problems, "; "), fn.Pos())
	})
	c.Group("R-C11-SORTRANGE", "sortHelper.sort", func() {
		fn := P.Fn("z", "sortHelper", "sort")
		L.Analysed(fname(fn))
		tb := newTB(fn)
		mid := "add(p[1],quo(sub(p[2],p[1]),c[2]))"
		var problems []string
		rec := callsTo(fn, "z.sortHelper.sort")
		mg := callsTo(fn, "z.sortHelper.merge")
		if len(rec) != 2 || len(mg) != 1 {
			L.Fail("R-C11-SORTRANGE", "sortHelper.sort", fmt.Sprintf("expected two recursive calls and one merge, found %d and %d", len(rec), len(mg)), fn.Pos())
			return
		}
		l, r := tb.T(rec[0].(*ssa.Call)).String(), tb.T(rec[1].(*ssa.Call)).String()
		wantL := "call[z.sortHelper.sort](p[0],p[1]," + mid + ")"
		wantR := "call[z.sortHelper.sort](p[0]," + mid + ",p[2])"
		if !(l == wantL && r == wantR) && !(l == wantR && r == wantL) {
			problems = append(problems, "the halves are "+l+" and "+r+", not sort(lo,mid) and sort(mid,hi) with mid = lo+(hi-lo)/2 (offsets are chunk boundaries: mid+1 would skip a chunk)")
		}
		loff, hoff := "idx(fld[offsets](p[0]),p[1])", "idx(fld[offsets](p[0]),p[2])"
		m := mg[0].(*ssa.Call)
		if got := termStrings(termsOf(tb, m.Call.Args)); got != "p[0], "+wantL+", "+wantR+", "+loff+", "+hoff {
			problems = append(problems, "merge is called with ("+got+"), want (s, left half, right half, offsets[lo], offsets[hi])")
		}
		base := edgesWhere(fn, tb, "eq("+mid+",p[1])", nil, true)
		if len(base) == 0 {
			problems = append(problems, "no base case `lo == mid`")
		} else if bad, _ := reach(entryPos(fn), isAnyInstr(append(rec, mg...)), nil, cutSet(edgesWhere(fn, tb, "eq("+mid+",p[1])", nil, false))); bad != nil {
			problems = append(problems, "a single chunk (lo == mid) is split or merged again")
		}
		for _, rt := range returnsOf(fn) {
			if got := tb.T(returnValues(rt)[0]).String(); got != "slice(fld[buf](fld[b](p[0])),"+loff+","+hoff+",_)" {
				problems = append(problems, "returns "+got+", not b.buf[offsets[lo]:offsets[hi]]")
			}
		}
		L.Check(len(problems) == 0, "R-C11-SORTRANGE", "sortHelper.sort", "mid = lo+(hi-lo)/2; sort(lo,mid), sort(mid,hi); merge over [offsets[lo],offsets[hi]); returns that range; base case lo == mid", strings.Join(problems, "; "), fn.Pos())
	})

	// ---- R-C11-SORTCOPY
	c.Group("R-C11-SORTCOPY", "sortHelper.sortSmall", func() {
		fn := P.Fn("z", "sortHelper", "sortSmall")
		L.Analysed(fname(fn))
		tb := newTB(fn)
		ok := false
		for _, ci := range builtinCalls(fn, "copy") {
			if Match("slice(fld[buf](fld[b](p[0])),p[1],p[2],_)", tb.T(ci.Call.Args[0]), nil) && Match("call[z.Buffer.Bytes](fld[tmp](p[0]))", tb.T(ci.Call.Args[1]), nil) {
				for _, a := range callsTo(fn, "z.assert") {
					if Match("eq(sub(p[2],p[1]),"+tb.T(ci).String()+")", tb.T(a.Common().Args[0]), nil) {
						ok = true
					}
				}
			}
		}
		L.Check(ok, "R-C11-SORTCOPY", "sortHelper.sortSmall", "assert(end−start == copy(b.buf[start:end], tmp.Bytes()))", "the sorted chunk is not copied back over exactly [start,end) under the count assertion", fn.Pos())
	})
	c.Group("R-C11-SORTCOPY", "sortHelper.merge", func() {
		fn := P.Fn("z", "sortHelper", "merge")
		tb := newTB(fn)
		// when one side is exhausted the other is copied to s.b.buf[start:end] and merge returns
		n := 0
		for _, side := range []string{"left", "right"} {
			_ = side
		}
		for _, ci := range builtinCalls(fn, "copy") {
			if Match("slice(fld[buf](fld[b](p[0])),_,p[4],_)", tb.T(ci.Call.Args[0]), nil) {
				// followed by return without further copies
				if r, _ := reach(after(ci), func(in ssa.Instruction) bool {
					cl, isC := in.(*ssa.Call)
					return isC && calleeName(&cl.Call) == "copy"
				}, isReturn, nil); r == nil {
					n++
				}
			}
		}
		L.Check(n == 2, "R-C11-SORTCOPY", "sortHelper.merge", "when either side runs out the rest of the other side is copied to b.buf[start:end] and merge returns", fmt.Sprintf("found %d of the 2 remainder copies", n), fn.Pos())
	})
}

// bufferSizeInvRule: every Buffer literal is built with len(buf) == curSz (the invariant
// Grow relies on). Shared by C11 and C16.
func bufferSizeInvRule(c *Ctx, ruleID string) {
	L, P := c.L, c.P
	c.Group(ruleID, "Buffer literals", func() {
		n := 0
		for _, fn := range P.SrcFuncs {
			if fn.Pkg != P.Pkgs["z"] {
				continue
			}
			tb := newTB(fn)
			eachInstr(fn, func(in ssa.Instruction) {
				a, ok := in.(*ssa.Alloc)
				if !ok || !a.Heap || recvName(a.Type()) != "Buffer" {
					return
				}
				lf := litFields(a)
				if len(lf["buf"]) != 1 {
					return
				}
				bt := tb.T(lf["buf"][0].Val)
				cons := "Buffer{}@" + fname(fn)
				if len(lf["curSz"]) == 0 {
					// growth is impossible for such a buffer only if its type forbids it
					if len(lf["bufType"]) == 1 && tb.T(lf["bufType"][0].Val).String() == "c["+P.Const("z", "UseInvalid").Value.Value.ExactString()+"]" {
						L.OkTrivial(ruleID, cons, "fixed slice buffer (UseInvalid): Grow refuses it, curSz unused", a.Pos())
						n++
						return
					}
					L.Fail(ruleID, cons, "a growable Buffer is built without curSz", a.Pos())
					return
				}
				n++
				ct := tb.T(lf["curSz"][0].Val)
				ok2 := ct.String() == "call[len]("+bt.String()+")" || Match("call[z.Calloc]("+ct.String()+",_)", bt, nil)
				L.Check(ok2, ruleID, cons, "curSz == len(buf) at construction", "Buffer is built with buf = "+bt.String()+" but curSz = "+ct.String()+": Grow computes the new size (and truncates a mapped file) from a curSz that is not the real length", a.Pos())
			})
		}
		if n < 3 {
			L.Undecided(ruleID, "Buffer literals", "fewer than three Buffer literals found", 0)
		}
	})
}

// recvNameOfTerm: named type (pointer stripped) of the value behind a term, "" if unknown.
func recvNameOfTerm(t *Term) string {
	if t == nil || t.V == nil {
		return ""
	}
	return recvName(t.V.Type())
}
