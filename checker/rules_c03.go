package main

import (
	"fmt"
	"strings"

	"golang.org/x/tools/go/ssa"
)

func init() {
	register(&PropCheck{
		ID: "C03",
		Explanation: "Decides the accounting skeleton behind 'admissions never push the accounted cost above MaxCost': " +
			"(R-C03-WRITERS) sampledLFU.used/keyCosts are written only by add, del, updateIfHas, clear and the constructor; " +
			"(R-C03-INV) on every path of each writer the change of `used` equals the change of the sum of keyCosts (linear effect summaries over Z/2^64, compared syntactically after normalisation); " +
			"(R-C03-ADDFRESH) sampledLFU.add is called only where updateIfHas(key) just returned false under the same policy lock, so the key is absent; " +
			"(R-C03-ROOM) roomLeft(cost) = getMaxCost() - used - cost and Cap() = getMaxCost() - used; in defaultPolicy.Add the oversize rejection cuts every path to any accounting call, every evict.add(key,cost) is reached only across an edge on which a fresh roomLeft(cost) for the same cost is >= 0, and every `return _, true` passes exactly one evict.add; " +
			"(R-C03-EXPINDEX) every map mutation is mirrored by exactly the matching expiry-index call, so the sweeper can release the cost of every expired key; " +
			"(R-C03-COSTPLUMB) the cost the applier hands to the policy is i.Cost loaded after the two adjustments, whose guards and right-hand sides are the documented ones. " +
			"NOT decided: termination of the eviction loop, int64 overflow for adversarial costs, UpdateMaxCost lowering MaxCost between the reads of one Add.",
		Run: runC03,
	})
}

const (
	usedCell     = "fld[used](p[0])"
	keyCostsCell = "fld[keyCosts](p[0])"
)

// evictClearRule: sampledLFU.clear empties the accounting on EVERY path - keyCosts replaced by a fresh
// map and used set to 0, unconditionally. A shortcut ("nothing is charged, nothing to do") keeps the
// zero-cost keys in the table: after Clear the map is empty but the policy still knows those keys and
// refuses their next Set as a duplicate. Shared by C06, C13 and C15 (the invariant used == sum(keyCosts)
// of C03 is not affected: the stale keys cost 0).
func evictClearRule(c *Ctx, ruleID string) {
	L, P := c.L, c.P
	c.Group(ruleID, "sampledLFU.clear#unconditional", func() {
		fn := P.Fn("ristretto", "sampledLFU", "clear")
		L.Analysed(fname(fn))
		tb := newTB(fn)
		var fresh, zero []ssa.Instruction
		for _, st := range fieldStoresIn(fn, "sampledLFU", "keyCosts") {
			if strings.HasPrefix(tb.T(st.Val).String(), "make[map") {
				fresh = append(fresh, st)
			}
		}
		for _, st := range fieldStoresIn(fn, "sampledLFU", "used") {
			if isConst(st.Val, "0") {
				zero = append(zero, st)
			}
		}
		if len(fresh) == 0 || len(zero) == 0 {
			L.Fail(ruleID, "sampledLFU.clear#unconditional", "clear does not assign a fresh keyCosts map and used = 0", fn.Pos())
			return
		}
		b1, p1 := mustPass(entryPos(fn), isAnyInstr(fresh), nil)
		b2, p2 := mustPass(entryPos(fn), isAnyInstr(zero), nil)
		switch {
		case b1 != nil:
			L.Fail(ruleID, "sampledLFU.clear#unconditional", "a path through clear keeps the old keyCosts table (block path "+pathString(p1)+"): keys that cost nothing stay known to the policy after Clear and their next Set is refused as a duplicate", instrPos(b1))
		case b2 != nil:
			L.Fail(ruleID, "sampledLFU.clear#unconditional", "a path through clear does not zero used (block path "+pathString(p2)+")", instrPos(b2))
		default:
			L.Ok(ruleID, "sampledLFU.clear#unconditional", "keyCosts := fresh map and used := 0 on every path", fn.Pos())
		}
	})
}

// accountingInvRule: each writer of sampledLFU.used/keyCosts preserves used == sum(keyCosts)
// on every path (linear effect summaries). Shared by C03, C06, C13 and C17.
func accountingInvRule(c *Ctx, ruleID string) {
	L, P := c.L, c.P
	for _, name := range []string{"add", "del", "updateIfHas", "clear"} {
		name := name
		c.Group(ruleID, "sampledLFU."+name, func() {
			fn := P.Fn("ristretto", "sampledLFU", name)
			L.Analysed(fname(fn))
			tb := newTB(fn)
			sums, err := summarize(fn, tb, []string{usedCell, keyCostsCell})
			if err != nil {
				L.Undecided(ruleID, "sampledLFU."+name, err.Error(), fn.Pos())
				return
			}
			allOK := true
			var descr []string
			for _, ps := range sums {
				dUsed := ps.Mem[usedCell].sub(linAtom(usedCell + "@entry"))
				dMap := Lin{}
				reset := false
				undec := ""
				for _, ev := range ps.Events {
					switch ev.Kind {
					case "mapset", "mapdel":
						if ev.Map != keyCostsCell {
							continue
						}
						lk := "lookup(" + keyCostsCell + "," + ev.Key.String() + ")"
						found := ps.HasCond("ok("+lk+")", true)
						missing := ps.HasCond("ok("+lk+")", false)
						old := Lin{}
						switch {
						case found:
							old = linAtom(lk)
						case missing:
						default:
							if ev.Kind == "mapset" && name == "add" {
								// precondition: key absent (discharged by R-C03-ADDFRESH)
							} else {
								undec = "map " + ev.Kind + " of " + ev.Key.String() + " without a preceding presence test of that key"
							}
						}
						if ev.Kind == "mapset" {
							dMap = dMap.add(ev.Val).sub(old)
						} else {
							dMap = dMap.sub(old)
						}
					case "store":
						if ev.Map == keyCostsCell {
							if strings.HasPrefix(tb.T(ev.In.(*ssa.Store).Val).String(), "make[map") {
								reset = true
							} else {
								undec = "keyCosts assigned something other than a fresh map"
							}
						}
					}
				}
				if undec != "" {
					L.Undecided(ruleID, "sampledLFU."+name, undec+" (path "+ps.BlockPath()+")", fn.Pos())
					allOK = false
					continue
				}
				if reset {
					if !ps.Mem[usedCell].equal(Lin{}) {
						L.Fail(ruleID, "sampledLFU."+name, "keyCosts is replaced by an empty map but used becomes "+ps.Mem[usedCell].String()+" instead of 0 (path "+ps.BlockPath()+")", fn.Pos())
						allOK = false
					}
					descr = append(descr, "path "+ps.BlockPath()+": keyCosts:=fresh, used:=0")
					continue
				}
				if !dUsed.equal(dMap) {
					L.Fail(ruleID, "sampledLFU."+name, fmt.Sprintf("on path %s: Δused = %s but Δsum(keyCosts) = %s", ps.BlockPath(), dUsed, dMap), fn.Pos())
					allOK = false
					continue
				}
				descr = append(descr, "path "+ps.BlockPath()+": Δused = Δsum(keyCosts) = "+dUsed.String())
			}
			if allOK {
				L.Ok(ruleID, "sampledLFU."+name, strings.Join(descr, "; "), fn.Pos())
			}
		})
	}
}

func runC03(c *Ctx) {
	L, P := c.L, c.P
	L.Rule("R-C03-WRITERS", "sampledLFU.used and sampledLFU.keyCosts are written only by add, del, updateIfHas, clear (+ constructor)", 1)
	L.Rule("R-C03-INV", "each writer preserves used == sum(keyCosts) on every path (linear effect summary)", 4)
	L.Rule("R-C03-ADDFRESH", "every call of sampledLFU.add(key,cost) is reached only across the false edge of updateIfHas(key,..) for the same key, policy lock held throughout; add has no caller but defaultPolicy.Add; the applier admits only itemNew items", 6)
	L.Rule("R-C03-ROOM", "roomLeft/Cap formulas; oversize test first; evict.add only behind a fresh room>=0 test for the same cost; exactly one add per admitting return", 6)
	L.Rule("R-C03-RELEASE", "a deleted key's cost is given back: Cache.Del always queues its tombstone (blocking send) and the applier's delete arm removes the key from the policy and the map (otherwise RemainingCost keeps charging for a key that is no longer resident)", 3)
	L.Rule("R-C03-COSTPLUMB", "applier passes i.Cost loaded after the Config.Cost and internal-cost adjustments with the documented guards", 3)

	L.Rule("R-C03-EXPINDEX", "every map mutation is mirrored in the expiry index (exactly one matching em.add/update/del): an entry the index does not know is never swept, so its cost stays accounted after it expired and is no longer retrievable", 3)
	expIndexRule(c, "R-C03-EXPINDEX")
	delTombstoneRule(c, "R-C03-RELEASE")
	tombstoneRule(c, "R-C03-RELEASE")
	addersRule(c, "R-C03-ADDFRESH")
	applierArmsRule(c, "R-C03-ADDFRESH")

	writers := map[string]bool{"sampledLFU.add": true, "sampledLFU.del": true, "sampledLFU.updateIfHas": true, "sampledLFU.clear": true, "newSampledLFU": true}
	c.Group("R-C03-WRITERS", "sampledLFU.used/keyCosts", func() {
		n := 0
		for _, fn := range P.SrcFuncs {
			if fn.Pkg != P.Pkgs["ristretto"] {
				continue
			}
			tb := newTB(fn)
			writes := false
			eachInstr(fn, func(in ssa.Instruction) {
				switch x := in.(type) {
				case *ssa.Store:
					if fa, ok := x.Addr.(*ssa.FieldAddr); ok && recvName(fa.X.Type()) == "sampledLFU" {
						f := fieldName(fa.X.Type(), fa.Field)
						if f == "used" || f == "keyCosts" {
							writes = true
						}
					}
				case *ssa.MapUpdate:
					if Match("fld[keyCosts](_)", tb.T(x.Map), nil) {
						writes = true
					}
				case *ssa.Call:
					if calleeName(&x.Call) == "delete" && Match("fld[keyCosts](_)", tb.T(x.Call.Args[0]), nil) {
						writes = true
					}
				}
			})
			if writes {
				n++
				if !writers[fname(fn)] {
					L.Fail("R-C03-WRITERS", "writer:"+fname(fn), "writes sampledLFU.used/keyCosts but has no effect summary: a new mutator of the accounted cost must be added to the table and given one", fn.Pos())
				}
			}
		}
		L.OkTrivial("R-C03-WRITERS", "sampledLFU.used/keyCosts", fmt.Sprintf("%d writer function(s), all in the table", n), 0)
	})

	accountingInvRule(c, "R-C03-INV")

	// ---- R-C03-ADDFRESH
	c.Group("R-C03-ADDFRESH", "callers of sampledLFU.add", func() {
		lc := newLockCtx(P, "ristretto")
		n := 0
		for _, fn := range P.SrcFuncs {
			if fn.Pkg != P.Pkgs["ristretto"] {
				continue
			}
			adds := callsTo(fn, "sampledLFU.add")
			if len(adds) == 0 {
				continue
			}
			tb := lc.tb(fn)
			for i, a := range adds {
				n++
				cons := fmt.Sprintf("%s#add%d", fname(fn), i)
				args := a.Common().Args
				key := tb.T(args[1]).String()
				recv := tb.T(args[0]).String()
				pat := "call[sampledLFU.updateIfHas](" + recv + "," + key + ",_)"
				absent := edgesWhere(fn, tb, pat, nil, false)
				if len(absent) == 0 {
					L.Fail("R-C03-ADDFRESH", cons, "no updateIfHas("+key+") test guards this add: adding a resident key double-counts its cost", a.Pos())
					continue
				}
				bad, path := reach(entryPos(fn), isInstr(a.(ssa.Instruction)), nil, cutSet(absent))
				if bad != nil {
					L.Fail("R-C03-ADDFRESH", cons, "sampledLFU.add("+key+") is reachable without passing the not-resident edge of updateIfHas("+key+") (block path "+pathString(path)+")", a.Pos())
					continue
				}
				if !lc.At(a.(ssa.Instruction)).HasClass("defaultPolicy.Mutex", "W") {
					L.Fail("R-C03-ADDFRESH", cons, "policy lock not held at sampledLFU.add", a.Pos())
					continue
				}
				// no unlock between the test and the add
				var testIn ssa.Instruction
				for _, u := range callsTo(fn, "sampledLFU.updateIfHas") {
					testIn = u.(ssa.Instruction)
				}
				li := lc.infos[fn]
				rel, _ := reach(after(testIn), func(in ssa.Instruction) bool {
					op, ok := li.Ops[in]
					return ok && !op.acq && op.class == "defaultPolicy.Mutex"
				}, isInstr(a.(ssa.Instruction)), nil)
				if rel != nil {
					if r2, _ := reach(after(rel), isInstr(a.(ssa.Instruction)), nil, nil); r2 != nil {
						L.Fail("R-C03-ADDFRESH", cons, "policy lock released between the residency test and the add", rel.Pos())
						continue
					}
				}
				L.Ok("R-C03-ADDFRESH", cons, "reached only on the not-resident edge of updateIfHas("+key+"), policy lock held throughout", a.Pos())
			}
		}
		if n == 0 {
			L.Undecided("R-C03-ADDFRESH", "callers", "no caller of sampledLFU.add found", 0)
		}
	})

	// ---- R-C03-ROOM
	c.Group("R-C03-ROOM", "sampledLFU.roomLeft", func() {
		fn := P.Fn("ristretto", "sampledLFU", "roomLeft")
		L.Analysed(fname(fn))
		tb := newTB(fn)
		sums, err := summarize(fn, tb, []string{usedCell})
		if err != nil || len(sums) != 1 {
			L.Undecided("R-C03-ROOM", "sampledLFU.roomLeft", "not a single straight-line path", fn.Pos())
			return
		}
		got := sums[0].RetLin(tb)[0]
		want := linAtom("call[sampledLFU.getMaxCost](p[0])").sub(linAtom(usedCell + "@entry")).sub(linAtom("p[1]"))
		L.Check(got.equal(want), "R-C03-ROOM", "sampledLFU.roomLeft", "returns getMaxCost() - used - cost", "returns "+got.String()+", want "+want.String(), fn.Pos())
	})
	c.Group("R-C03-ROOM", "defaultPolicy.Cap", func() {
		fn := P.Fn("ristretto", "defaultPolicy", "Cap")
		L.Analysed(fname(fn))
		tb := newTB(fn)
		ok := false
		for _, r := range returnsOf(fn) {
			rv := returnValues(r)
			t := tb.T(rv[0])
			if Match("sub(call[sampledLFU.getMaxCost](fld[evict](p[0])),fld[used](fld[evict](p[0])))", t, nil) {
				ok = true
			} else {
				L.Fail("R-C03-ROOM", "defaultPolicy.Cap", "returns "+t.String()+", want getMaxCost() - used of the policy's own evict", r.Pos())
				return
			}
		}
		L.Check(ok, "R-C03-ROOM", "defaultPolicy.Cap", "RemainingCost = getMaxCost() - used", "no return found", fn.Pos())
	})
	c.Group("R-C03-ROOM", "Cache.RemainingCost", func() {
		fn := P.Fn("ristretto", "Cache", "RemainingCost")
		tb := newTB(fn)
		ok := false
		for _, r := range returnsOf(fn) {
			t := tb.T(returnValues(r)[0]).String()
			if t == "call[defaultPolicy.Cap](fld[cachePolicy](p[0]))" {
				ok = true
			} else if t != "c[0]" {
				L.Fail("R-C03-ROOM", "Cache.RemainingCost", "returns "+t, r.Pos())
				return
			}
		}
		L.Check(ok, "R-C03-ROOM", "Cache.RemainingCost", "forwards cachePolicy.Cap()", "does not return cachePolicy.Cap()", fn.Pos())
	})
	c.Group("R-C03-ROOM", "defaultPolicy.Add", func() {
		fn := P.Fn("ristretto", "defaultPolicy", "Add")
		L.Analysed(fname(fn))
		tb := newTB(fn)
		ev := "fld[evict](p[0])"
		// oversize first
		accounting := func(in ssa.Instruction) bool {
			if ci, ok := in.(ssa.CallInstruction); ok {
				switch calleeName(ci.Common()) {
				case "sampledLFU.add", "sampledLFU.del", "sampledLFU.updateIfHas", "sampledLFU.roomLeft", "sampledLFU.fillSample":
					return true
				}
			}
			return false
		}
		fits := edgesWhere(fn, tb, "lt(call[sampledLFU.getMaxCost]("+ev+"),p[2])", nil, false)
		if len(fits) == 0 {
			L.Fail("R-C03-ROOM", "defaultPolicy.Add#oversize", "no `cost > getMaxCost()` test: an item larger than the whole cache can be admitted", fn.Pos())
		} else {
			bad, path := reach(entryPos(fn), accounting, nil, cutSet(fits))
			ok := bad == nil
			// and the oversize side returns (nil,false) without accounting
			over := edgesWhere(fn, tb, "lt(call[sampledLFU.getMaxCost]("+ev+"),p[2])", nil, true)
			for e := range over {
				tgt := e.From.Succs[e.Succ]
				r, _ := reach(Pos{tgt, 0}, func(in ssa.Instruction) bool {
					if ret, isR := in.(*ssa.Return); isR {
						rv := returnValues(ret)
						return !isConst(rv[1], "false")
					}
					return accounting(in)
				}, isReturn, nil)
				if r != nil {
					ok = false
					bad = r
				}
			}
			if ok {
				L.Ok("R-C03-ROOM", "defaultPolicy.Add#oversize", "cost > getMaxCost() returns (nil,false) before any accounting call", fn.Pos())
			} else {
				L.Fail("R-C03-ROOM", "defaultPolicy.Add#oversize", "an accounting call or an admitting return is reachable without passing the oversize test on its fitting side (block path "+pathString(path)+")", instrPos(bad))
			}
		}
		// fit edges: edges on which a fresh roomLeft(evict,cost) is known to be >= 0
		roomCall := "call[sampledLFU.roomLeft](" + ev + ",p[2])"
		isFreshRoom := func(t *Term) bool {
			if t.String() == roomCall {
				return true
			}
			if t.Op == "phi" {
				for _, a := range t.Args {
					if a.String() != roomCall && a.Op != "phiref" {
						return false
					}
				}
				return len(t.Args) > 0
			}
			return false
		}
		fitEdges := map[Edge]bool{}
		staleRoom := ""
		for _, b := range fn.Blocks {
			iff := lastIf(b)
			if iff == nil {
				continue
			}
			env := Env{}
			pol := condPolarity(tb.T(iff.Cond), "le(c[0],?r)", env) // room >= 0
			strict := false
			if pol == 0 {
				env = Env{}
				pol = condPolarity(tb.T(iff.Cond), "lt(c[0],?r)", env) // room > 0 (stricter, still safe)
				strict = true
			}
			if pol == 0 {
				continue
			}
			if !isFreshRoom(env["r"]) {
				if strings.Contains(env["r"].String(), "roomLeft") || strings.Contains(env["r"].String(), "#room") {
					staleRoom = env["r"].String()
				}
				continue
			}
			if pol > 0 {
				fitEdges[Edge{b, 0}] = true
			} else if !strict {
				fitEdges[Edge{b, 1}] = true
			}
			// for the strict form only the true edge proves room >= 0
		}
		adds := callsTo(fn, "sampledLFU.add")
		if len(adds) == 0 {
			L.Fail("R-C03-ROOM", "defaultPolicy.Add#add", "no evict.add call", fn.Pos())
		}
		for i, a := range adds {
			cons := fmt.Sprintf("defaultPolicy.Add#add%d", i)
			args := a.Common().Args
			if tb.T(args[0]).String() != ev || tb.T(args[1]).String() != "p[1]" || tb.T(args[2]).String() != "p[2]" {
				L.Fail("R-C03-ROOM", cons, "evict.add called with ("+termStrings(termsOf(tb, args))+"), want (evict, key, cost)", a.Pos())
				continue
			}
			bad, path := reach(entryPos(fn), isInstr(a.(ssa.Instruction)), nil, cutSet(fitEdges))
			if bad != nil {
				d := "evict.add(key,cost) is reachable without crossing an edge on which a fresh roomLeft(cost) >= 0 (block path " + pathString(path) + ")"
				if staleRoom != "" {
					d += "; a room test exists but its operand " + staleRoom + " is not recomputed by roomLeft(cost) on every path"
				}
				L.Fail("R-C03-ROOM", cons, d, a.Pos())
				continue
			}
			// between the fit edge and the add no other accounting increase
			clean := true
			for e := range fitEdges {
				tgt := e.From.Succs[e.Succ]
				r, _ := reach(Pos{tgt, 0}, func(in ssa.Instruction) bool {
					if in == a.(ssa.Instruction) {
						return false
					}
					if ci, ok := in.(ssa.CallInstruction); ok {
						n := calleeName(ci.Common())
						return n == "sampledLFU.add" || n == "sampledLFU.updateIfHas"
					}
					return false
				}, isInstr(a.(ssa.Instruction)), nil)
				if r != nil {
					if r2, _ := reach(after(r), isInstr(a.(ssa.Instruction)), nil, nil); r2 != nil {
						clean = false
						L.Fail("R-C03-ROOM", cons, "another accounting increase lies between the room test and evict.add", r.Pos())
					}
				}
			}
			if clean {
				L.Ok("R-C03-ROOM", cons, "reached only across room>=0 edges of roomLeft(cost) for the same cost", a.Pos())
			}
		}
		// every admitting return passes exactly one add
		for i, r := range returnsOf(fn) {
			rv := returnValues(r)
			cons := fmt.Sprintf("defaultPolicy.Add#ret%d", i)
			switch tb.T(rv[1]).String() {
			case "c[true]":
				bad, path := reach(entryPos(fn), isInstr(r), func(in ssa.Instruction) bool {
					ci, ok := in.(ssa.CallInstruction)
					return ok && calleeName(ci.Common()) == "sampledLFU.add"
				}, nil)
				if bad != nil {
					L.Fail("R-C03-ROOM", cons, "returns added=true on a path without evict.add (block path "+pathString(path)+")", r.Pos())
				} else {
					L.Ok("R-C03-ROOM", cons, "added=true only after evict.add", r.Pos())
				}
			case "c[false]":
			default:
				L.Undecided("R-C03-ROOM", cons, "added result is not a constant: "+tb.T(rv[1]).String(), r.Pos())
			}
		}
		for _, a := range adds {
			again, _ := reach(after(a.(ssa.Instruction)), func(in ssa.Instruction) bool {
				ci, ok := in.(ssa.CallInstruction)
				return ok && calleeName(ci.Common()) == "sampledLFU.add"
			}, nil, nil)
			if again != nil {
				L.Fail("R-C03-ROOM", "defaultPolicy.Add#twice", "a second evict.add is reachable after the first", again.Pos())
			}
		}
	})

	// ---- R-C03-COSTPLUMB
	c.Group("R-C03-COSTPLUMB", "Cache.processItems", func() {
		fn := P.Fn("ristretto", "Cache", "processItems")
		L.Analysed(fname(fn))
		tb := newTB(fn)
		itemSize := P.Const("ristretto", "itemSize").Value.Value.ExactString()
		itemDelete := P.Const("ristretto", "itemDelete").Value.Value.ExactString()
		var sel *ssa.Select
		eachInstr(fn, func(in ssa.Instruction) {
			if s, ok := in.(*ssa.Select); ok && s.Blocking {
				sel = s
			}
		})
		if sel == nil {
			L.Undecided("R-C03-COSTPLUMB", "Cache.processItems", "no blocking select in the applier", fn.Pos())
			return
		}
		var item string
		for i, st := range sel.States {
			if Match("fld[setBuf](p[0])", tb.T(st.Chan), nil) {
				if v := selectRecvValue(sel, i); v != nil {
					item = tb.T(v).String()
				}
			}
		}
		if item == "" {
			L.Undecided("R-C03-COSTPLUMB", "Cache.processItems", "applier does not receive from setBuf in its select", sel.Pos())
			return
		}
		costT := "fld[Cost](" + item + ")"
		var stA, stB *ssa.Store
		var others []*ssa.Store
		for _, st := range fieldStoresIn(fn, "Item", "Cost") {
			if tb.pointee(st.Addr).String() != costT {
				continue
			}
			vt := tb.T(st.Val)
			switch {
			case Match("call[dyn](fld[cost](p[0]),fld[Value]("+item+"))", vt, nil):
				stA = st
			case Match("add("+costT+",c["+itemSize+"])", vt, nil):
				stB = st
			default:
				others = append(others, st)
			}
		}
		for _, o := range others {
			L.Fail("R-C03-COSTPLUMB", "Cache.processItems#extra", "unexpected assignment to i.Cost: "+tb.T(o.Val).String(), o.Pos())
		}
		if stA == nil {
			L.Fail("R-C03-COSTPLUMB", "Cache.processItems#configcost", "no `i.Cost = c.cost(i.Value)` assignment", fn.Pos())
		} else {
			okA := true
			for _, g := range []struct{ pat, what string }{
				{"eq(" + costT + ",c[0])", "i.Cost == 0"},
				{"ne(fld[cost](p[0]),c[nil])", "c.cost != nil"},
				{"ne(fld[flag](" + item + "),c[" + itemDelete + "])", "i.flag != itemDelete"},
			} {
				pass := edgesWhere(fn, tb, g.pat, nil, true)
				bad, _ := reach(after(sel), isInstr(stA), nil, cutSet(pass))
				if bad != nil || len(pass) == 0 {
					okA = false
					L.Fail("R-C03-COSTPLUMB", "Cache.processItems#configcost", "Config.Cost is applied without the guard `"+g.what+"`", stA.Pos())
				}
			}
			if okA {
				L.Ok("R-C03-COSTPLUMB", "Cache.processItems#configcost", "i.Cost = c.cost(i.Value) only when i.Cost == 0 && c.cost != nil && i.flag != itemDelete", stA.Pos())
			}
		}
		ignoreSkip := edgesWhere(fn, tb, "fld[ignoreInternalCost](p[0])", nil, false) // edges on which internal cost is NOT ignored
		if stB == nil {
			L.Fail("R-C03-COSTPLUMB", "Cache.processItems#internal", "no `i.Cost += itemSize` assignment", fn.Pos())
		} else {
			bad, _ := reach(after(sel), isInstr(stB), nil, cutSet(ignoreSkip))
			if bad != nil || len(ignoreSkip) == 0 {
				L.Fail("R-C03-COSTPLUMB", "Cache.processItems#internal", "internal item size is added even when IgnoreInternalCost is set (or the flag is not tested)", stB.Pos())
			} else {
				L.Ok("R-C03-COSTPLUMB", "Cache.processItems#internal", "i.Cost += itemSize exactly on the !ignoreInternalCost side", stB.Pos())
			}
		}
		// order: the `i.Cost == 0` test (and so Config.Cost) is evaluated on the caller's cost, i.e. before itemSize is added
		if stA != nil && stB != nil {
			zeroTests := map[*ssa.BasicBlock]bool{}
			for e := range edgesWhere(fn, tb, "eq("+costT+",c[0])", nil, true) {
				zeroTests[e.From] = true
			}
			isZeroTest := func(in ssa.Instruction) bool {
				_, isIf := in.(*ssa.If)
				return isIf && zeroTests[in.Block()]
			}
			if r, path := reach(after(stB), func(in ssa.Instruction) bool { return isZeroTest(in) || in == ssa.Instruction(stA) }, isInstr(sel), nil); r != nil {
				L.Fail("R-C03-COSTPLUMB", "Cache.processItems#order", "the `i.Cost == 0` test / Config.Cost assignment is reachable after `i.Cost += itemSize` for the same item (block path "+pathString(path)+"): the caller's zero cost is no longer visible, Config.Cost is never consulted", stB.Pos())
			} else {
				L.Ok("R-C03-COSTPLUMB", "Cache.processItems#order", "Config.Cost is decided on the caller's cost, before the internal size is added", stA.Pos())
			}
		}
		// the policy gets i.Cost loaded after both adjustments, and on the !ignore side B is never skipped
		for _, callee := range []string{"defaultPolicy.Add", "defaultPolicy.Update"} {
			for _, ci := range callsTo(fn, callee) {
				cons := "Cache.processItems#" + callee
				args := ci.Common().Args
				if tb.T(args[1]).String() != "fld[Key]("+item+")" || tb.T(args[2]).String() != costT {
					L.Fail("R-C03-COSTPLUMB", cons, "called with ("+tb.T(args[1]).String()+", "+tb.T(args[2]).String()+"), want (i.Key, i.Cost) of the received item", ci.Pos())
					continue
				}
				ld, _ := args[2].(ssa.Instruction)
				ok := ld != nil
				if ok {
					for _, st := range []*ssa.Store{stA, stB} {
						if st == nil {
							continue
						}
						if r, _ := reach(after(ld), isInstr(st), isInstr(sel), nil); r != nil {
							ok = false
							L.Fail("R-C03-COSTPLUMB", cons, "i.Cost is read for the policy before an adjustment of it", ld.Pos())
						}
					}
				}
				if ok && stB != nil {
					for e := range ignoreSkip {
						tgt := e.From.Succs[e.Succ]
						if r, _ := reach(Pos{tgt, 0}, isInstr(ci.(ssa.Instruction)), isInstr(stB), nil); r != nil {
							ok = false
							L.Fail("R-C03-COSTPLUMB", cons, "on the !ignoreInternalCost side the policy can be reached without adding itemSize", ci.Pos())
						}
					}
				}
				if ok {
					L.Ok("R-C03-COSTPLUMB", cons, "receives i.Key and i.Cost loaded after both adjustments", ci.Pos())
				}
			}
		}
	})
}
