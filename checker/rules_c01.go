package main

import (
	"fmt"
	"go/token"
	"go/types"
	"strings"

	"golang.org/x/tools/go/ssa"
)

func init() {
	register(&PropCheck{
		ID: "C01",
		Explanation: "Decides structural necessary conditions of 'Get returns only values written under that very key': " +
			"(R-C01-CONFLICT) in lockedMap.get/Set/Update/Del every use of a looked-up entry (returning its value, overwriting, deleting, touching the expiry index) is reachable from the lookup only across the pass edges of `incoming != 0 && incoming != stored.conflict`; " +
			"(R-C01-KEYFLOW) both results of the same keyToHash(key) call flow to every store call / Item built in Cache.Get/SetWithTTL/Del/GetTTL, shard selection uses the same key that is passed on, and only the victim loop passes a constant 0 conflict; " +
			"(R-C01-ENTRY) every map store files, under i.Key, an entry whose key/conflict/value/expiration come from the same *Item, and the applier stores the item it asked the policy about; " +
			"(R-C01-RETURN) lockedMap.get returns true only with the value field of the entry looked up under its own key parameter; " +
			"(R-C01-HASHARMS) every return of z.KeyToHash is (uint64(k),0) of the switched value or two hash calls on the same operand derived from the key. " +
			"NOT decided: that the writing call had begun before the Get returned (timing), hash quality, atomicity of each map access (delegated to C08's lock rules).",
		Run: runC01,
	})
}

const dataPat = "fld[data](p[0])"

// entryRule: each store into m.data is keyed by i.Key and built from the same *Item's
// Key/Conflict/Value/Expiration. Shared by C01 and C07.
func entryRule(c *Ctx, ruleID string) {
	L, P := c.L, c.P
	for _, name := range []string{"Set", "Update"} {
		name := name
		c.Group(ruleID, "lockedMap."+name, func() {
			fn := P.Fn("ristretto", "lockedMap", name)
			tb := newTB(fn)
			mus := mapUpdatesOf(fn, tb, dataPat)
			if len(mus) == 0 {
				L.Fail(ruleID, "lockedMap."+name, "no store into m.data", fn.Pos())
				return
			}
			for _, mu := range mus {
				ok := tb.T(mu.Key).String() == "fld[Key](p[1])"
				detail := ""
				if !ok {
					detail = "stored under " + tb.T(mu.Key).String() + ", want fld[Key](p[1]); "
				}
				a := structValueAlloc(mu.Value)
				if a == nil {
					L.Undecided(ruleID, "lockedMap."+name, "stored value is not a local struct literal: "+tb.T(mu.Value).String(), mu.Pos())
					return
				}
				lf := litFields(a)
				for fld, src := range map[string]string{"key": "Key", "conflict": "Conflict", "value": "Value", "expiration": "Expiration"} {
					sts := lf[fld]
					want := "fld[" + src + "](p[1])"
					if len(sts) != 1 || tb.T(sts[0].Val).String() != want {
						got := "<unset>"
						if len(sts) > 0 {
							got = tb.T(sts[0].Val).String()
						}
						ok = false
						detail += fmt.Sprintf("storeItem.%s = %s, want %s; ", fld, got, want)
					}
				}
				L.Check(ok, ruleID, "lockedMap."+name, "entry stored under i.Key with key/conflict/value/expiration of the same *Item", detail, mu.Pos())
			}
		})
	}
}

func runC01(c *Ctx) {
	L, P := c.L, c.P
	L.Rule("R-C01-CONFLICT", "in every lockedMap function that looks up m.data[k] with an incoming conflict hash, every use of the hit is reachable from the lookup only across the pass side of `incoming != 0 && incoming != stored.conflict`", 4)
	L.Rule("R-C01-KEYFLOW", "results #0/#1 of one keyToHash(key) call are the key/conflict of every store call and Item built by the exported entry points; shard chosen by the key passed on; constant-0 conflict only in the victim loop", 8)
	L.Rule("R-C01-ENTRY", "each store into m.data is keyed by i.Key and built from the same *Item's Key/Conflict/Value/Expiration; the applier stores the item whose Key it gave to the policy", 3)
	L.Rule("R-C01-RETURN", "lockedMap.get returns true only with the value field of the entry looked up under its own key; every other return is (zero,false)", 2)
	L.Rule("R-C01-HASHARMS", "every return of z.KeyToHash is (uint64(k),0) or (memhash(x), xxhash(x)) on the same operand derived from the key; every term of the z.Key constraint has a typed and a reflect-kind arm", 12)

	// ---- R-C01-CONFLICT
	type lm struct {
		name           string
		keyPat, incPat string
	}
	for _, f := range []lm{
		{"get", "p[1]", "p[2]"},
		{"Del", "p[1]", "p[2]"},
		{"Set", "fld[Key](p[1])", "fld[Conflict](p[1])"},
		{"Update", "fld[Key](p[1])", "fld[Conflict](p[1])"},
	} {
		f := f
		c.Group("R-C01-CONFLICT", "lockedMap."+f.name, func() {
			fn := P.Fn("ristretto", "lockedMap", f.name)
			L.Analysed(fname(fn))
			tb := newTB(fn)
			lks := lookupsOf(fn, tb, dataPat)
			if len(lks) != 1 {
				L.Undecided("R-C01-CONFLICT", "lockedMap."+f.name, fmt.Sprintf("expected exactly one lookup of m.data, found %d", len(lks)), fn.Pos())
				return
			}
			lk := lks[0]
			if !Match(f.keyPat, tb.T(lk.Index), nil) {
				L.Fail("R-C01-CONFLICT", "lockedMap."+f.name, "m.data is looked up under "+tb.T(lk.Index).String()+", not under the incoming key "+f.keyPat, lk.Pos())
				return
			}
			lkT := tb.T(lk).String()
			stored := "fld[conflict](" + lkT + ")"
			missEdges := edgesWhere(fn, tb, "ok("+lkT+")", nil, false)
			zeroEdges := edgesWhere(fn, tb, "ne("+f.incPat+",c[0])", nil, false)
			passEdges := edgesWhere(fn, tb, "ne("+f.incPat+","+stored+")", nil, false)
			if len(passEdges) == 0 {
				L.Fail("R-C01-CONFLICT", "lockedMap."+f.name, "no comparison of the incoming conflict hash ("+f.incPat+") with the stored entry's conflict field", lk.Pos())
				return
			}
			// uses of the hit
			isUse := func(in ssa.Instruction) bool {
				switch x := in.(type) {
				case *ssa.MapUpdate:
					return Match(dataPat, tb.T(x.Map), nil)
				case *ssa.Call:
					n := calleeName(&x.Call)
					if n == "delete" && Match(dataPat, tb.T(x.Call.Args[0]), nil) {
						return true
					}
					if strings.HasPrefix(n, "expirationMap.") {
						return true
					}
				case *ssa.Return:
					for _, v := range returnValues(x) {
						if Contains(tb.T(v), tb.T(lk)) {
							return true
						}
					}
				}
				return false
			}
			nUses := 0
			eachInstr(fn, func(in ssa.Instruction) {
				if in.Block() != fn.Recover && isUse(in) {
					nUses++
				}
			})
			// The miss side legitimately reaches inserts (Set); it is cut as well: only the hit is protected.
			bad, path := reach(after(lk), isUse, nil, cutSet(missEdges, zeroEdges, passEdges))
			if bad != nil {
				L.Fail("R-C01-CONFLICT", "lockedMap."+f.name,
					fmt.Sprintf("use of the looked-up entry at %s is reachable from the lookup without passing `%s != 0 && %s != stored.conflict` on its pass side (block path %s)", P.pos(instrPos(bad)), f.incPat, f.incPat, pathString(path)),
					instrPos(bad))
				return
			}
			if nUses == 0 {
				L.Undecided("R-C01-CONFLICT", "lockedMap."+f.name, "no use of the looked-up entry found", fn.Pos())
				return
			}
			L.Ok("R-C01-CONFLICT", "lockedMap."+f.name, fmt.Sprintf("%d uses of the hit, all behind the conflict check (operands %s vs %s)", nUses, f.incPat, stored), lk.Pos())
		})
	}
	// exemptions: functions reading m.data without a conflict in scope (frozen)
	c.Group("R-C01-CONFLICT", "data-readers", func() {
		allowed := map[string]string{
			"lockedMap.get": "checked", "lockedMap.Set": "checked", "lockedMap.Update": "checked", "lockedMap.Del": "checked",
			"lockedMap.Expiration":    "yields only a time (C07)",
			"lockedMap.Clear":         "whole-map drain",
			"shardedMap.IterValues$1": "enumeration, no key in scope",
			"shardedMap.IterValues":   "enumeration, no key in scope (closure inlined)",
			"newLockedMap":            "constructor",
		}
		for _, fn := range P.SrcFuncs {
			if fn.Pkg != P.Pkgs["ristretto"] {
				continue
			}
			if len(fieldAccessesIn(fn, "lockedMap", "data")) == 0 {
				continue
			}
			if _, ok := allowed[fname(fn)]; !ok {
				L.Fail("R-C01-CONFLICT", "data-readers:"+fname(fn), "function accesses lockedMap.data but is not in the table of conflict-checked or exempt accessors; give it a conflict check and extend the table", fn.Pos())
			}
		}
		L.OkTrivial("R-C01-CONFLICT", "data-readers", "only the tabled functions access lockedMap.data", 0)
	})

	// ---- R-C01-KEYFLOW
	for _, name := range []string{"Get", "SetWithTTL", "Del", "GetTTL"} {
		name := name
		c.Group("R-C01-KEYFLOW", "Cache."+name, func() {
			fn := P.Fn("ristretto", "Cache", name)
			L.Analysed(fname(fn))
			tb := newTB(fn)
			khs := dynCallsVia(fn, tb, "fld[keyToHash](p[0])")
			if len(khs) != 1 {
				L.Fail("R-C01-KEYFLOW", "Cache."+name, fmt.Sprintf("expected exactly one c.keyToHash call, found %d", len(khs)), fn.Pos())
				return
			}
			kh := khs[0].(*ssa.Call)
			if !Match("p[1]", tb.T(kh.Call.Args[0]), nil) {
				L.Fail("R-C01-KEYFLOW", "Cache."+name, "keyToHash is not applied to the method's key parameter but to "+tb.T(kh.Call.Args[0]).String(), kh.Pos())
				return
			}
			k0 := "ext[0](" + tb.T(kh).String() + ")"
			k1 := "ext[1](" + tb.T(kh).String() + ")"
			n := 0
			itemOK := func(v ssa.Value, what string, pos ssa.Instruction) bool {
				a := structValueAlloc(v)
				if a == nil {
					L.Undecided("R-C01-KEYFLOW", "Cache."+name+"#"+what, "item is not a local composite literal: "+tb.T(v).String(), instrPos(pos))
					return false
				}
				lf := litFields(a)
				for fld, want := range map[string]string{"Key": k0, "Conflict": k1} {
					sts := lf[fld]
					if len(sts) != 1 || tb.T(sts[0].Val).String() != want {
						got := "<unset>"
						if len(sts) > 0 {
							got = tb.T(sts[0].Val).String()
						}
						L.Fail("R-C01-KEYFLOW", "Cache."+name+"#"+what, fmt.Sprintf("Item.%s is %s, want %s (result of the one keyToHash(key) call)", fld, got, want), instrPos(pos))
						return false
					}
				}
				return true
			}
			for _, ci := range allCalls(fn) {
				cc := ci.Common()
				cn := calleeName(cc)
				if !strings.HasPrefix(cn, "iface:store.") {
					continue
				}
				m := strings.TrimPrefix(cn, "iface:store.")
				switch m {
				case "Get", "Del":
					n++
					got0, got1 := tb.T(cc.Args[0]).String(), tb.T(cc.Args[1]).String()
					if got0 != k0 || got1 != k1 {
						L.Fail("R-C01-KEYFLOW", "Cache."+name+"#store."+m, fmt.Sprintf("store.%s called with (%s, %s), want (%s, %s)", m, got0, got1, k0, k1), ci.Pos())
					} else {
						L.Ok("R-C01-KEYFLOW", "Cache."+name+"#store."+m, "key/conflict are results #0/#1 of keyToHash(key)", ci.Pos())
					}
				case "Expiration":
					n++
					L.Check(tb.T(cc.Args[0]).String() == k0, "R-C01-KEYFLOW", "Cache."+name+"#store.Expiration", "key is result #0 of keyToHash(key)", "store.Expiration called with "+tb.T(cc.Args[0]).String()+", want "+k0, ci.Pos())
				case "Update", "Set":
					n++
					if itemOK(cc.Args[0], "store."+m, ci) {
						L.Ok("R-C01-KEYFLOW", "Cache."+name+"#store."+m, "Item.Key/Conflict are results #0/#1 of keyToHash(key)", ci.Pos())
					}
				case "IterValues", "Clear", "Cleanup", "SetShouldUpdateFn":
				default:
					L.Undecided("R-C01-KEYFLOW", "Cache."+name+"#store."+m, "store method unknown to the rule", ci.Pos())
				}
			}
			for _, s := range sendsIn(fn) {
				if !Match("fld[setBuf](p[0])", tb.T(s.Chan), nil) {
					continue
				}
				n++
				if itemOK(s.Val, "send", s.In) {
					L.Ok("R-C01-KEYFLOW", "Cache."+name+"#send", "buffered Item carries results #0/#1 of keyToHash(key)", s.In.Pos())
				}
			}
			L.CallSites(n)
			if n == 0 {
				L.Undecided("R-C01-KEYFLOW", "Cache."+name, "no store call or send found", fn.Pos())
			}
		})
	}
	// shard selection passes the same key on
	c.Group("R-C01-KEYFLOW", "shardedMap", func() {
		numShards := P.Const("ristretto", "numShards").Value.Value.ExactString()
		type sm struct{ m, callee, keyPat string }
		for _, s := range []sm{
			{"Get", "lockedMap.get", "p[1]"}, {"Del", "lockedMap.Del", "p[1]"}, {"Expiration", "lockedMap.Expiration", "p[1]"},
			{"Set", "lockedMap.Set", "fld[Key](p[1])"}, {"Update", "lockedMap.Update", "fld[Key](p[1])"},
		} {
			fn := P.Fn("ristretto", "shardedMap", s.m)
			L.Analysed(fname(fn))
			tb := newTB(fn)
			cs := callsTo(fn, s.callee)
			if len(cs) != 1 {
				L.Fail("R-C01-KEYFLOW", "shardedMap."+s.m, fmt.Sprintf("expected one call of %s, found %d", s.callee, len(cs)), fn.Pos())
				continue
			}
			args := cs[0].Common().Args
			want := "idx(fld[shards](p[0]),rem(" + s.keyPat + ",c[" + numShards + "]))"
			okShard := tb.T(args[0]).String() == want
			okArgs := true
			for i := 1; i < len(args); i++ {
				if tb.T(args[i]).String() != fmt.Sprintf("p[%d]", i) {
					okArgs = false
				}
			}
			// every return forwards the callee's results
			L.Check(okShard && okArgs, "R-C01-KEYFLOW", "shardedMap."+s.m, "shard = shards[key % numShards] for the key passed on, arguments forwarded unchanged",
				fmt.Sprintf("shard/argument mismatch: receiver %s (want %s), args %s", tb.T(args[0]), want, termStrings(termsOf(tb, args[1:]))), cs[0].Pos())
		}
	})
	c.Group("R-C01-KEYFLOW", "const-conflict", func() {
		// who passes a constant 0 conflict into store.Get/Del
		n := 0
		for _, fn := range P.SrcFuncs {
			if fn.Pkg != P.Pkgs["ristretto"] {
				continue
			}
			for _, ci := range allCalls(fn) {
				cc := ci.Common()
				cn := calleeName(cc)
				if cn != "iface:store.Get" && cn != "iface:store.Del" && cn != "shardedMap.Get" && cn != "shardedMap.Del" && cn != "lockedMap.get" && cn != "lockedMap.Del" {
					continue
				}
				a := cc.Args[len(cc.Args)-1]
				if _, isC := a.(*ssa.Const); isC {
					n++
					if fname(fn) != "Cache.processItems" {
						L.Fail("R-C01-KEYFLOW", "const-conflict:"+fname(fn), "passes a constant conflict hash to "+cn+"; only the victim loop of the applier may (the policy is keyed by the primary hash only)", ci.Pos())
					}
				}
			}
		}
		L.OkTrivial("R-C01-KEYFLOW", "const-conflict", fmt.Sprintf("%d constant-conflict call(s), all in Cache.processItems", n), 0)
	})

	// ---- R-C01-ENTRY
	entryRule(c, "R-C01-ENTRY")
	c.Group("R-C01-ENTRY", "Cache.processItems#Set", func() {
		fn := P.Fn("ristretto", "Cache", "processItems")
		L.Analysed(fname(fn))
		tb := newTB(fn)
		sets := callsTo(fn, "iface:store.Set")
		var adds []ssa.CallInstruction
		for _, a := range callsTo(fn, "defaultPolicy.Add") {
			// the admission that governs the store: the policy.Add executed before it on every path
			if len(sets) == 1 && instrDominates(a.(ssa.Instruction), sets[0].(ssa.Instruction)) {
				adds = append(adds, a)
			}
		}
		if len(sets) != 1 || len(adds) != 1 {
			L.Fail("R-C01-ENTRY", "Cache.processItems#Set", fmt.Sprintf("expected one store.Set governed by one policy.Add in the applier, found %d/%d", len(sets), len(adds)), fn.Pos())
			return
		}
		item := tb.T(sets[0].Common().Args[0]).String()
		addKey := tb.T(adds[0].Common().Args[1]).String()
		L.Check(addKey == "fld[Key]("+item+")", "R-C01-ENTRY", "Cache.processItems#Set", "the item stored is the item whose Key the policy admitted",
			"policy.Add was asked about "+addKey+" but the item stored is "+item, sets[0].Pos())
	})

	// ---- R-C01-RETURN
	c.Group("R-C01-RETURN", "lockedMap.get", func() {
		fn := P.Fn("ristretto", "lockedMap", "get")
		tb := newTB(fn)
		nTrue := 0
		for _, r := range returnsOf(fn) {
			rv := returnValues(r)
			t0, t1 := tb.T(rv[0]).String(), tb.T(rv[1]).String()
			switch {
			case t1 == "c[true]":
				nTrue++
				want := "fld[value](lookup(" + dataPat + ",p[1]))"
				L.Check(t0 == want, "R-C01-RETURN", "lockedMap.get#true", "found=true returns the value field of m.data[key]", "found=true returns "+t0+", want "+want, r.Pos())
			case t1 == "c[false]":
				if t0 != "call[zeroValue]" {
					L.Fail("R-C01-RETURN", "lockedMap.get#false", "found=false returns "+t0+" instead of the zero value", r.Pos())
				}
			default:
				L.Fail("R-C01-RETURN", "lockedMap.get#dyn", "found result is not a constant: "+t1, r.Pos())
			}
		}
		if nTrue == 0 {
			L.Fail("R-C01-RETURN", "lockedMap.get#true", "no return with found=true", fn.Pos())
		}
		L.OkTrivial("R-C01-RETURN", "lockedMap.get#false", "all other returns yield (zero,false)", fn.Pos())
	})
	c.Group("R-C01-RETURN", "Cache.Get", func() {
		fn := P.Fn("ristretto", "Cache", "Get")
		tb := newTB(fn)
		gets := callsTo(fn, "iface:store.Get")
		if len(gets) != 1 {
			L.Fail("R-C01-RETURN", "Cache.Get", "expected exactly one store.Get", fn.Pos())
			return
		}
		g := tb.T(gets[0].(*ssa.Call)).String()
		ok := true
		n := 0
		for _, r := range returnsOf(fn) {
			rv := returnValues(r)
			t0, t1 := tb.T(rv[0]).String(), tb.T(rv[1]).String()
			if t1 == "c[false]" {
				continue // a miss: whatever accompanies found=false is not "a value returned for the key"
			}
			n++
			switch {
			case t0 == "ext[0]("+g+")" && t1 == "ext[1]("+g+")":
			case t0 == "ext[0]("+g+")" && t1 == "c[true]":
				// constant true: only on the found side of that store.Get
				found := edgesWhere(fn, tb, "ext[1]("+g+")", nil, true)
				if b, _ := reach(after(gets[0].(ssa.Instruction)), isInstr(r), nil, cutSet(found)); b != nil || len(found) == 0 {
					ok = false
					L.Fail("R-C01-RETURN", "Cache.Get", "returns found=true on a path that has not passed the found side of store.Get", r.Pos())
				}
			default:
				ok = false
				L.Fail("R-C01-RETURN", "Cache.Get", "returns ("+t0+", "+t1+"), want both results of the one store.Get", r.Pos())
			}
		}
		if ok && n > 0 {
			L.Ok("R-C01-RETURN", "Cache.Get", "returns exactly the (value, found) pair of store.Get(keyHash, conflictHash)", gets[0].Pos())
		} else if n == 0 {
			L.Fail("R-C01-RETURN", "Cache.Get", "no return forwards the result of store.Get", fn.Pos())
		}
	})

	// ---- R-C01-HASHARMS
	runC01HashArms(c)
}

// runC01HashArms: shape and exhaustiveness of z.KeyToHash (shared with C08's no-panic rule).
func runC01HashArms(c *Ctx) {
	L, P := c.L, c.P
	c.Group("R-C01-HASHARMS", "z.KeyToHash", func() {
		fn := P.Fn("z", "", "KeyToHash")
		L.Analysed(fname(fn))
		tb := newTB(fn)
		typed, refl := 0, 0
		for i, r := range returnsOf(fn) {
			rv := returnValues(r)
			t0, t1 := tb.T(rv[0]), tb.T(rv[1])
			cons := fmt.Sprintf("z.KeyToHash#ret%d", i)
			fromKey := strings.Contains(t0.String(), "p[0]")
			isRefl := strings.Contains(t0.String(), "reflect.")
			env := Env{}
			shapeOK := false
			switch {
			case t1.String() == "c[0]":
				// identity arm: uint64(k) / v.Uint() / uint64(v.Int())
				s := t0
				if s.Op == "conv" {
					s = s.Args[0]
				}
				shapeOK = Match("assert(p[0])", s, nil) || Match("call[reflect.Value.Uint](_)", s, nil) || Match("call[reflect.Value.Int](_)", s, nil)
			case Match("call[z.MemHashString](?x)", t0, env) && Match("call[xxhash.Sum64String](?x)", t1, env):
				shapeOK = true
			case Match("call[z.MemHash](?x)", t0, env) && Match("call[xxhash.Sum64](?x)", t1, env):
				shapeOK = true
			}
			if shapeOK && fromKey && !isRefl && env["x"] != nil {
				// typed arm: the operand hashed is the key itself (the asserted value, or a whole-value
				// string/[]byte conversion of it) - not a view of it with another length (cap(k), a
				// prefix, unsafe.String over the backing array): distinct keys would share both hashes
				x := env["x"]
				if x.Op == "conv" && len(x.Args) == 1 {
					x = x.Args[0]
				}
				if !Match("assert(p[0])", x, nil) {
					L.Fail("R-C01-HASHARMS", cons, "typed arm hashes "+env["x"].String()+", not the key value itself: the bytes covered by the two hashes differ from the key's own bytes (e.g. capacity instead of length), so different keys collide on both hashes", r.Pos())
					continue
				}
			}
			if shapeOK && fromKey && isRefl {
				// the accessor must be the one that is defined for the reflect.Kind governing this arm
				// (v.String() of a Slice value is the constant "<[]uint8 Value>": all such keys would collide).
				// the kinds governing this arm: kind tests whose equal side reaches the return without crossing another kind test
				kindOf := func(b *ssa.BasicBlock) (string, int) {
					iff := lastIf(b)
					if iff == nil {
						return "", 0
					}
					e2 := Env{}
					pol := condPolarity(tb.T(iff.Cond), "eq(call[reflect.Value.Kind](call[reflect.ValueOf](p[0])),?k)", e2)
					if pol == 0 || e2["k"].Op != "c" {
						return "", 0
					}
					return e2["k"].Sym, pol
				}
				isKindTest := func(in ssa.Instruction) bool {
					if _, isIf := in.(*ssa.If); !isIf {
						return false
					}
					k, _ := kindOf(in.Block())
					return k != ""
				}
				classOf := func(kind string) string {
					for _, kn := range []string{"String", "Slice", "Uint", "Uint8", "Uint16", "Uint32", "Uint64", "Uintptr", "Int", "Int8", "Int16", "Int32", "Int64"} {
						if hashKindConst(P, kn) == kind {
							switch {
							case kn == "String":
								return "call[z.MemHashString](call[reflect.Value.String]("
							case kn == "Slice":
								return "call[z.MemHash](call[reflect.Value.Bytes]("
							case strings.HasPrefix(kn, "Uint"):
								return "call[reflect.Value.Uint]("
							default:
								return "conv[uint64](call[reflect.Value.Int]("
							}
						}
					}
					return ""
				}
				kind, want := "", ""
				conflict := false
				for _, b := range fn.Blocks {
					k, pol := kindOf(b)
					if k == "" {
						continue
					}
					succ := 0
					if pol < 0 {
						succ = 1
					}
					if hit, _ := reach(Pos{b.Succs[succ], 0}, isInstr(r), isKindTest, nil); hit == nil {
						continue
					}
					w := classOf(k)
					if want != "" && w != want {
						conflict = true
					}
					kind, want = kind+" "+k, w
				}
				kind = strings.TrimSpace(kind)
				if conflict {
					want = ""
				}
				if kind == "" || want == "" {
					L.Undecided("R-C01-HASHARMS", cons, "reflect arm is not governed by a `v.Kind() == reflect.<K>` test the rule knows (kind constant "+kind+")", r.Pos())
					continue
				}
				if !strings.HasPrefix(t0.String(), want) {
					L.Fail("R-C01-HASHARMS", cons, "reflect arm for kind constant "+kind+" returns "+t0.String()+"; the accessor defined for that kind is "+want+"…): other accessors panic or yield a constant, so distinct keys collide on both hashes", r.Pos())
					continue
				}
			}
			if shapeOK && fromKey {
				if isRefl {
					refl++
				} else {
					typed++
				}
				L.Ok("R-C01-HASHARMS", cons, "("+t0.String()+", "+t1.String()+")", r.Pos())
			} else {
				L.Fail("R-C01-HASHARMS", cons, "return ("+t0.String()+", "+t1.String()+") is neither (uint64(k),0) of the key nor two hashes of the same key-derived operand", r.Pos())
			}
		}
		_ = typed
		_ = refl
		// exhaustiveness over the Key constraint's type set: each term needs a typed arm
		// (type assertion on the key) and a reflect-kind arm (named types with that underlying type).
		keyT := P.Named("z", "Key")
		iface, _ := keyT.Underlying().(*types.Interface)
		asserted := map[string]bool{}
		kinds := map[string]bool{}
		eachInstr(fn, func(in ssa.Instruction) {
			if ta, ok := in.(*ssa.TypeAssert); ok && Match("p[0]", tb.T(ta.X), nil) {
				asserted[types.TypeString(ta.AssertedType, nil)] = true
			}
			if iff, ok := in.(*ssa.If); ok {
				env := Env{}
				if condPolarity(tb.T(iff.Cond), "eq(call[reflect.Value.Kind](_),?k)", env) != 0 && env["k"].Op == "c" {
					kinds[env["k"].Sym] = true
				}
			}
		})
		kindConst := func(name string) string { return hashKindConst(P, name) }
		nTerms := 0
		if iface != nil {
			for i := 0; i < iface.NumEmbeddeds(); i++ {
				u, ok := iface.EmbeddedType(i).(*types.Union)
				if !ok {
					continue
				}
				for j := 0; j < u.Len(); j++ {
					tt := u.Term(j).Type()
					nTerms++
					ts := types.TypeString(tt, nil)
					kn := ""
					switch x := tt.Underlying().(type) {
					case *types.Basic:
						n := x.Name()
						if n == "byte" {
							n = "uint8"
						}
						kn = strings.ToUpper(n[:1]) + n[1:]
					case *types.Slice:
						kn = "Slice"
					}
					cons := "z.KeyToHash#term:" + ts
					if !asserted[ts] && !(ts == "byte" && asserted["uint8"]) && !(ts == "uint8" && asserted["byte"]) {
						L.Fail("R-C01-HASHARMS", cons, "constraint term "+ts+" has no typed arm (no type assertion of the key to it): such keys fall to the reflect path or the panic", fn.Pos())
					} else if !kinds[kindConst(kn)] {
						L.Fail("R-C01-HASHARMS", cons, "constraint term "+ts+" has no reflect.Kind arm ("+kn+"): named key types with this underlying type reach the 'Key type not supported' panic", fn.Pos())
					} else {
						L.OkTrivial("R-C01-HASHARMS", cons, "typed arm and reflect."+kn+" arm present", fn.Pos())
					}
				}
			}
		}
		if nTerms == 0 {
			L.Undecided("R-C01-HASHARMS", "z.KeyToHash#terms", "could not read the type set of the z.Key constraint", fn.Pos())
		}
		// every reflect-kind arm RETURNS for the keys the constraint admits: the only slice term is ~[]byte,
		// so inside the Slice arm the element kind is Uint8; taking that as a fact (the edges on which the
		// element-kind test fails are infeasible), no path from an arm's kind test leads to the panic
		elemNot := edgesWhere(fn, tb, "eq(c["+kindConst("Uint8")+"],call[iface:Type.Kind](call[iface:Type.Elem](_)))", nil, false)
		nArms, bad := 0, ""
		var badPos token.Pos
		for _, b := range fn.Blocks {
			iff := lastIf(b)
			if iff == nil {
				continue
			}
			env := Env{}
			pol := condPolarity(tb.T(iff.Cond), "eq(call[reflect.Value.Kind](_),?k)", env)
			if pol == 0 || env["k"].Op != "c" {
				continue
			}
			succ := 0
			if pol < 0 {
				succ = 1
			}
			nArms++
			isKindTest := func(in ssa.Instruction) bool {
				i2, ok := in.(*ssa.If)
				return ok && i2 != iff && condPolarity(tb.T(i2.Cond), "eq(call[reflect.Value.Kind](_),?k)", Env{}) != 0
			}
			if hit, path := reach(Pos{b.Succs[succ], 0}, isPanic, func(in ssa.Instruction) bool { return isReturn(in) || isKindTest(in) }, cutSet(elemNot)); hit != nil {
				bad = "the arm for reflect kind constant " + env["k"].Sym + " can reach the 'Key type not supported' panic (block path " + pathString(path) + ") for a key type the Key constraint admits"
				badPos = instrPos(hit)
			}
		}
		L.Check(bad == "" && nArms >= 9, "R-C01-HASHARMS", "z.KeyToHash#arm-returns", fmt.Sprintf("%d reflect-kind arms, each returns a hash pair for the key types of its kind (element kind of a slice key taken as Uint8, the only slice term of the constraint)", nArms), bad, badPos)
	})
}

func hashKindConst(P *Prog, name string) string {
	reflectPkg := P.PPkgs["z"].Imports["reflect"]
	if reflectPkg == nil {
		return "?"
	}
	if c, ok := reflectPkg.Types.Scope().Lookup(name).(*types.Const); ok {
		return c.Val().ExactString()
	}
	return "?"
}
