package main

import (
	"fmt"
	"sort"
	"strings"

	"golang.org/x/tools/go/ssa"
)

func init() {
	register(&PropCheck{
		ID: "C05",
		Explanation: "Decides the delete-twice/FIFO skeleton of 'a completed Del wins over every earlier Set once writes have drained': " +
			"(R-C05-DEL) on every path of Cache.Del past the closed-guard there is an immediate store.Del(keyHash, conflictHash) whose value goes to onExit, and an unconditional blocking send on setBuf of an Item{flag: itemDelete, Key: keyHash, Conflict: conflictHash}; " +
			"(R-C05-FIFO) the only senders on setBuf are Wait, SetWithTTL and Del, the only receivers processItems and Clear, the channel field is assigned once and closed only by Close; " +
			"(R-C05-ONECONSUMER) `go processItems` occurs exactly once in NewCache and once in Clear, where the drain and the restart come after the stop/done handshake, and the applier's stop arm answers on done and returns without receiving again; " +
			"(R-C05-TOMB) the applier's itemDelete arm removes the key from the policy and, with the item's own key and conflict, from the map on every path; " +
			"(R-C05-EXHAUSTIVE) every itemFlag constant has an arm in the applier; " +
			"(R-C05-WAIT) Wait, the drain point the property is stated against, blocks until its marker has been consumed (rule shared with C06). " +
			"Trusted: Go channels are FIFO. NOT decided: the end-to-end statement (the history quantifier).",
		Run: runC05,
	})
}

// chanUsers lists, for the channel field Cache.<field>, the functions that send on,
// receive from, or close it.
func chanUsers(P *Prog, field string) (senders, receivers, closers map[string][]ssa.Instruction) {
	senders, receivers, closers = map[string][]ssa.Instruction{}, map[string][]ssa.Instruction{}, map[string][]ssa.Instruction{}
	pat := "fld[" + field + "](_)"
	for _, fn := range P.SrcFuncs {
		if fn.Pkg != P.Pkgs["ristretto"] {
			continue
		}
		tb := newTB(fn)
		isIt := func(v ssa.Value) bool {
			t := tb.T(v)
			if !Match(pat, t, nil) {
				return false
			}
			// base must be a Cache
			if ld, ok := v.(*ssa.UnOp); ok {
				if fa, ok := ld.X.(*ssa.FieldAddr); ok {
					return recvName(fa.X.Type()) == "Cache"
				}
			}
			return false
		}
		for _, s := range sendsIn(fn) {
			if isIt(s.Chan) {
				senders[fname(fn)] = append(senders[fname(fn)], s.In)
			}
		}
		for _, r := range recvsIn(fn) {
			if isIt(r.Chan) {
				receivers[fname(fn)] = append(receivers[fname(fn)], r.In)
			}
		}
		for _, cl := range builtinCalls(fn, "close") {
			if isIt(cl.Call.Args[0]) {
				closers[fname(fn)] = append(closers[fname(fn)], cl)
			}
		}
	}
	return
}

func keysOf(m map[string][]ssa.Instruction) string {
	var ks []string
	for k := range m {
		ks = append(ks, k)
	}
	sort.Strings(ks)
	return strings.Join(ks, ",")
}

// tombstoneRule: the applier's itemDelete arm removes from policy and map (same key,
// same conflict) on every path. Shared by C05 and C13.
func tombstoneRule(c *Ctx, ruleID string) {
	L, P := c.L, c.P
	c.Group(ruleID, "Cache.processItems#itemDelete", func() {
		fn := P.Fn("ristretto", "Cache", "processItems")
		L.Analysed(fname(fn))
		tb := newTB(fn)
		sel, bufState, I := applierSelect(fn, tb)
		if sel == nil {
			L.Undecided(ruleID, "Cache.processItems#itemDelete", "applier select on setBuf not found", fn.Pos())
			return
		}
		itemDelete := P.Const("ristretto", "itemDelete").Value.Value.ExactString()
		paths, ok := explore(fn, tb, ExploreOpts{Start: after(sel), StopAt: isInstr(sel), TrackField: trackItemFlag})
		if !ok {
			L.Undecided(ruleID, "Cache.processItems#itemDelete", "too many paths", fn.Pos())
			return
		}
		n, good := 0, true
		for _, p := range paths {
			if !p.SelectTaken(sel, bufState) || p.CondHeld(tb, "ne(fld[wait]("+I+"),c[nil])", nil) == 1 {
				continue
			}
			if p.CondHeld(tb, "eq(fld[flag]("+I+"),c["+itemDelete+"])", nil) != 1 {
				continue
			}
			n++
			nPD := countCalls(p, tb, "call[defaultPolicy.Del](fld[cachePolicy](p[0]),fld[Key]("+I+"))", nil)
			nSD := countCalls(p, tb, "call[iface:store.Del](fld[storedItems](p[0]),fld[Key]("+I+"),fld[Conflict]("+I+"))", nil)
			if nPD != 1 || nSD != 1 {
				good = false
				L.Fail(ruleID, "Cache.processItems#itemDelete", fmt.Sprintf("tombstone path with policy.Del(i.Key)=%d and store.Del(i.Key,i.Conflict)=%d, want 1 and 1 (block path %s): a buffered insert applied earlier survives the delete", nPD, nSD, p.BlockPath()), sel.Pos())
			}
		}
		if n == 0 {
			L.Fail(ruleID, "Cache.processItems#itemDelete", "the applier has no arm for flag == itemDelete", sel.Pos())
		} else if good {
			L.Ok(ruleID, "Cache.processItems#itemDelete", fmt.Sprintf("policy.Del(i.Key) and store.Del(i.Key,i.Conflict) on every tombstone path (%d)", n), sel.Pos())
		}
	})
}

// applierSelect finds the applier's blocking select, the state receiving from setBuf
// and the term of the received item.
func applierSelect(fn *ssa.Function, tb *TB) (*ssa.Select, int, string) {
	var sel *ssa.Select
	eachInstr(fn, func(in ssa.Instruction) {
		if s, ok := in.(*ssa.Select); ok && s.Blocking {
			sel = s
		}
	})
	if sel == nil {
		return nil, -1, ""
	}
	for i, st := range sel.States {
		if Match("fld[setBuf](p[0])", tb.T(st.Chan), nil) {
			if v := selectRecvValue(sel, i); v != nil {
				return sel, i, tb.T(v).String()
			}
		}
	}
	return nil, -1, ""
}

// flagExhaustiveRule: every itemFlag constant has an arm in the applier.
func flagExhaustiveRule(c *Ctx, ruleID string) {
	L, P := c.L, c.P
	c.Group(ruleID, "Cache.processItems#flags", func() {
		fn := P.Fn("ristretto", "Cache", "processItems")
		tb := newTB(fn)
		_, _, I := applierSelect(fn, tb)
		n := 0
		for _, m := range P.Pkgs["ristretto"].Members {
			if nc, ok := m.(*ssa.NamedConst); ok && recvName(nc.Type()) == "itemFlag" {
				n++
				k := nc.Value.Value.ExactString()
				if len(ifsMatching(fn, tb, "eq(fld[flag]("+I+"),c["+k+"])", nil)) == 0 {
					L.Fail(ruleID, "Cache.processItems#flag:"+nc.Name(), "item flag "+nc.Name()+" has no arm in the applier's switch: such items are silently discarded", fn.Pos())
				} else {
					L.OkTrivial(ruleID, "Cache.processItems#flag:"+nc.Name(), "has an arm", fn.Pos())
				}
			}
		}
		if n < 3 {
			L.Undecided(ruleID, "Cache.processItems#flags", "fewer than 3 itemFlag constants found", fn.Pos())
		}
	})
}

// delTombstoneRule: Cache.Del deletes twice (immediately, and through an unconditional
// in-order tombstone). Shared by C05, C06 and C13.
func delTombstoneRule(c *Ctx, ruleID string) {
	L, P := c.L, c.P
	c.Group(ruleID, "Cache.Del", func() {
		fn := P.Fn("ristretto", "Cache", "Del")
		L.Analysed(fname(fn))
		tb := newTB(fn)
		khs := dynCallsVia(fn, tb, "fld[keyToHash](p[0])")
		if len(khs) != 1 {
			L.Undecided(ruleID, "Cache.Del", "expected one keyToHash call", fn.Pos())
			return
		}
		kh := khs[0].(*ssa.Call)
		k0, k1 := "ext[0]("+tb.T(kh).String()+")", "ext[1]("+tb.T(kh).String()+")"
		itemDelete := P.Const("ristretto", "itemDelete").Value.Value.ExactString()
		delPat := "call[iface:store.Del](fld[storedItems](p[0])," + k0 + "," + k1 + ")"
		isDel := func(in ssa.Instruction) bool {
			cl, ok := in.(*ssa.Call)
			return ok && Match(delPat, tb.T(cl), nil)
		}
		isExit := func(in ssa.Instruction) bool {
			if d, ok := in.(*ssa.Defer); ok { // deferred report runs at every return after this point
				return Match("call[dyn](fld[onExit](p[0]),ext[1]("+delPat+"))", tb.callTerm(nil, &d.Call), nil)
			}
			cl, ok := in.(*ssa.Call)
			return ok && Match("call[dyn](fld[onExit](p[0]),ext[1]("+delPat+"))", tb.T(cl), nil)
		}
		tombProblem := ""
		isTomb := func(in ssa.Instruction) bool {
			s, ok := in.(*ssa.Send)
			if !ok || !Match("fld[setBuf](p[0])", tb.T(s.Chan), nil) {
				return false
			}
			a := structValueAlloc(s.X)
			if a == nil {
				tombProblem = "tombstone is not a local Item literal"
				return false
			}
			lf := litFields(a)
			for f, want := range map[string]string{"flag": "c[" + itemDelete + "]", "Key": k0, "Conflict": k1} {
				if len(lf[f]) != 1 || tb.T(lf[f][0].Val).String() != want {
					got := "<unset>"
					if len(lf[f]) > 0 {
						got = tb.T(lf[f][0].Val).String()
					}
					tombProblem = fmt.Sprintf("tombstone Item.%s = %s, want %s", f, got, want)
					return false
				}
			}
			return true
		}
		// the guard must lead to keyToHash: every return not preceded by keyToHash is the inert one
		for _, g := range []struct {
			name string
			goal func(ssa.Instruction) bool
			msg  string
		}{
			{"immediate", isDel, "a path through Del returns without the immediate storedItems.Del(keyHash, conflictHash)"},
			{"onExit", isExit, "a path through Del returns without passing the deleted value to onExit"},
			{"tombstone", isTomb, "a path through Del returns without an unconditional blocking send of the {itemDelete, keyHash, conflictHash} tombstone on setBuf: an insert still in the write buffer would resurrect the key"},
		} {
			bad, path := mustPass(after(kh), g.goal, nil)
			if bad != nil {
				d := g.msg + " (block path " + pathString(path) + ")"
				if g.name == "tombstone" {
					for _, s := range sendsIn(fn) {
						if s.Sel != nil && Match("fld[setBuf](p[0])", tb.T(s.Chan), nil) {
							d += "; the send found is an arm of a select and can be skipped"
						}
					}
					if tombProblem != "" {
						d += "; " + tombProblem
					}
				}
				L.Fail(ruleID, "Cache.Del#"+g.name, d, instrPos(bad))
			} else {
				L.Ok(ruleID, "Cache.Del#"+g.name, "on every path past the guard", kh.Pos())
			}
		}
	})
}

// fifoRule: who sends on / receives from / closes / assigns Cache.setBuf. Shared by C05 and C06.
func fifoRule(c *Ctx, ruleID string) {
	L, P := c.L, c.P
	c.Group(ruleID, "Cache.setBuf", func() {
		senders, receivers, closers := chanUsers(P, "setBuf")
		L.CallSites(len(senders) + len(receivers))
		L.Check(keysOf(senders) == "Cache.Del,Cache.SetWithTTL,Cache.Wait", ruleID, "setBuf#senders", "senders are Wait, SetWithTTL, Del",
			"senders on setBuf are {"+keysOf(senders)+"}, want {Cache.Del,Cache.SetWithTTL,Cache.Wait}: a second producer path or a missing one changes the order of writes", 0)
		L.Check(keysOf(receivers) == "Cache.Clear,Cache.processItems", ruleID, "setBuf#receivers", "receivers are processItems and Clear",
			"receivers on setBuf are {"+keysOf(receivers)+"}, want {Cache.Clear,Cache.processItems}", 0)
		L.Check(keysOf(closers) == "Cache.Close", ruleID, "setBuf#closers", "closed only by Close", "setBuf is closed by {"+keysOf(closers)+"}", 0)
		n := 0
		for _, fn := range P.SrcFuncs {
			if fn.Pkg != P.Pkgs["ristretto"] {
				continue
			}
			for _, st := range fieldStoresIn(fn, "Cache", "setBuf") {
				n++
				if fname(fn) != "NewCache" {
					L.Fail(ruleID, "setBuf#assign:"+fname(fn), "setBuf is re-assigned outside NewCache: a second channel breaks the single FIFO", st.Pos())
				}
			}
		}
		L.Check(n == 1, ruleID, "setBuf#assign", "assigned exactly once (NewCache)", fmt.Sprintf("setBuf assigned %d times", n), 0)
	})
}

// oneConsumerRule: at most one goroutine consumes setBuf at any time. Shared by C05, C06, C15.
func oneConsumerRule(c *Ctx, ruleID string) {
	L, P := c.L, c.P
	c.Group(ruleID, "go processItems", func() {
		target := P.Fn("ristretto", "Cache", "processItems")
		gos := map[string][]*ssa.Go{}
		for _, fn := range P.SrcFuncs {
			if fn.Pkg != P.Pkgs["ristretto"] {
				continue
			}
			eachInstr(fn, func(in ssa.Instruction) {
				if g, ok := in.(*ssa.Go); ok && staticCallee(&g.Call) == target {
					gos[fname(fn)] = append(gos[fname(fn)], g)
				}
			})
		}
		var names []string
		for k, v := range gos {
			names = append(names, fmt.Sprintf("%s×%d", k, len(v)))
		}
		sort.Strings(names)
		if strings.Join(names, ",") != "Cache.Clear×1,NewCache×1" {
			L.Fail(ruleID, "go#sites", "go processItems occurs at {"+strings.Join(names, ",")+"}, want exactly once in NewCache and once in Clear: two consumers apply writes out of order", 0)
			return
		}
		L.OkTrivial(ruleID, "go#sites", "exactly NewCache×1 and Clear×1", 0)
		for name, gl := range gos {
			g := gl[0]
			if again, _ := reach(after(g), isInstr(g), nil, nil); again != nil {
				L.Fail(ruleID, "go#"+name, "the go statement sits in a loop", g.Pos())
			}
		}
		// Clear: handshake dominates drain and restart; restart is last
		fn := P.Fn("ristretto", "Cache", "Clear")
		tb := newTB(fn)
		var stopSend, doneRecv ssa.Instruction
		for _, s := range sendsIn(fn) {
			if Match("fld[stop](p[0])", tb.T(s.Chan), nil) && s.Blocking && s.Sel == nil {
				stopSend = s.In
			}
		}
		for _, r := range recvsIn(fn) {
			if Match("fld[done](p[0])", tb.T(r.Chan), nil) && r.Blocking && r.Sel == nil {
				doneRecv = r.In
			}
		}
		g := gos["Cache.Clear"][0]
		if stopSend == nil || doneRecv == nil {
			L.Fail(ruleID, "Cache.Clear#handshake", "Clear does not stop the applier with `stop <-` then `<-done` before draining", fn.Pos())
		} else {
			ok := instrDominates(stopSend, doneRecv) && instrDominates(doneRecv, g)
			for _, r := range recvsIn(fn) {
				if Match("fld[setBuf](p[0])", tb.T(r.Chan), nil) && !instrDominates(doneRecv, r.In) {
					ok = false
				}
			}
			L.Check(ok, ruleID, "Cache.Clear#handshake", "stop<-; <-done dominate the drain of setBuf and the restart", "the drain or the restart is reachable before the applier has been stopped", stopSend.Pos())
			late, _ := reach(after(g), func(in ssa.Instruction) bool {
				for _, r := range recvsIn(fn) {
					if r.In == in && Match("fld[setBuf](p[0])", tb.T(r.Chan), nil) {
						return true
					}
				}
				return false
			}, nil, nil)
			L.Check(late == nil, ruleID, "Cache.Clear#restart-last", "no receive from setBuf after the applier was restarted", "Clear receives from setBuf after restarting the applier (two consumers)", g.Pos())
			// restart on every path after the handshake
			bad, path := mustPass(after(doneRecv), isInstr(g), nil)
			L.Check(bad == nil, ruleID, "Cache.Clear#restart-always", "the applier is restarted on every path", "a path through Clear returns without restarting the applier (block path "+pathString(path)+")", instrPos(bad))
		}
		// applier's stop arm
		pfn := target
		ptb := newTB(pfn)
		sel, _, _ := applierSelect(pfn, ptb)
		if sel == nil {
			L.Undecided(ruleID, "Cache.processItems#stop", "applier select not found", pfn.Pos())
			return
		}
		stopState := -1
		for i, st := range sel.States {
			if Match("fld[stop](p[0])", ptb.T(st.Chan), nil) {
				stopState = i
			}
		}
		if stopState < 0 {
			L.Fail(ruleID, "Cache.processItems#stop", "the applier has no stop arm", sel.Pos())
			return
		}
		paths, _ := explore(pfn, ptb, ExploreOpts{Start: after(sel), StopAt: isInstr(sel), TrackField: trackItemFlag})
		okStop, n := true, 0
		for _, p := range paths {
			if !p.SelectTaken(sel, stopState) {
				continue
			}
			n++
			_, isRet := p.End.(*ssa.Return)
			sendsDone := p.Has(func(in ssa.Instruction) bool {
				s, ok := in.(*ssa.Send)
				return ok && Match("fld[done](p[0])", ptb.T(s.Chan), nil)
			})
			if !isRet || !sendsDone {
				okStop = false
			}
		}
		L.Check(okStop && n > 0, ruleID, "Cache.processItems#stop", "stop arm: done <- ...; return", "the applier's stop arm does not answer on done and return: Clear would drain while the applier still consumes", sel.Pos())
	})
}

func runC05(c *Ctx) {
	L := c.L
	L.Rule("R-C05-DEL", "Cache.Del: immediate store.Del(keyHash,conflictHash) with its value to onExit, and an unconditional blocking tombstone send {itemDelete, keyHash, conflictHash} on setBuf, on every path past the guard", 3)
	L.Rule("R-C05-FIFO", "setBuf: senders = Wait, SetWithTTL, Del; receivers = processItems, Clear; assigned once; closed only by Close", 4)
	L.Rule("R-C05-ONECONSUMER", "go processItems exactly in NewCache (once) and Clear (after the handshake, last); stop arm answers and returns", 4)
	L.Rule("R-C05-TOMB", "applier's itemDelete arm: policy.Del(i.Key) and store.Del(i.Key, i.Conflict) on every path", 1)
	L.Rule("R-C05-EXHAUSTIVE", "every itemFlag constant has an arm in the applier", 3)

	L.Rule("R-C05-WAIT", "the drain point the property quantifies over: Wait sends its marker with a blocking send and returns only after the marker channel was closed (no timeout, no select)", 2)
	delTombstoneRule(c, "R-C05-DEL")

	fifoRule(c, "R-C05-FIFO")
	oneConsumerRule(c, "R-C05-ONECONSUMER")

	tombstoneRule(c, "R-C05-TOMB")
	refusalsRule(c, "R-C05-TOMB", "Del") // both the immediate removal and the tombstone go through lockedMap.Del: it may decline only for an absent key or a conflict mismatch
	flagExhaustiveRule(c, "R-C05-EXHAUSTIVE")
	waitRule(c, "R-C05-WAIT")
}
