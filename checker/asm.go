package main

import (
	"bufio"
	"fmt"
	"os"
	"regexp"
	"strconv"
	"strings"
)

// A small model of the Plan 9 amd64 assembly subset used by z/simd/search_amd64.s and a
// forward abstract interpreter over it (interval × congruence per register, with the
// symbolic arguments base, len, k). Nothing is executed on concrete data.

type asmOperand struct {
	Kind  string // reg | imm | fp | mem | label
	Reg   string
	Imm   int64
	Name  string // fp name
	Off   int64  // fp offset / mem displacement
	Base  string
	Index string
	Scale int64
	Raw   string
}

type asmInstr struct {
	Op    string
	Args  []asmOperand
	Line  int
	Label string // label defined immediately before this instruction (may be empty)
}

type asmFunc struct {
	Name      string
	FrameSize int64
	ArgSize   int64
	Instrs    []asmInstr
	Labels    map[string]int // label -> instr index
	File      string
	Line      int
}

var (
	reText  = regexp.MustCompile(`^TEXT\s+·(\w+)\(SB\),\s*([\w|]+),\s*\$(-?\d+)-(\d+)`)
	reLabel = regexp.MustCompile(`^(\w+):$`)
	reFP    = regexp.MustCompile(`^(\w+)\+(-?\d+)\(FP\)$`)
	reMem   = regexp.MustCompile(`^(-?(?:0x)?[0-9a-fA-F]*)\((\w+)\)(?:\((\w+)\*(\d)\))?$`)
	reImm   = regexp.MustCompile(`^\$(-?(?:0x[0-9a-fA-F]+|\d+))$`)
	reReg   = regexp.MustCompile(`^(AX|BX|CX|DX|SI|DI|BP|SP|R\d+)$`)
)

func parseAsmOperand(s string) (asmOperand, error) {
	s = strings.TrimSpace(s)
	o := asmOperand{Raw: s}
	switch {
	case reReg.MatchString(s):
		o.Kind, o.Reg = "reg", s
	case reImm.MatchString(s):
		m := reImm.FindStringSubmatch(s)
		v, err := strconv.ParseInt(m[1], 0, 64)
		if err != nil {
			return o, err
		}
		o.Kind, o.Imm = "imm", v
	case reFP.MatchString(s):
		m := reFP.FindStringSubmatch(s)
		o.Kind, o.Name = "fp", m[1]
		o.Off, _ = strconv.ParseInt(m[2], 10, 64)
	case reMem.MatchString(s):
		m := reMem.FindStringSubmatch(s)
		o.Kind, o.Base, o.Index = "mem", m[2], m[3]
		if m[1] != "" {
			v, err := strconv.ParseInt(m[1], 0, 64)
			if err != nil {
				return o, err
			}
			o.Off = v
		}
		if m[4] != "" {
			o.Scale, _ = strconv.ParseInt(m[4], 10, 64)
		}
	case regexp.MustCompile(`^\w+$`).MatchString(s):
		o.Kind, o.Name = "label", s
	default:
		return o, fmt.Errorf("unrecognised operand %q", s)
	}
	return o, nil
}

func parseAsmFile(path string) ([]*asmFunc, error) {
	f, err := os.Open(path)
	if err != nil {
		return nil, err
	}
	defer f.Close()
	var funcs []*asmFunc
	var cur *asmFunc
	pendingLabel := ""
	sc := bufio.NewScanner(f)
	ln := 0
	for sc.Scan() {
		ln++
		line := sc.Text()
		if i := strings.Index(line, "//"); i >= 0 {
			line = line[:i]
		}
		line = strings.TrimSpace(line)
		if line == "" || strings.HasPrefix(line, "#") {
			continue
		}
		if m := reText.FindStringSubmatch(line); m != nil {
			cur = &asmFunc{Name: m[1], Labels: map[string]int{}, File: path, Line: ln}
			cur.FrameSize, _ = strconv.ParseInt(m[3], 10, 64)
			cur.ArgSize, _ = strconv.ParseInt(m[4], 10, 64)
			funcs = append(funcs, cur)
			continue
		}
		if cur == nil {
			return nil, fmt.Errorf("%s:%d: instruction outside TEXT", path, ln)
		}
		if m := reLabel.FindStringSubmatch(line); m != nil {
			cur.Labels[m[1]] = len(cur.Instrs)
			pendingLabel = m[1]
			continue
		}
		fields := strings.SplitN(line, " ", 2)
		in := asmInstr{Op: strings.TrimSpace(fields[0]), Line: ln, Label: pendingLabel}
		pendingLabel = ""
		if len(fields) == 2 {
			for _, a := range splitAsmArgs(fields[1]) {
				op, err := parseAsmOperand(a)
				if err != nil {
					return nil, fmt.Errorf("%s:%d: %v", path, ln, err)
				}
				in.Args = append(in.Args, op)
			}
		}
		cur.Instrs = append(cur.Instrs, in)
	}
	return funcs, sc.Err()
}

func splitAsmArgs(s string) []string {
	var out []string
	depth, start := 0, 0
	for i, r := range s {
		switch r {
		case '(':
			depth++
		case ')':
			depth--
		case ',':
			if depth == 0 {
				out = append(out, strings.TrimSpace(s[start:i]))
				start = i + 1
			}
		}
	}
	out = append(out, strings.TrimSpace(s[start:]))
	return out
}

// ---------------------------------------------------------------------------------
// Abstract values

type aKind int

const (
	aUnknown aKind = iota
	aBase          // &xs[0]
	aLen           // len(xs), in words
	aKey           // k
	aIdx           // a word index into xs: known residue mod 8 (or -1) and whether idx < len is established
	aHalf          // idx/2 or len/2 (result)
)

type aVal struct {
	K     aKind
	Mod8  int   // residue of the index modulo 8, -1 unknown
	LtLen bool  // idx < len established
	Delta int   // for aIdx: constant added since the last loop-head value (used for the fix-up rule)
	From  aKind // for aHalf: what was halved
}

func (a aVal) String() string {
	switch a.K {
	case aBase:
		return "base"
	case aLen:
		return "len"
	case aKey:
		return "k"
	case aIdx:
		return fmt.Sprintf("idx(≡%d mod 8, <len:%v, +%d)", a.Mod8, a.LtLen, a.Delta)
	case aHalf:
		return "half"
	}
	return "?"
}

func joinVal(a, b aVal) aVal {
	if a.K != b.K {
		// len and idx both flow into the result register: keep a generic index
		if (a.K == aLen && b.K == aIdx) || (a.K == aIdx && b.K == aLen) {
			return aVal{K: aIdx, Mod8: -1}
		}
		return aVal{}
	}
	if a.K == aIdx {
		r := aVal{K: aIdx, Mod8: a.Mod8, LtLen: a.LtLen && b.LtLen, Delta: a.Delta}
		if a.Mod8 != b.Mod8 {
			r.Mod8 = -1
		}
		if a.Delta != b.Delta {
			r.Delta = -1
		}
		return r
	}
	return a
}

type aState struct {
	Reg   map[string]aVal
	Flags [2]aVal // last CMPQ a, b
	HasFl bool
}

func (s *aState) clone() *aState {
	n := &aState{Reg: map[string]aVal{}, Flags: s.Flags, HasFl: s.HasFl}
	for k, v := range s.Reg {
		n.Reg[k] = v
	}
	return n
}

func (s *aState) equal(o *aState) bool {
	if len(s.Reg) != len(o.Reg) || s.HasFl != o.HasFl || s.Flags != o.Flags {
		return false
	}
	for k, v := range s.Reg {
		if o.Reg[k] != v {
			return false
		}
	}
	return true
}

func joinState(a, b *aState) *aState {
	n := &aState{Reg: map[string]aVal{}}
	for k, v := range a.Reg {
		if w, ok := b.Reg[k]; ok {
			n.Reg[k] = joinVal(v, w)
		}
	}
	if a.HasFl && b.HasFl && a.Flags == b.Flags {
		n.Flags, n.HasFl = a.Flags, true
	}
	return n
}

// asmPre is the precondition the Go caller establishes for the kernel.
type asmPre struct {
	LenMod8Zero bool // len(xs) ≡ 0 (mod 8)
	LenGE8      bool // len(xs) ≥ 8
}

type asmFinding struct {
	Line int
	Msg  string
}

type asmLoad struct {
	Line   int
	Disp   int64
	Target string // label the following JAE goes to
	Safe   bool
	Why    string
}

// interpretSearchKernel runs the abstract interpretation and returns the loads it saw
// and the problems found.
func interpretSearchKernel(f *asmFunc, pre asmPre, argOff map[string]int64) (loads []asmLoad, problems []asmFinding, states []*aState) {
	n := len(f.Instrs)
	in := make([]*aState, n+1)
	in[0] = &aState{Reg: map[string]aVal{}}
	work := []int{0}
	succs := func(i int) []int {
		ins := f.Instrs[i]
		switch ins.Op {
		case "RET":
			return nil
		case "JMP":
			return []int{f.Labels[ins.Args[0].Name]}
		case "JAE", "JB", "JBE", "JA", "JGE", "JLT", "JLE", "JGT", "JEQ", "JNE", "JCC", "JCS", "JHS", "JLO":
			return []int{f.Labels[ins.Args[0].Name], i + 1}
		}
		return []int{i + 1}
	}
	val := func(s *aState, o asmOperand) aVal {
		switch o.Kind {
		case "reg":
			return s.Reg[o.Reg]
		case "fp":
			switch o.Name {
			case "xs_base":
				return aVal{K: aBase}
			case "xs_len":
				return aVal{K: aLen}
			case "k":
				return aVal{K: aKey}
			}
		case "imm":
			return aVal{K: aIdx, Mod8: int(((o.Imm % 8) + 8) % 8), LtLen: o.Imm == 0 && pre.LenGE8}
		}
		return aVal{}
	}
	seenLoad := map[int]bool{}
	iter := 0
	for len(work) > 0 && iter < 10000 {
		iter++
		i := work[0]
		work = work[1:]
		if i >= n {
			continue
		}
		s := in[i].clone()
		ins := f.Instrs[i]
		// memory operands
		for _, a := range ins.Args {
			if a.Kind != "mem" {
				continue
			}
			ld := asmLoad{Line: ins.Line, Disp: a.Off}
			base, idx := s.Reg[a.Base], s.Reg[a.Index]
			switch {
			case base.K != aBase || a.Scale != 8 || idx.K != aIdx:
				ld.Why = fmt.Sprintf("address %s is not base + idx*8 of the slice (base=%s idx=%s)", a.Raw, base, idx)
			case a.Off%8 != 0 || a.Off < 0:
				ld.Why = fmt.Sprintf("displacement %d is not a non-negative multiple of the word size", a.Off)
			case !pre.LenMod8Zero:
				ld.Why = "the Go caller does not establish len(xs) ≡ 0 (mod 8), so idx+" + fmt.Sprint(a.Off/8) + " < len cannot be shown"
			case idx.Mod8 != 0:
				ld.Why = "idx is not known to be a multiple of 8 here"
			case !idx.LtLen:
				ld.Why = "idx < len is not established on every path reaching this load (with len ≡ 0 (mod 8) that is what bounds idx+" + fmt.Sprint(a.Off/8) + ")"
			case a.Off/8 > 7:
				ld.Why = "displacement exceeds the 8-word group"
			default:
				ld.Safe = true
				ld.Why = fmt.Sprintf("idx ≡ 0 (mod 8), idx < len, len ≡ 0 (mod 8) ⇒ idx+%d ≤ len−1", a.Off/8)
			}
			// next instruction's target
			if i+1 < n && len(f.Instrs[i+1].Args) == 1 {
				ld.Target = f.Instrs[i+1].Args[0].Name
			}
			if !seenLoad[i] || !ld.Safe {
				// keep the worst verdict per instruction
				replaced := false
				for k := range loads {
					if loads[k].Line == ld.Line {
						if !ld.Safe {
							loads[k] = ld
						}
						replaced = true
					}
				}
				if !replaced {
					loads = append(loads, ld)
				}
				seenLoad[i] = true
			}
		}
		switch ins.Op {
		case "MOVQ", "MOVL":
			if len(ins.Args) == 2 && ins.Args[1].Kind == "reg" {
				s.Reg[ins.Args[1].Reg] = val(s, ins.Args[0])
			}
		case "XORL", "XORQ":
			if len(ins.Args) == 2 && ins.Args[0].Kind == "reg" && ins.Args[0].Reg == ins.Args[1].Reg {
				s.Reg[ins.Args[1].Reg] = aVal{K: aIdx, Mod8: 0, LtLen: pre.LenGE8}
			} else if len(ins.Args) == 2 && ins.Args[1].Kind == "reg" {
				s.Reg[ins.Args[1].Reg] = aVal{}
			}
		case "ADDQ", "ADDL":
			if len(ins.Args) == 2 && ins.Args[1].Kind == "reg" {
				dst := s.Reg[ins.Args[1].Reg]
				if ins.Args[0].Kind == "imm" && dst.K == aIdx {
					nm := -1
					if dst.Mod8 >= 0 {
						nm = int(((int64(dst.Mod8)+ins.Args[0].Imm)%8 + 8) % 8)
					}
					d := dst.Delta
					if d >= 0 {
						d += int(ins.Args[0].Imm)
					}
					s.Reg[ins.Args[1].Reg] = aVal{K: aIdx, Mod8: nm, LtLen: false, Delta: d}
				} else {
					s.Reg[ins.Args[1].Reg] = aVal{}
				}
			}
		case "SHRL", "SHRQ", "SUBQ", "SUBL", "ANDQ", "ANDL", "ORQ", "ORL", "SHLQ", "SHLL":
			if len(ins.Args) == 2 && ins.Args[1].Kind == "reg" {
				s.Reg[ins.Args[1].Reg] = aVal{}
			}
		case "CMPQ", "CMPL":
			if len(ins.Args) == 2 {
				s.Flags = [2]aVal{val(s, ins.Args[0]), val(s, ins.Args[1])}
				s.HasFl = true
				if ins.Args[0].Kind == "reg" {
					s.Flags[0] = s.Reg[ins.Args[0].Reg]
				}
			}
		case "RET", "JMP", "JAE", "JB", "JBE", "JA", "JGE", "JLT", "JLE", "JGT", "JEQ", "JNE", "JCC", "JCS", "JHS", "JLO":
		default:
			problems = append(problems, asmFinding{ins.Line, "instruction " + ins.Op + " is outside the modelled subset"})
		}
		for k, nx := range succs(i) {
			ns := s.clone()
			// refine on the taken edge of `CMPQ idxreg, lenreg; JB label`
			if k == 0 && (ins.Op == "JB" || ins.Op == "JCS" || ins.Op == "JLO") && i > 0 {
				prev := f.Instrs[i-1]
				if (prev.Op == "CMPQ") && len(prev.Args) == 2 && prev.Args[0].Kind == "reg" && prev.Args[1].Kind == "reg" {
					a, b := s.Reg[prev.Args[0].Reg], s.Reg[prev.Args[1].Reg]
					if a.K == aIdx && b.K == aLen {
						a.LtLen = true
						a.Delta = 0
						ns.Reg[prev.Args[0].Reg] = a
					}
				}
			}
			if nx > n {
				continue
			}
			if in[nx] == nil {
				in[nx] = ns
				work = append(work, nx)
			} else {
				j := joinState(in[nx], ns)
				if !j.equal(in[nx]) {
					in[nx] = j
					work = append(work, nx)
				}
			}
		}
	}
	return loads, problems, in
}
