package main

import (
	"fmt"
	"go/types"
	"strings"

	"golang.org/x/tools/go/ssa"
)

func init() {
	register(&PropCheck{
		ID: "C02",
		Explanation: "Decides the detach-then-notify discipline behind 'a value the cache has let go of is never served again': " +
			"(R-C02-SITES) every hand-over site (a dynamic call of a func(*Item)/func(V) callback) in the package is discovered and must be of a known kind; " +
			"(R-C02-ORIGIN) the value reaching each callback is the result of a detaching store call (Update on its found side, Del), or a buffered item that was never inserted (no successful store.Set on the path, flag != itemUpdate), or a ranged entry inside lockedMap.Clear with the write lock held and the map re-assigned on every path, or a forwarded parameter inside a wrapper closure; " +
			"(R-C02-DETACH) lockedMap.Update/Del return a stored value only on paths that performed the mutation of that key, with the shard write lock held from lookup to mutation; " +
			"(R-C02-ORDER) for victims the detaching Del result is stored into the reported item before the callback; " +
			"(R-C02-VERDICT) store.Set answers 'stored' exactly on the paths that filed the item (the applier hands a refused item to OnReject/OnExit). " +
			"NOT decided: orderings across goroutines beyond lock atomicity (C08), and whether two different detaches can race for the same value (each detach is one critical section).",
		Run: runC02,
	})
}

// isHandOverSig: func(*Item[V]) or func(V) without results.
func isHandOverSig(t types.Type) bool {
	sig, ok := t.Underlying().(*types.Signature)
	if !ok || sig.Params().Len() != 1 || sig.Results().Len() != 0 {
		return false
	}
	pt := sig.Params().At(0).Type()
	if p, ok := pt.(*types.Pointer); ok {
		return recvName(p) == "Item"
	}
	_, isTP := pt.(*types.TypeParam)
	return isTP
}

type handOver struct {
	fn   *ssa.Function
	call ssa.CallInstruction
	arg  ssa.Value
	via  string // callee description
}

func handOverSites(P *Prog, tbOf func(*ssa.Function) *TB) []handOver {
	var out []handOver
	for _, fn := range P.SrcFuncs {
		if fn.Pkg != P.Pkgs["ristretto"] {
			continue
		}
		tb := tbOf(fn)
		for _, ci := range allCalls(fn) {
			cc := ci.Common()
			if cc.IsInvoke() || len(cc.Args) != 1 {
				continue
			}
			n := calleeName(cc)
			if n != "dyn" && !strings.HasPrefix(n, "closure:") {
				if mc, ok := cc.Value.(*ssa.MakeClosure); !ok || mc == nil {
					continue
				}
			}
			if !isHandOverSig(cc.Value.Type()) {
				continue
			}
			via := n
			if n == "dyn" {
				via = tb.T(cc.Value).String()
			}
			out = append(out, handOver{fn, ci, cc.Args[0], via})
		}
	}
	return out
}

// edgesExcludingConst: CFG edges of fn on which term t is known to differ from constant k.
func edgesExcludingConst(fn *ssa.Function, tb *TB, t string, k string) map[Edge]bool {
	out := map[Edge]bool{}
	for _, b := range fn.Blocks {
		iff := lastIf(b)
		if iff == nil {
			continue
		}
		env := Env{}
		pol := condPolarity(tb.T(iff.Cond), "eq("+t+",?k)", env)
		if pol == 0 || env["k"] == nil || env["k"].Op != "c" {
			continue
		}
		kk := env["k"].Sym
		eqEdge, neEdge := Edge{b, 0}, Edge{b, 1}
		if pol < 0 {
			eqEdge, neEdge = neEdge, eqEdge
		}
		if kk == k {
			out[neEdge] = true
		} else {
			out[eqEdge] = true // equals another constant
		}
	}
	return out
}

func runC02(c *Ctx) {
	L, P := c.L, c.P
	L.Rule("R-C02-SITES", "every dynamic call of a func(*Item)/func(V) callback in the package is a known hand-over site", 12)
	L.Rule("R-C02-ORIGIN", "the value handed to a callback comes from a detaching store call (or a never-inserted buffered item, or the locked drain of lockedMap.Clear, or is forwarded inside a wrapper)", 12)
	L.Rule("R-C02-DETACH", "lockedMap.Update/Del yield a stored value only after mutating that key, write lock held from lookup to mutation", 2)
	L.Rule("R-C02-VERDICT", "store.Set answers 'stored' exactly on the paths that filed the item: the applier reports a refused item to OnReject/OnExit, so a wrong 'refused' hands out a value that stays resident", 2)
	L.Rule("R-C02-NORESTORE", "SetWithTTL stores once, before it reports the replaced value, and never after", 1)
	L.Rule("R-C02-ORDER", "a victim's Value is assigned from the detaching Del before it is reported", 1)

	tbs := map[*ssa.Function]*TB{}
	tbOf := func(f *ssa.Function) *TB {
		if t, ok := tbs[f]; ok {
			return t
		}
		t := newTB(f)
		tbs[f] = t
		return t
	}
	var lc *LockCtx
	locks := func() *LockCtx {
		if lc == nil {
			lc = newLockCtx(P, "ristretto")
		}
		return lc
	}
	itemUpdate := P.Const("ristretto", "itemUpdate").Value.Value.ExactString()

	c.Group("R-C02-SITES", "discovery", func() {
		sites := handOverSites(P, tbOf)
		L.CallSites(len(sites))
		// wrapper closures, identified by what they are: the closures NewCache stores in c.onExit/onEvict/onReject
		// and the applier's closure that forwards to c.onEvict
		wrappers := map[string]bool{fname(P.ApplierOnEvict()): true}
		for _, fld := range []string{"onExit", "onEvict", "onReject"} {
			for _, st := range fieldStoresIn(P.Fn("ristretto", "", "NewCache"), "Cache", fld) {
				if mc, ok := st.Val.(*ssa.MakeClosure); ok {
					wrappers[fname(mc.Fn.(*ssa.Function))] = true
				}
			}
		}
		for _, s := range sites {
			fn, tb := s.fn, tbOf(s.fn)
			L.Analysed(fname(fn))
			cons := fname(fn) + "#" + s.via
			at := tb.T(s.arg)
			as := at.String()
			L.OkTrivial("R-C02-SITES", cons, "hand-over site, argument "+as, s.call.Pos())
			env := Env{}
			switch {
			// (a) detached by store.Update: only on the found side
			case Match("ext[0](?call)", at, env) && strings.HasPrefix(env["call"].Sym, "iface:store.Update") && env["call"].Op == "call":
				okEdges := edgesWhere(fn, tb, "ext[1]("+env["call"].String()+")", nil, true)
				callIn := env["call"].V.(ssa.Instruction)
				bad, path := reach(after(callIn), isInstr(s.call.(ssa.Instruction)), nil, cutSet(okEdges))
				if bad != nil {
					L.Fail("R-C02-ORIGIN", cons, "previous value of store.Update is reported on a path where Update did not report success (block path "+pathString(path)+"): it may still be resident", s.call.Pos())
				} else {
					L.Ok("R-C02-ORIGIN", cons, "value result of store.Update, reported only on its found side", s.call.Pos())
				}
			// (a) detached by store.Del
			case Match("ext[1](?call)", at, env) && env["call"].Op == "call" && env["call"].Sym == "iface:store.Del":
				L.Ok("R-C02-ORIGIN", cons, "value result of store.Del", s.call.Pos())
			// forwarded parameter inside a wrapper closure
			case Match("p[0]", at, nil) || Match("fld[Value](p[0])", at, nil):
				if wrappers[fname(fn)] {
					L.OkTrivial("R-C02-ORIGIN", cons, "wrapper forwards its parameter ("+as+")", s.call.Pos())
				} else {
					L.Fail("R-C02-ORIGIN", cons, "reports its own parameter "+as+" outside the wrapper closures: not a detached value", s.call.Pos())
				}
			default:
				c.originOfItem(s, tb, cons, at, itemUpdate, locks)
			}
		}
	})

	detachRule(c, "R-C02-DETACH", tbOf, locks)
	transferRule(c, "R-C02-VERDICT")
	c.Group("R-C02-NORESTORE", "Cache.SetWithTTL", func() {
		// once SetWithTTL has handed the replaced value to onExit nothing is written into the map again in
		// that call (no "roll back" that re-stores the value just reported gone), and it is written at most
		// once before: exactly one store call, which precedes the report
		fn := P.Fn("ristretto", "Cache", "SetWithTTL")
		tb := newTB(fn)
		var stores, reports []ssa.Instruction
		for _, ci := range allCalls(fn) {
			cc := ci.Common()
			if cc.IsInvoke() && recvName(cc.Value.Type()) == "store" && (cc.Method.Name() == "Update" || cc.Method.Name() == "Set") {
				stores = append(stores, ci)
			}
			if !cc.IsInvoke() && staticCallee(cc) == nil && strings.HasPrefix(tb.T(cc.Value).String(), "fld[on") {
				reports = append(reports, ci)
			}
		}
		var problems []string
		if len(stores) != 1 {
			problems = append(problems, fmt.Sprintf("%d store calls in SetWithTTL (want the one Update)", len(stores)))
		}
		for _, r := range reports {
			if b, _ := reach(after(r), isAnyInstr(stores), nil, nil); b != nil {
				problems = append(problems, "a store call is reachable after a value was reported gone: the reported value (or another one) is written back and served again")
			}
		}
		L.Check(len(problems) == 0 && len(reports) > 0, "R-C02-NORESTORE", "Cache.SetWithTTL", "one store.Update, before the report of the replaced value; nothing is stored after it", strings.Join(problems, "; "), fn.Pos())
	})
}

// detachRule: lockedMap.Update/Del yield a stored value only after mutating that key,
// with the shard write lock held from the lookup to the mutation (shared by C02 and C04).
func detachRule(c *Ctx, ruleID string, tbOf func(*ssa.Function) *TB, locks func() *LockCtx) {
	L, P := c.L, c.P
	for _, name := range []string{"Update", "Del"} {
		name := name
		c.Group(ruleID, "lockedMap."+name, func() {
			fn := P.Fn("ristretto", "lockedMap", name)
			tb := tbOf(fn)
			lks := lookupsOf(fn, tb, dataPat)
			if len(lks) != 1 {
				L.Undecided(ruleID, "lockedMap."+name, "expected one lookup of m.data", fn.Pos())
				return
			}
			lk := lks[0]
			keyT := tb.T(lk.Index).String()
			isMut := func(in ssa.Instruction) bool {
				switch x := in.(type) {
				case *ssa.MapUpdate:
					return name == "Update" && Match(dataPat, tb.T(x.Map), nil) && tb.T(x.Key).String() == keyT
				case *ssa.Call:
					return name == "Del" && calleeName(&x.Call) == "delete" && Match(dataPat, tb.T(x.Call.Args[0]), nil) && tb.T(x.Call.Args[1]).String() == keyT
				}
				return false
			}
			valIdx := 0
			if name == "Del" {
				valIdx = 1
			}
			ok := true
			nYield := 0
			for _, r := range returnsOf(fn) {
				rv := returnValues(r)
				yields := Contains(tb.T(rv[valIdx]), tb.T(lk))
				if name == "Update" {
					// a value is "yielded" to the caller only together with found=true
					ft := tb.T(rv[1]).String()
					if ft == "c[false]" {
						yields = false
					} else if ft != "c[true]" {
						L.Undecided(ruleID, "lockedMap.Update", "found result is not constant: "+ft, r.Pos())
						ok = false
						continue
					} else {
						yields = true
					}
				}
				if !yields {
					continue
				}
				nYield++
				want := "fld[value](" + tb.T(lk).String() + ")"
				if got := tb.T(rv[valIdx]).String(); got != want {
					L.Fail(ruleID, "lockedMap."+name, "yields "+got+" as the detached value, want the old entry's value "+want, r.Pos())
					ok = false
					continue
				}
				// every path lookup -> this return passes the mutation
				bad, path := reach(after(lk), isInstr(r), isMut, nil)
				if bad != nil {
					L.Fail(ruleID, "lockedMap."+name, "returns the stored value on a path that did not remove/replace the entry (block path "+pathString(path)+"): the value stays retrievable after being reported", r.Pos())
					ok = false
				}
			}
			if nYield == 0 {
				L.Fail(ruleID, "lockedMap."+name, "no return yields the detached value", fn.Pos())
				return
			}
			// write lock held at the lookup and at each mutation, no release in between
			li := locks().infos[fn]
			if !li.Before[lk].HasClass("lockedMap.RWMutex", "W") {
				L.Fail(ruleID, "lockedMap."+name, "lookup of the entry is not under the shard write lock (held: "+li.Before[lk].String()+")", lk.Pos())
				ok = false
			}
			eachInstr(fn, func(in ssa.Instruction) {
				if isMut(in) && !li.Before[in].HasClass("lockedMap.RWMutex", "W") {
					L.Fail(ruleID, "lockedMap."+name, "mutation of the entry is not under the shard write lock", in.Pos())
					ok = false
				}
			})
			rel, _ := reach(after(lk), func(in ssa.Instruction) bool {
				if op, isOp := li.Ops[in]; isOp && !op.acq && op.class == "lockedMap.RWMutex" {
					// only a release that can still be followed by the mutation matters
					m, _ := reach(after(in), isMut, nil, nil)
					return m != nil
				}
				return false
			}, isMut, nil)
			if rel != nil {
				L.Fail(ruleID, "lockedMap."+name, "shard lock is released between the lookup and the mutation", rel.Pos())
				ok = false
			}
			if ok {
				L.Ok(ruleID, "lockedMap."+name, fmt.Sprintf("%d value-yielding return(s), each after the mutation of %s, write lock held throughout", nYield, keyT), lk.Pos())
			}
		})
	}
}

// originOfItem decides the origin of an *Item (or other) argument of a callback.
func (c *Ctx) originOfItem(s handOver, tb *TB, cons string, at *Term, itemUpdate string, locks func() *LockCtx) {
	L, P := c.L, c.P
	fn := s.fn
	callIn := s.call.(ssa.Instruction)
	// fresh Item literal
	if a, ok := s.arg.(*ssa.Alloc); ok && recvName(a.Type()) == "Item" {
		lf := litFields(a)
		vals := lf["Value"]
		if len(vals) != 1 {
			L.Fail("R-C02-ORIGIN", cons, fmt.Sprintf("reported Item literal has %d Value initialisers", len(vals)), s.call.Pos())
			return
		}
		vt := tb.T(vals[0].Val)
		env := Env{}
		if Match("ext[1](?call)", vt, env) && env["call"].Sym == "iface:store.Del" {
			// detached by Del; the key of the Del is the Key of the item
			keyOK := len(lf["Key"]) == 1 && tb.T(lf["Key"][0].Val).String() == env["call"].Args[1].String()
			if !instrDominates(vals[0], callIn) {
				L.Fail("R-C02-ORIGIN", cons, "Item.Value is assigned after the callback", s.call.Pos())
				return
			}
			L.Check(keyOK, "R-C02-ORIGIN", cons, "Item.Value is the value result of store.Del for the Item's own Key",
				"Item.Value comes from store.Del of a different key than Item.Key", s.call.Pos())
			return
		}
		// lockedMap.Clear drain: fields from the ranged entry of m.data
		if Match("fld[value](ext[2](next(range(fld[data](p[0])))))", vt, nil) && fname(fn) == "lockedMap.Clear" {
			held := locks().infos[fn].Before[callIn]
			if !held.HasClass("lockedMap.RWMutex", "W") {
				L.Fail("R-C02-ORIGIN", cons, "entries of m.data are reported while the shard write lock is not held (held: "+held.String()+"): a concurrent Get can still return them after the callback", s.call.Pos())
				return
			}
			// m.data re-assigned on every path from the callback to the return, lock not released before
			isReset := func(in ssa.Instruction) bool {
				st, ok := in.(*ssa.Store)
				return ok && Match("addr(fld[data](p[0]))", tb.T(st.Addr), nil) && strings.HasPrefix(tb.T(st.Val).String(), "make[map")
			}
			bad, path := mustPass(after(callIn), isReset, nil)
			if bad != nil {
				L.Fail("R-C02-ORIGIN", cons, "a path from the callback to the return does not replace m.data (block path "+pathString(path)+")", instrPos(bad))
				return
			}
			li := locks().infos[fn]
			rel, _ := reach(after(callIn), func(in ssa.Instruction) bool {
				op, isOp := li.Ops[in]
				return isOp && !op.acq && op.class == "lockedMap.RWMutex"
			}, isReset, nil)
			if rel != nil {
				L.Fail("R-C02-ORIGIN", cons, "the shard lock is released between reporting the entries and replacing the map", rel.Pos())
				return
			}
			L.Ok("R-C02-ORIGIN", cons, "drain of m.data under the write lock, map replaced on every path before the lock is released", s.call.Pos())
			return
		}
		L.Fail("R-C02-ORIGIN", cons, "reported Item carries Value "+vt.String()+", which is not the result of a detaching store call", s.call.Pos())
		return
	}
	// buffered item received from setBuf (select recv)
	if ex, ok := s.arg.(*ssa.Extract); ok {
		if sel, ok := ex.Tuple.(*ssa.Select); ok {
			stateOK := false
			for i, st := range sel.States {
				if st.Dir == types.RecvOnly && selectRecvValue(sel, i) == ssa.Value(ex) && Match("fld[setBuf](_)", tb.T(st.Chan), nil) {
					stateOK = true
				}
			}
			if !stateOK {
				L.Fail("R-C02-ORIGIN", cons, "reported item was not received from setBuf", s.call.Pos())
				return
			}
			item := tb.T(ex).String()
			// (i) never successfully inserted on the way here
			ok1 := true
			for _, setc := range callsTo(fn, "iface:store.Set") {
				if tb.T(setc.Common().Args[0]).String() != item {
					continue
				}
				refused := edgesWhere(fn, tb, tb.T(setc.(*ssa.Call)).String(), nil, false)
				bad, path := reach(after(setc.(ssa.Instruction)), isInstr(callIn), isInstr(sel), cutSet(refused))
				if bad != nil {
					L.Fail("R-C02-ORIGIN", cons, "item is reported on a path where store.Set(i) succeeded (block path "+pathString(path)+"): its value is resident", s.call.Pos())
					ok1 = false
				}
			}
			// (ii) not an itemUpdate (those values already live in the map) and not a Wait marker
			excl := edgesExcludingConst(fn, tb, "fld[flag]("+item+")", itemUpdate)
			bad, path := reach(after(sel), isInstr(callIn), nil, cutSet(excl))
			if bad != nil {
				L.Fail("R-C02-ORIGIN", cons, "a buffered item is reported without excluding flag == itemUpdate (block path "+pathString(path)+"): an update's value is already resident in the map", s.call.Pos())
				ok1 = false
			}
			if ok1 {
				L.Ok("R-C02-ORIGIN", cons, "buffered item never inserted on this path (no successful store.Set, flag != itemUpdate)", s.call.Pos())
			}
			return
		}
	}
	// victim: ranged element of policy.Add's result whose Value was assigned from Del
	if Match("idx(ext[0](call[defaultPolicy.Add](_,_,_)),_)", at, nil) {
		var st *ssa.Store
		for _, x := range fieldStoresIn(fn, "Item", "Value") {
			if fa := x.Addr.(*ssa.FieldAddr); tb.T(fa.X).String() == at.String() {
				st = x
			}
		}
		if st == nil {
			L.Fail("R-C02-ORDER", cons, "victim.Value is never assigned from the detaching Del", s.call.Pos())
			return
		}
		env := Env{}
		vt := tb.T(st.Val)
		good := Match("ext[1](?call)", vt, env) && env["call"].Sym == "iface:store.Del" && env["call"].Args[1].String() == "fld[Key]("+at.String()+")"
		if !good {
			L.Fail("R-C02-ORDER", cons, "victim.Value is "+vt.String()+", want the value result of store.Del(victim.Key, ...)", st.Pos())
			return
		}
		if !instrDominates(st, callIn) || st.Block() != callIn.Block() {
			L.Fail("R-C02-ORDER", cons, "the detaching Del does not precede the report of the victim in the same iteration", s.call.Pos())
			return
		}
		L.Ok("R-C02-ORDER", cons, "victim.Value = store.Del(victim.Key, 0) precedes onEvict(victim)", s.call.Pos())
		L.Ok("R-C02-ORIGIN", cons, "victim detached by store.Del before it is reported", s.call.Pos())
		return
	}
	_ = P
	L.Fail("R-C02-ORIGIN", cons, "value handed to the callback has origin "+at.String()+", which is not a detaching store call, a never-inserted buffered item, or a wrapper parameter", s.call.Pos())
}
