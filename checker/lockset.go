package main

import (
	"go/token"
	"sort"
	"strings"

	"golang.org/x/tools/go/ssa"
)

// Shared analysis A3: must-lockset (guarded-by).
//
// A lock token is "<class>/<mode>@<base>" where class is "<struct type>.<mutex field>"
// (e.g. lockedMap.RWMutex, defaultPolicy.Mutex, Metrics.mu), mode is W or R, and base is
// the provenance term of the struct the mutex lives in. A deferred unlock keeps the lock
// held until the function returns.

type LockSet map[string]bool

func (s LockSet) clone() LockSet {
	n := LockSet{}
	for k := range s {
		n[k] = true
	}
	return n
}

func (s LockSet) String() string {
	var ks []string
	for k := range s {
		ks = append(ks, k)
	}
	sort.Strings(ks)
	return "{" + strings.Join(ks, " ") + "}"
}

// HasClass reports whether a lock of the class is held in one of the modes ("W", "R" or "WR").
func (s LockSet) HasClass(class, modes string) bool {
	for k := range s {
		if strings.HasPrefix(k, class+"/") {
			m := k[len(class)+1 : len(class)+2]
			if strings.Contains(modes, m) {
				return true
			}
		}
	}
	return false
}

func (s LockSet) Classes() []string {
	set := map[string]bool{}
	for k := range s {
		set[k[:strings.Index(k, "@")]] = true
	}
	var out []string
	for k := range set {
		out = append(out, k)
	}
	sort.Strings(out)
	return out
}

type lockOp struct {
	class string
	mode  string // W|R
	base  string
	acq   bool
}

// lockOpOf classifies a call as a mutex operation.
func lockOpOf(tb *TB, c *ssa.CallCommon) (lockOp, bool) {
	if c.IsInvoke() {
		return lockOp{}, false
	}
	n := calleeName(c)
	var mode string
	var acq bool
	switch n {
	case "sync.RWMutex.Lock", "sync.Mutex.Lock":
		mode, acq = "W", true
	case "sync.RWMutex.RLock":
		mode, acq = "R", true
	case "sync.RWMutex.Unlock", "sync.Mutex.Unlock":
		mode, acq = "W", false
	case "sync.RWMutex.RUnlock":
		mode, acq = "R", false
	default:
		return lockOp{}, false
	}
	arg := c.Args[0]
	class, base := "?", tb.T(arg).String()
	if fa, ok := arg.(*ssa.FieldAddr); ok {
		class = recvName(fa.X.Type()) + "." + fieldName(fa.X.Type(), fa.Field)
		base = tb.pointee(fa.X).String()
	} else if g, ok := arg.(*ssa.Global); ok {
		class = "global." + g.Name()
		base = g.Name()
	}
	return lockOp{class, mode, base, acq}, true
}

func (o lockOp) token() string { return o.class + "/" + o.mode + "@" + o.base }

// LockInfo holds the must-lockset before each instruction of a function.
type LockInfo struct {
	fn     *ssa.Function
	Before map[ssa.Instruction]LockSet
	Ops    map[ssa.Instruction]lockOp
	// problems found while computing (double unlock, unlock of a lock not held)
	Problems []lockProblem
}

type lockProblem struct {
	in  ssa.Instruction
	msg string
}

// computeLocks runs the forward must-analysis with the given entry set.
func computeLocks(fn *ssa.Function, tb *TB, entry LockSet) *LockInfo {
	li := &LockInfo{fn: fn, Before: map[ssa.Instruction]LockSet{}, Ops: map[ssa.Instruction]lockOp{}}
	in := map[*ssa.BasicBlock]LockSet{}
	out := map[*ssa.BasicBlock]LockSet{}
	if entry == nil {
		entry = LockSet{}
	}
	transfer := func(b *ssa.BasicBlock, s LockSet, record bool) LockSet {
		s = s.clone()
		for _, ins := range b.Instrs {
			if record {
				li.Before[ins] = s.clone()
			}
			call, ok := ins.(*ssa.Call)
			if !ok {
				continue // Defer'd unlocks: held until return
			}
			op, ok := lockOpOf(tb, &call.Call)
			if !ok {
				continue
			}
			if record {
				li.Ops[ins] = op
			}
			if op.acq {
				if record && (s[op.token()] || op.mode == "W" && s[op.class+"/R@"+op.base] || op.mode == "R" && s[op.class+"/W@"+op.base]) {
					li.Problems = append(li.Problems, lockProblem{ins, "acquires " + op.token() + " while the same mutex is already held (self-deadlock / upgrade)"})
				}
				s[op.token()] = true
			} else {
				if record && !s[op.token()] {
					li.Problems = append(li.Problems, lockProblem{ins, "releases " + op.token() + " which is not held on every path here"})
				}
				delete(s, op.token())
			}
		}
		return s
	}
	// worklist
	blocks := fn.Blocks
	for _, b := range blocks {
		in[b] = nil
	}
	in[blocks[0]] = entry.clone()
	changed := true
	for iter := 0; changed && iter < 100; iter++ {
		changed = false
		for _, b := range blocks {
			if b == fn.Recover {
				continue
			}
			var s LockSet
			if b == blocks[0] {
				s = entry.clone()
			} else {
				first := true
				for _, p := range b.Preds {
					po, ok := out[p]
					if !ok {
						continue // not yet computed: optimistic
					}
					if first {
						s = po.clone()
						first = false
					} else {
						for k := range s {
							if !po[k] {
								delete(s, k)
							}
						}
					}
				}
				if first {
					continue
				}
			}
			in[b] = s
			o := transfer(b, s, false)
			if old, ok := out[b]; !ok || old.String() != o.String() {
				out[b] = o
				changed = true
			}
		}
	}
	for _, b := range blocks {
		if in[b] != nil {
			transfer(b, in[b], true)
		}
	}
	return li
}

// deferredUnlocks lists lock tokens released by deferred calls in fn.
func deferredUnlocks(fn *ssa.Function, tb *TB) map[string]ssa.Instruction {
	out := map[string]ssa.Instruction{}
	eachInstr(fn, func(in ssa.Instruction) {
		if d, ok := in.(*ssa.Defer); ok {
			if op, ok := lockOpOf(tb, &d.Call); ok && !op.acq {
				out[op.token()] = d
			}
		}
	})
	return out
}

// ---------------------------------------------------------------------------------
// Interprocedural entry lock classes: for an unexported function/method of the module,
// the classes held at every call site (static calls within the module, closures invoked
// where they are created). Depth-bounded fixpoint.

type LockCtx struct {
	// Dead: unexported functions/methods without any call site in the analysed packages
	// (callable only from tests): no goroutine of the library ever runs them.
	Dead  map[*ssa.Function]bool
	P     *Prog
	tbs   map[*ssa.Function]*TB
	infos map[*ssa.Function]*LockInfo
	entry map[*ssa.Function]LockSet
}

func (lc *LockCtx) tb(fn *ssa.Function) *TB {
	if t, ok := lc.tbs[fn]; ok {
		return t
	}
	t := newTB(fn)
	lc.tbs[fn] = t
	return t
}

// classToken is an entry token without instance identity.
func classToken(class, mode string) string { return class + "/" + mode + "@<caller>" }

func newLockCtx(P *Prog, pkgs ...string) *LockCtx {
	lc := &LockCtx{P: P, Dead: map[*ssa.Function]bool{}, tbs: map[*ssa.Function]*TB{}, infos: map[*ssa.Function]*LockInfo{}, entry: map[*ssa.Function]LockSet{}}
	inPkg := map[*ssa.Package]bool{}
	for _, n := range pkgs {
		inPkg[P.Pkgs[n]] = true
	}
	var funcs []*ssa.Function
	for _, f := range P.SrcFuncs {
		if inPkg[f.Pkg] {
			funcs = append(funcs, f)
		}
	}
	// callers: static call sites of each function inside the analysed packages
	type site struct {
		caller *ssa.Function
		in     ssa.Instruction
	}
	sites := map[*ssa.Function][]site{}
	escapes := map[*ssa.Function]bool{} // used as a value / go'd / deferred: entry = {}
	for _, f := range funcs {
		for _, b := range f.Blocks {
			for _, in := range b.Instrs {
				switch x := in.(type) {
				case *ssa.Call:
					if callee := staticCallee(&x.Call); callee != nil {
						sites[callee] = append(sites[callee], site{f, in})
					} else if mc, ok := x.Call.Value.(*ssa.MakeClosure); ok {
						sites[mc.Fn.(*ssa.Function)] = append(sites[mc.Fn.(*ssa.Function)], site{f, in})
					}
				case *ssa.Go:
					if callee := staticCallee(&x.Call); callee != nil {
						escapes[callee] = true
					}
				case *ssa.Defer:
					if callee := staticCallee(&x.Call); callee != nil {
						escapes[callee] = true
					}
				}
				// function used as a value (stored, passed)
				for _, op := range in.Operands(nil) {
					if op == nil || *op == nil {
						continue
					}
					switch v := (*op).(type) {
					case *ssa.Function:
						if c, ok := in.(ssa.CallInstruction); ok && c.Common().Value == v {
							continue
						}
						escapes[origin(v)] = true
					case *ssa.MakeClosure:
						if c, ok := in.(*ssa.Call); ok && c.Call.Value == v {
							continue
						}
						escapes[v.Fn.(*ssa.Function)] = true
					}
				}
			}
		}
	}
	isRoot := func(f *ssa.Function) bool {
		if escapes[f] || len(sites[f]) == 0 {
			return true
		}
		if f.Parent() != nil {
			return false
		}
		// exported functions, and exported methods of exported types, can be called from outside
		if f.Object() == nil || !f.Object().Exported() {
			return false
		}
		if f.Signature.Recv() != nil {
			rn := recvName(f.Signature.Recv().Type())
			return rn != "" && token.IsExported(rn)
		}
		return true
	}
	for _, f := range funcs {
		lc.entry[f] = LockSet{}
		if !escapes[f] && len(sites[f]) == 0 && f.Parent() == nil {
			exported := f.Object() != nil && f.Object().Exported()
			if exported && f.Signature.Recv() != nil {
				exported = token.IsExported(recvName(f.Signature.Recv().Type()))
			}
			// interface implementations are called through the interface
			if !exported && f.Signature.Recv() == nil || !exported && !implementsIface(f) {
				lc.Dead[f] = true
			}
		}
	}
	// transitively dead: every call site lies in a dead function
	for changed := true; changed; {
		changed = false
		for _, f := range funcs {
			if lc.Dead[f] || escapes[f] || len(sites[f]) == 0 {
				continue
			}
			exported := f.Parent() == nil && f.Object() != nil && f.Object().Exported()
			if exported && f.Signature.Recv() != nil {
				exported = token.IsExported(recvName(f.Signature.Recv().Type()))
			}
			if exported || implementsIface(f) {
				continue
			}
			all := true
			for _, s := range sites[f] {
				if !lc.Dead[s.caller] {
					all = false
				}
			}
			if all {
				lc.Dead[f] = true
				changed = true
			}
		}
	}
	for iter := 0; iter < 6; iter++ {
		for _, f := range funcs {
			lc.infos[f] = computeLocks(f, lc.tb(f), lc.entry[f])
		}
		changed := false
		for _, f := range funcs {
			if isRoot(f) {
				continue
			}
			var acc map[string]bool
			for _, s := range sites[f] {
				if lc.Dead[s.caller] {
					continue
				}
				held := lc.infos[s.caller].Before[s.in]
				cl := map[string]bool{}
				for _, c := range held.Classes() {
					cl[c] = true
				}
				if acc == nil {
					acc = cl
				} else {
					for k := range acc {
						if !cl[k] {
							delete(acc, k)
						}
					}
				}
			}
			ne := LockSet{}
			for k := range acc {
				ne[k+"@<caller>"] = true
			}
			if ne.String() != lc.entry[f].String() {
				lc.entry[f] = ne
				changed = true
			}
		}
		if !changed {
			break
		}
	}
	for _, f := range funcs {
		lc.infos[f] = computeLocks(f, lc.tb(f), lc.entry[f])
	}
	return lc
}

func (lc *LockCtx) At(in ssa.Instruction) LockSet {
	fn := in.Parent()
	li := lc.infos[fn]
	if li == nil {
		return LockSet{}
	}
	s := li.Before[in]
	if s == nil {
		return LockSet{}
	}
	return s
}

// implementsIface: methods of the types that implement the package's internal interfaces
// (store, ringConsumer) are reached through interface calls.
func implementsIface(f *ssa.Function) bool {
	if f.Signature.Recv() == nil {
		return false
	}
	switch recvName(f.Signature.Recv().Type()) {
	case "shardedMap", "defaultPolicy":
		return true
	}
	return false
}
