package main

import (
	"fmt"
	"go/token"
	"strings"

	"golang.org/x/tools/go/ssa"
)

func init() {
	register(&PropCheck{
		ID: "C14",
		Explanation: "Decides the structural conditions of 'expiry processing reclaims exactly the expired items, each once': " +
			"(R-C14-RECHECK) the sweep removes a key of a grabbed bucket only on the side of its re-check where the store's current expiration, fetched after the grab, is non-zero and not after now (the repaired finding F4 is the non-zero half); " +
			"(R-C14-LAG) cleanupBucket(t) = storageBucket(t) - 1; the sweep takes the buckets (lastCleaned, cleanupBucket(now)], removes each from the index under the lock before using it and advances lastCleanedBucketNum under the same lock; add/update/del compute the bucket of an expiration with storageBucket only; " +
			"(R-C14-INDEX) every overwrite/insert/delete of a map entry moves its key between buckets with the entry's old and new expirations, on the same path and under the shard write lock, and never when the map is left unchanged (shared with C13); " +
			"(R-C14-BUCKETS) the index's own bookkeeping: add/update/del file and unfile key → conflict in the bucket of the given expiration, update unfiles from the old bucket before filing in the new one; " +
			"(R-C14-ARMS) the applier's itemUpdate arm calls policy.Update (never Add), so a swept key is not re-admitted by a late cost update; " +
			"(R-C14-ONCE) per swept key one policy.Del, one store.Del and one report; the cost is read from the policy before it is deleted; the reported item carries that cost, the re-checked expiration and the value store.Del returned; " +
			"(R-C14-TICK) the applier's select has an arm on cleanupTicker.C that calls storedItems.Cleanup(c.cachePolicy, onEvict); the ticker is created in NewCache from TtlTickerDurationInSec, defaulted when zero. " +
			"NOT decided: eventual removal (needs the applier to keep running: liveness) and the wall-clock side of 'has passed'.",
		Run: runC14,
	})
}

func runC14(c *Ctx) {
	L, P := c.L, c.P
	L.Rule("R-C14-RECHECK", "sweep removes only keys whose current expiration is non-zero and not after now", 1)
	L.Rule("R-C14-LAG", "cleanupBucket = storageBucket-1; sweep range and cursor under the lock; one bucket function for add/update/del; every cursor writer uses cleanupBucket", 7)
	L.Rule("R-C14-FRONTIER", "eventual reclamation, structural part: add/update never file a key in a bucket at or behind the sweep cursor (storageBucket(expiration) is replaced by lastCleanedBucketNum+1 when it is not beyond it) - finding F6", 2)
	L.Rule("R-C14-INDEX", "map mutation and expiry-index call paired on every path (shared with C13)", 3)
	L.Rule("R-C14-BUCKETS", "expirationMap.add/update/del file key → conflict in m.buckets[storageBucket(expiration)], old bucket first, under the index lock", 3)
	L.Rule("R-C14-ARMS", "a buffered cost update can only adjust a tracked key (policy.Update on the itemUpdate arm, never Add): a key reclaimed by the sweep is not re-admitted behind its back and evicted a second time", 3)
	L.Rule("R-C14-ONCE", "one policy.Del, one store.Del, one report per swept key; cost read first; reported fields", 3)
	L.Rule("R-C14-TICK", "applier arm on cleanupTicker.C calls store.Cleanup(policy, onEvict); ticker from TtlTickerDurationInSec (defaulted)", 2)

	sweepRecheckRule(c, "R-C14-RECHECK")

	// ---- R-C14-LAG
	sweepCursorRule(c, "R-C14-LAG")
	c.Group("R-C14-LAG", "bucket functions", func() {
		sb := P.Fn("ristretto", "", "storageBucket")
		cb := P.Fn("ristretto", "", "cleanupBucket")
		L.Analysed(fname(sb), fname(cb))
		tbs, tbc := newTB(sb), newTB(cb)
		okS, okC := false, false
		for _, r := range returnsOf(sb) {
			okS = Match("add(c[1],quo(call[time.Time.Unix](p[0]),global[bucketDurationSecs]))", tbs.T(returnValues(r)[0]), nil)
		}
		for _, r := range returnsOf(cb) {
			okC = Match("sub(call[storageBucket](p[0]),c[1])", tbc.T(returnValues(r)[0]), nil)
		}
		L.Check(okS, "R-C14-LAG", "storageBucket", "t.Unix()/bucketDurationSecs + 1", "storageBucket is not t.Unix()/bucketDurationSecs + 1", sb.Pos())
		L.Check(okC, "R-C14-LAG", "cleanupBucket", "storageBucket(t) - 1: the sweep lags the storage bucket by one", "cleanupBucket is not storageBucket(t) - 1: the sweep would grab a bucket whose entries may not have expired yet (or lag further)", cb.Pos())
	})
	c.Group("R-C14-LAG", "expirationMap.cleanup#range", func() {
		fn := P.Fn("ristretto", "expirationMap", "cleanup")
		L.Analysed(fname(fn))
		lc := newLockCtx(P, "ristretto")
		tb := lc.tb(fn)
		cur := "call[cleanupBucket](call[time.Now])"
		// loop test bucketNum <= currentBucketNum
		var hdr *ssa.If
		var loopVar *ssa.Phi
		for _, b := range fn.Blocks {
			iff := lastIf(b)
			if iff == nil {
				continue
			}
			env := Env{}
			if condPolarity(tb.T(iff.Cond), "le(?v,"+cur+")", env) > 0 {
				if ph, ok := env["v"].V.(*ssa.Phi); ok {
					hdr, loopVar = iff, ph
				}
			}
		}
		if hdr == nil {
			L.Fail("R-C14-LAG", "expirationMap.cleanup#range", "no loop `bucketNum <= cleanupBucket(now)` over the buckets to clean", fn.Pos())
			return
		}
		startOK, stepOK := false, false
		for _, e := range loopVar.Edges {
			t := tb.T(e).String()
			if t == "add(c[1],fld[lastCleanedBucketNum](p[0]))" {
				startOK = true
			}
			if bo, ok := e.(*ssa.BinOp); ok && bo.X == ssa.Value(loopVar) && isConst(bo.Y, "1") {
				stepOK = true
			}
		}
		L.Check(startOK && stepOK, "R-C14-LAG", "expirationMap.cleanup#range", "sweeps buckets lastCleaned+1 … cleanupBucket(now), step 1", "the swept range is "+tb.T(loopVar).String()+" ≤ "+cur+"; want it to start at lastCleanedBucketNum+1 and step by 1", hdr.Pos())
		// each iteration: the bucket looked up under bucketNum, and deleted from the index, under the lock
		body := hdr.Block().Succs[0]
		isDelete := func(in ssa.Instruction) bool {
			cl, ok := in.(*ssa.Call)
			return ok && calleeName(&cl.Call) == "delete" && Match("fld[buckets](p[0])", tb.T(cl.Call.Args[0]), nil) && cl.Call.Args[1] == ssa.Value(loopVar)
		}
		back, _ := reach(Pos{body, 0}, isInstr(hdr), isDelete, nil)
		okDel := back == nil
		eachInstr(fn, func(in ssa.Instruction) {
			if isDelete(in) && !lc.At(in).HasClass("expirationMap.RWMutex", "W") {
				okDel = false
			}
		})
		L.Check(okDel, "R-C14-LAG", "expirationMap.cleanup#detach", "every swept bucket number is deleted from the index under the lock", "a swept bucket can stay in the index (or is removed without the lock): its keys would be swept again or race with writers", hdr.Pos())
		// collected buckets come from the same bucket number
		okSrc := false
		for _, lk := range lookupsOf(fn, tb, "fld[buckets](p[0])") {
			if lk.Index == ssa.Value(loopVar) {
				okSrc = true
			}
		}
		L.Check(okSrc, "R-C14-LAG", "expirationMap.cleanup#source", "the bucket collected is m.buckets[bucketNum]", "the bucket collected is not the one of the swept bucket number", hdr.Pos())
		// cursor advanced under the lock
		okCur := false
		for _, st := range fieldStoresIn(fn, "expirationMap", "lastCleanedBucketNum") {
			if tb.T(st.Val).String() == cur && lc.At(st).HasClass("expirationMap.RWMutex", "W") {
				if b, _ := mustPass(Pos{hdr.Block().Succs[1], 0}, isInstr(st), nil); b == nil {
					okCur = true
				}
			}
		}
		L.Check(okCur, "R-C14-LAG", "expirationMap.cleanup#cursor", "lastCleanedBucketNum = cleanupBucket(now) under the lock on every path", "the sweep cursor is not advanced to cleanupBucket(now) under the lock", hdr.Pos())
	})
	c.Group("R-C14-LAG", "bucket-of-expiration", func() {
		for _, f := range []struct {
			name string
			exps []string
		}{{"add", []string{"p[3]"}}, {"update", []string{"p[3]", "p[4]"}}, {"del", []string{"p[2]"}}} {
			fn := P.Fn("ristretto", "expirationMap", f.name)
			L.Analysed(fname(fn))
			tb := newTB(fn)
			allowed := map[string]bool{}
			for _, e := range f.exps {
				allowed["call[storageBucket]("+e+")"] = true
			}
			ok, n := true, 0
			eachInstr(fn, func(in ssa.Instruction) {
				var key ssa.Value
				switch x := in.(type) {
				case *ssa.Lookup:
					if Match("fld[buckets](p[0])", tb.T(x.X), nil) {
						key = x.Index
					}
				case *ssa.MapUpdate:
					if Match("fld[buckets](p[0])", tb.T(x.Map), nil) {
						key = x.Key
					}
				}
				if key == nil {
					return
				}
				n++
				if !allowed[tb.T(key).String()] {
					// filing side (add, update's new expiration): the clamped number is a bucket of that expiration too
					if f.name != "del" {
						if k, _ := filingBucket(fn, tb, key, f.exps[len(f.exps)-1]); k != "" {
							return
						}
					}
					ok = false
					L.Fail("R-C14-LAG", "expirationMap."+f.name+"#bucket", "the index is addressed with "+tb.T(key).String()+", not storageBucket(expiration) of the expiration passed in", in.Pos())
				}
			})
			if ok {
				L.Check(n > 0, "R-C14-LAG", "expirationMap."+f.name+"#bucket", fmt.Sprintf("%d index accesses, all under storageBucket(expiration)", n), "no index access found", fn.Pos())
			}
		}
	})

	// ---- R-C14-FRONTIER (finding F6): a key is never filed behind the sweep cursor
	c.Group("R-C14-FRONTIER", "filing frontier", func() {
		for _, f := range []struct{ name, exp string }{{"add", "p[3]"}, {"update", "p[4]"}} {
			fn := P.Fn("ristretto", "expirationMap", f.name)
			lc := newLockCtx(P, "ristretto")
			tb := lc.tb(fn)
			cons := "expirationMap." + f.name + "#frontier"
			n := 0
			bad := ""
			var pos token.Pos
			eachInstr(fn, func(in ssa.Instruction) {
				mu, ok := in.(*ssa.MapUpdate)
				if !ok || recvName(mu.Map.Type()) != "bucket" {
					return
				}
				mt := tb.T(mu.Map).String()
				found := false
				for _, lk := range lookupsOf(fn, tb, "fld[buckets](p[0])") {
					if !strings.Contains(mt, tb.T(lk).String()) {
						continue
					}
					found = true
					n++
					k, why := filingBucket(fn, tb, lk.Index, f.exp)
					switch {
					case k == "plain":
						bad = "files the key under storageBucket(expiration) even when that bucket is already behind the sweep cursor (expiration <= lastCleanedBucketNum's window): the sweep only visits buckets after the cursor, so an item applied late (it expired while waiting in the write buffer) is never reclaimed, its cost stays accounted and OnEvict/OnExit never fire"
						pos = mu.Pos()
					case k == "":
						bad = why
						pos = mu.Pos()
					}
					if !lc.At(lk).HasClass("expirationMap.RWMutex", "W") {
						bad = "the sweep cursor is compared without the index lock"
						pos = lk.Pos()
					}
				}
				if !found {
					bad = "the bucket filed into (" + mt + ") is not looked up in m.buckets"
					pos = mu.Pos()
				}
			})
			for _, acc := range fieldAccessesIn(fn, "expirationMap", "lastCleanedBucketNum") {
				if !lc.At(acc).HasClass("expirationMap.RWMutex", "W") {
					bad = "the sweep cursor is read outside the critical section that files the key: a sweep between the comparison and the filing moves the cursor past the chosen bucket"
					pos = acc.Pos()
				}
			}
			if n == 0 && bad == "" {
				L.Undecided("R-C14-FRONTIER", cons, "no filing found", fn.Pos())
				continue
			}
			L.Check(bad == "", "R-C14-FRONTIER", cons, "the bucket number is storageBucket(expiration), replaced by lastCleanedBucketNum+1 exactly when it is not beyond the sweep cursor (compared under the index lock)", bad, pos)
		}
	})

	expIndexRule(c, "R-C14-INDEX")
	bucketIndexRule(c, "R-C14-BUCKETS")
	applierArmsRule(c, "R-C14-ARMS")

	// ---- R-C14-ONCE
	sweepOnceRule(c, "R-C14-ONCE")
	c.Group("R-C14-ONCE", "expirationMap.cleanup#fields", func() {
		fn := P.Fn("ristretto", "expirationMap", "cleanup")
		tb := newTB(fn)
		costs := callsTo(fn, "defaultPolicy.Cost")
		dels := callsTo(fn, "defaultPolicy.Del")
		if len(costs) != 1 || len(dels) != 1 {
			L.Fail("R-C14-ONCE", "expirationMap.cleanup#cost", "expected one policy.Cost and one policy.Del in the sweep", fn.Pos())
			return
		}
		okOrder := instrDominates(costs[0].(ssa.Instruction), dels[0].(ssa.Instruction)) &&
			tb.T(costs[0].Common().Args[1]).String() == tb.T(dels[0].Common().Args[1]).String()
		L.Check(okOrder, "R-C14-ONCE", "expirationMap.cleanup#cost", "the key's cost is read from the policy before policy.Del removes it", "the cost is read after (or for another key than) policy.Del: the reported item would carry cost -1", costs[0].Pos())
		var lit *ssa.Alloc
		eachInstr(fn, func(in ssa.Instruction) {
			if a, ok := in.(*ssa.Alloc); ok && a.Heap && recvName(a.Type()) == "Item" {
				lit = a
			}
		})
		if lit == nil {
			L.Undecided("R-C14-ONCE", "expirationMap.cleanup#item", "no reported item literal", fn.Pos())
			return
		}
		lf := litFields(lit)
		get := func(f string) string {
			if len(lf[f]) == 1 {
				return tb.T(lf[f][0].Val).String()
			}
			return "<unset>"
		}
		key := tb.T(costs[0].Common().Args[1]).String()
		var problems []string
		if get("Key") != key {
			problems = append(problems, "Key = "+get("Key"))
		}
		if get("Cost") != tb.T(costs[0].(*ssa.Call)).String() {
			problems = append(problems, "Cost = "+get("Cost"))
		}
		if !strings.HasPrefix(get("Expiration"), "call[iface:store.Expiration]") {
			problems = append(problems, "Expiration = "+get("Expiration"))
		}
		if !strings.HasPrefix(get("Value"), "ext[1](call[iface:store.Del]") {
			problems = append(problems, "Value = "+get("Value"))
		}
		L.Check(len(problems) == 0, "R-C14-ONCE", "expirationMap.cleanup#item", "reported item: swept key, policy cost, re-checked expiration, value returned by store.Del", "reported item fields are wrong: "+strings.Join(problems, "; "), lit.Pos())
	})

	// ---- R-C14-TICK
	c.Group("R-C14-TICK", "Cache.processItems#ticker", func() {
		fn := P.Fn("ristretto", "Cache", "processItems")
		L.Analysed(fname(fn))
		tb := newTB(fn)
		sel, _, _ := applierSelect(fn, tb)
		if sel == nil {
			L.Undecided("R-C14-TICK", "Cache.processItems#ticker", "applier select not found", fn.Pos())
			return
		}
		state := -1
		for i, st := range sel.States {
			if Match("fld[C](fld[cleanupTicker](p[0]))", tb.T(st.Chan), nil) {
				state = i
			}
		}
		if state < 0 {
			L.Fail("R-C14-TICK", "Cache.processItems#ticker", "the applier's select has no arm on cleanupTicker.C: expired entries are never swept", sel.Pos())
			return
		}
		paths, _ := explore(fn, tb, ExploreOpts{Start: after(sel), StopAt: isInstr(sel), TrackField: trackItemFlag})
		ok, n := true, 0
		for _, p := range paths {
			if !p.SelectTaken(sel, state) {
				continue
			}
			n++
			if countCalls(p, tb, "call[iface:store.Cleanup](fld[storedItems](p[0]),fld[cachePolicy](p[0]),closure["+fname(P.ApplierOnEvict())+"])", nil) != 1 {
				ok = false
			}
		}
		L.Check(ok && n > 0, "R-C14-TICK", "Cache.processItems#ticker", "ticker arm calls storedItems.Cleanup(c.cachePolicy, onEvict) with the applier's onEvict", "the ticker arm does not call storedItems.Cleanup(c.cachePolicy, onEvict) exactly once", sel.Pos())
	})
	c.Group("R-C14-TICK", "cleanupTicker#stoppers", func() {
		// the sweep's driver lives as long as the cache is open: cleanupTicker is stopped (or replaced) only
		// by Close. The applier goroutine is stopped and restarted by every Clear and shares this one ticker,
		// so stopping it anywhere else ends expiry processing for good while writes keep being accepted.
		var who []string
		var pos token.Pos
		for _, fn := range P.SrcFuncs {
			if fn.Pkg != P.Pkgs["ristretto"] {
				continue
			}
			tb := newTB(fn)
			for _, ci := range allCalls(fn) {
				n := calleeName(ci.Common())
				if (n == "time.Ticker.Stop" || n == "time.Ticker.Reset") && strings.Contains(tb.T(ci.Common().Args[0]).String(), "fld[cleanupTicker]") {
					if fname(fn) != "Cache.Close" || n == "time.Ticker.Reset" {
						who = append(who, n+" in "+fname(fn))
						pos = ci.Pos()
					}
				}
			}
			for _, st := range fieldStoresIn(fn, "Cache", "cleanupTicker") {
				if fa, ok := st.Addr.(*ssa.FieldAddr); ok && !baseIsFresh(fa.X) {
					who = append(who, "re-assigned in "+fname(fn))
					pos = st.Pos()
				}
			}
		}
		L.Check(len(who) == 0, "R-C14-TICK", "cleanupTicker#stoppers", "the sweep ticker is stopped only by Close and never replaced", "the sweep ticker is stopped/reset outside Close: "+strings.Join(who, "; ")+" - after that no TTL sweep ever runs again although the cache stays open", pos)
	})
	c.Group("R-C14-TICK", "NewCache#ticker", func() {
		fn := P.Fn("ristretto", "", "NewCache")
		tb := newTB(fn)
		tickers := callsTo(fn, "time.NewTicker")
		if len(tickers) != 1 {
			L.Fail("R-C14-TICK", "NewCache#ticker", "expected one time.NewTicker in NewCache", fn.Pos())
			return
		}
		arg := tb.T(tickers[0].Common().Args[0]).String()
		fromCfg := strings.Contains(arg, "fld[TtlTickerDurationInSec](p[0])")
		stored := false
		for _, st := range fieldStoresIn(fn, "Cache", "cleanupTicker") {
			if st.Val == ssa.Value(tickers[0].(*ssa.Call)) {
				stored = true
			}
		}
		// default when zero
		defaulted := false
		for _, st := range fieldStoresIn(fn, "Config", "TtlTickerDurationInSec") {
			zero := edgesWhere(fn, tb, "eq(fld[TtlTickerDurationInSec](p[0]),c[0])", nil, true)
			if b, _ := reach(entryPos(fn), isInstr(st), nil, cutSet(zero)); b == nil && len(zero) > 0 && strings.Contains(tb.T(st.Val).String(), "bucketDurationSecs") {
				defaulted = true
			}
		}
		L.Check(fromCfg && stored && defaulted, "R-C14-TICK", "NewCache#ticker", "cleanupTicker = NewTicker(f(TtlTickerDurationInSec)), defaulted to bucketDurationSecs when 0",
			fmt.Sprintf("ticker set-up is wrong (from config:%v stored in cache:%v defaulted when zero:%v): a zero period panics NewTicker, a foreign ticker is never fired", fromCfg, stored, defaulted), tickers[0].Pos())
	})
}

// bucketIndexRule: the expiry index's own bookkeeping (expirationMap.add/update/del). A key is
// filed in bucket storageBucket(expiration) under (key → conflict); update removes it from the old
// bucket BEFORE filing it in the new one (same-bucket refresh must not erase it); del removes it from
// the bucket of the expiration it was filed under. Shared by C14, C13 and C07.

// filingBucket classifies the bucket number n under which a key with expiration term exp is filed:
//
//	plain   - storageBucket(exp)
//	clamped - storageBucket(exp), replaced by lastCleanedBucketNum+1 exactly when it is <= lastCleanedBucketNum
//	          (φ governed by that comparison, or the builtin max of the two)
//
// anything else is not a bucket number of that expiration.
func filingBucket(fn *ssa.Function, tb *TB, n ssa.Value, exp string) (kind string, why string) {
	sb := "call[storageBucket](" + exp + ")"
	next := "add(c[1],fld[lastCleanedBucketNum](p[0]))"
	t := tb.T(n).String()
	if t == sb {
		return "plain", ""
	}
	if t == "call[max]("+sb+","+next+")" || t == "call[max]("+next+","+sb+")" {
		return "clamped", ""
	}
	ph, ok := n.(*ssa.Phi)
	if !ok || len(ph.Edges) != 2 {
		return "", "the bucket number is " + t
	}
	swept := edgesWhere(fn, tb, "le("+sb+",fld[lastCleanedBucketNum](p[0]))", nil, true)
	notSwept := edgesWhere(fn, tb, "le("+sb+",fld[lastCleanedBucketNum](p[0]))", nil, false)
	if len(swept) == 0 {
		return "", "the bucket number is " + t + " and no comparison `storageBucket(expiration) <= lastCleanedBucketNum` governs it"
	}
	b := ph.Block()
	seenSB, seenNext := false, false
	for i, e := range ph.Edges {
		et := tb.T(e).String()
		pred := b.Preds[i]
		// the edge by which control reaches the φ through pred: either pred→b itself is a branch edge, or
		// pred is entered by exactly one branch edge
		onSide := func(set map[Edge]bool) bool {
			for k, s := range pred.Succs {
				if s == b && set[Edge{pred, k}] {
					return true
				}
			}
			if len(pred.Preds) == 1 {
				pp := pred.Preds[0]
				for k, s := range pp.Succs {
					if s == pred && set[Edge{pp, k}] {
						return true
					}
				}
			}
			return false
		}
		switch et {
		case sb:
			if !onSide(notSwept) {
				return "", "storageBucket(expiration) is kept on a path that does not establish it is beyond the sweep cursor"
			}
			seenSB = true
		case next:
			if !onSide(swept) {
				return "", "lastCleanedBucketNum+1 is used on a path that does not establish the expiration's own bucket was already swept"
			}
			seenNext = true
		default:
			return "", "the bucket number can be " + et
		}
	}
	if seenSB && seenNext {
		return "clamped", ""
	}
	return "", "the bucket number is " + t
}

func bucketIndexRule(c *Ctx, ruleID string) {
	L, P := c.L, c.P
	type spec struct {
		name           string
		oldExp, newExp string // parameter terms ("" if not applicable)
	}
	for _, sp := range []spec{{"add", "", "p[3]"}, {"update", "p[3]", "p[4]"}, {"del", "p[2]", ""}} {
		sp := sp
		c.Group(ruleID, "expirationMap."+sp.name, func() {
			fn := P.Fn("ristretto", "expirationMap", sp.name)
			L.Analysed(fname(fn))
			lc := newLockCtx(P, "ristretto")
			tb := lc.tb(fn)
			nilEdges := edgesWhere(fn, tb, "eq(p[0],c[nil])", nil, true)
			bucketOf := func(exp string) string {
				return "lookup(fld[buckets](p[0]),call[storageBucket](" + exp + "))"
			}
			var insert *ssa.MapUpdate
			var del *ssa.Call
			problems := []string{}
			eachInstr(fn, func(in ssa.Instruction) {
				switch x := in.(type) {
				case *ssa.MapUpdate:
					if recvName(x.Map.Type()) != "bucket" {
						return
					}
					mt := tb.T(x.Map).String()
					if sp.newExp == "" {
						problems = append(problems, "files a key although it has no new expiration")
						return
					}
					if tb.T(x.Key).String() != "p[1]" || tb.T(x.Value).String() != "p[2]" {
						problems = append(problems, "files "+tb.T(x.Key).String()+" → "+tb.T(x.Value).String()+" instead of key → conflict")
					}
					// the bucket filed into: looked up in m.buckets under the filing number of the new
					// expiration (its own bucket, or the next one to be swept when that one is already behind
					// the sweep cursor), or freshly made and stored under that same number
					var num ssa.Value
					for _, lk := range lookupsOf(fn, tb, "fld[buckets](p[0])") {
						if k, _ := filingBucket(fn, tb, lk.Index, sp.newExp); k != "" && strings.Contains(mt, tb.T(lk).String()) {
							num = lk.Index
						}
					}
					if num == nil {
						problems = append(problems, "files the key in bucket "+mt+", not in m.buckets[storageBucket(new expiration)] (or the next bucket to be swept)")
					}
					if strings.Contains(mt, "make[") && num != nil {
						// a fresh bucket must itself be stored in the index under the same number
						stored := false
						for _, mu := range mapUpdatesOf(fn, tb, "fld[buckets](p[0])") {
							if tb.T(mu.Key).String() == tb.T(num).String() && strings.HasPrefix(tb.T(mu.Value).String(), "make[") {
								stored = true
							}
						}
						if !stored {
							problems = append(problems, "a freshly made bucket is not stored in m.buckets under the number it was looked up with")
						}
					}
					if insert != nil {
						problems = append(problems, "more than one filing")
					}
					insert = x
				case *ssa.Call:
					if calleeName(&x.Call) != "delete" || recvName(x.Call.Args[0].Type()) != "bucket" {
						return
					}
					if sp.oldExp == "" {
						problems = append(problems, "unfiles a key although it has no old expiration")
						return
					}
					if tb.T(x.Call.Args[1]).String() != "p[1]" || !strings.Contains(tb.T(x.Call.Args[0]).String(), bucketOf(sp.oldExp)) {
						problems = append(problems, "unfiles "+tb.T(x.Call.Args[1]).String()+" from "+tb.T(x.Call.Args[0]).String()+", not the key from m.buckets[storageBucket(old expiration)]")
					}
					if del != nil {
						problems = append(problems, "more than one unfiling")
					}
					del = x
				}
			})
			isIns := func(in ssa.Instruction) bool { return insert != nil && in == ssa.Instruction(insert) }
			isDel := func(in ssa.Instruction) bool { return del != nil && in == ssa.Instruction(del) }
			if sp.oldExp != "" {
				if del == nil {
					problems = append(problems, "never unfiles the key from its old bucket")
				} else {
					absent := edgesWhere(fn, tb, "ok("+bucketOf(sp.oldExp)+")", nil, false)
					// the unfiling precedes every return and the filing, except when the old bucket does not exist
					if r, path := reach(entryPos(fn), func(in ssa.Instruction) bool { return isReturn(in) || isIns(in) }, isDel, cutSet(nilEdges, absent)); r != nil {
						what := "returns"
						if isIns(r) {
							what = "files the key under its new expiration"
						}
						problems = append(problems, "on block path "+pathString(path)+" it "+what+" before unfiling it from the old bucket: a refresh that lands in the same bucket erases the key from the index (never swept)")
					}
					if !lc.At(del).HasClass("expirationMap.RWMutex", "W") {
						problems = append(problems, "unfiling without the index lock")
					}
				}
			}
			if sp.newExp != "" {
				if insert == nil {
					problems = append(problems, "never files the key")
				} else {
					zero := edgesWhere(fn, tb, "call[time.Time.IsZero]("+sp.newExp+")", nil, true)
					if r, path := reach(entryPos(fn), isReturn, isIns, cutSet(nilEdges, zero)); r != nil {
						problems = append(problems, "a key with a non-zero expiration is not filed on block path "+pathString(path))
					}
					nonzero := edgesWhere(fn, tb, "call[time.Time.IsZero]("+sp.newExp+")", nil, false)
					if r, _ := reach(entryPos(fn), isIns, nil, cutSet(nonzero)); r != nil || len(nonzero) == 0 {
						problems = append(problems, "a key with a zero expiration (no TTL) can be filed")
					}
					if !lc.At(insert).HasClass("expirationMap.RWMutex", "W") {
						problems = append(problems, "filing without the index lock")
					}
				}
			}
			if len(problems) > 0 {
				L.Fail(ruleID, "expirationMap."+sp.name, strings.Join(problems, "; "), fn.Pos())
				return
			}
			L.Ok(ruleID, "expirationMap."+sp.name, "key → conflict filed in / removed from m.buckets[storageBucket(expiration)] on every path that must, old bucket first, under the index lock", fn.Pos())
		})
	}
}
