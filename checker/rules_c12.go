package main

import (
	"fmt"
	"sort"
	"strconv"
	"strings"

	"golang.org/x/tools/go/ssa"
)

func init() {
	register(&PropCheck{
		ID: "C12",
		Explanation: "Decides the structural conditions of 'z.Allocator hands out disjoint, stable, exactly sized memory, also concurrently': " +
			"(R-C12-ATOMIC) Allocator.compIdx is touched only through sync/atomic; " +
			"(R-C12-SLOW) in Allocate the chunk extension (addBufferAt(bufIdx+1, sz)) and the publication atomic.Store(compIdx, (bufIdx+1)<<32) run with the allocator mutex held and are reachable only across the edge on which the chunk index re-read under the mutex equals the one that overshot — nothing weaker and nothing stronger (any other loser must unlock and retry from the top); the mutex is released on every path; " +
			"(R-C12-WRITEONCE) elements of a.buffers are written only by NewAllocator (slot 0), addBufferAt (behind `len(a.buffers[idx]) == 0` for that index: a live chunk is never replaced), TrimTo and Release (frees by the single owner); the buffers slice header itself is assigned once (no append: readers index it without the lock); " +
			"(R-C12-EXACT) Allocate returns buf[posIdx−sz : posIdx] of the chunk selected by the same atomic add, only where posIdx ≤ len(buf), so its length normalises to sz; parse splits the word at bit 32; AllocateAligned requests sz+align, zeroes the whole request before slicing and returns out[start:start+sz] with start = ((addr+align) &^ align) − addr for one align constant; Copy = Allocate(len(buf)) + copy; " +
			"(R-C12-RESET) Reset only stores 0 into compIdx (chunks are kept). " +
			"NOT decided: disjointness under all interleavings (relies on the atomicity of AddUint64, argued informally) and overflow of the 32-bit offset half under extreme contention.",
		Run: runC12,
	})
}

func runC12(c *Ctx) {
	L, P := c.L, c.P
	L.Rule("R-C12-ATOMIC", "Allocator.compIdx accessed only through sync/atomic", 1)
	L.Rule("R-C12-SLOW", "chunk extension and publication under the mutex, exactly behind the re-checked chunk index; published value (bufIdx+1)<<32; mutex paired", 4)
	L.Rule("R-C12-WRITEONCE", "a.buffers slots written only by the tabled functions; live chunk never replaced; slice header assigned once", 3)
	L.Rule("R-C12-EXACT", "Allocate returns exactly sz bytes of the selected chunk; parse; AllocateAligned zeroes the whole request and aligns with one constant; Copy", 4)
	L.Rule("R-C12-RESET", "Reset only stores 0 into compIdx", 1)

	inZ := func(fn *ssa.Function) bool { return fn.Pkg == P.Pkgs["z"] }

	c.Group("R-C12-ATOMIC", "Allocator.compIdx", func() {
		n := 0
		for _, fn := range P.SrcFuncs {
			if !inZ(fn) {
				continue
			}
			for _, acc := range fieldAccessesIn(fn, "Allocator", "compIdx") {
				fa, ok := acc.(*ssa.FieldAddr)
				if !ok {
					L.Fail("R-C12-ATOMIC", "compIdx@"+fname(fn), "compIdx read as a plain field", acc.Pos())
					continue
				}
				if baseIsFresh(fa.X) {
					continue
				}
				n++
				for _, r := range *fa.Referrers() {
					call, ok := r.(*ssa.Call)
					if ok && strings.HasPrefix(calleeName(&call.Call), "atomic.") && call.Call.Args[0] == ssa.Value(fa) {
						continue
					}
					L.Fail("R-C12-ATOMIC", "compIdx@"+fname(fn), "the bump pointer is accessed without sync/atomic: two goroutines can be handed the same bytes", r.Pos())
				}
			}
		}
		L.Check(n >= 4, "R-C12-ATOMIC", "Allocator.compIdx", fmt.Sprintf("%d accesses, all through sync/atomic", n), "fewer than four accesses found", 0)
	})

	c.Group("R-C12-SLOW", "compIdx#writers", func() {
		// who moves the bump pointer, and how: the lock-free fast path only ever ADDS to it; every write
		// that repositions it (store, swap, compare-and-swap) is either the publication of the next chunk
		// under the allocator mutex or Reset's rewind to 0 (a single-owner operation). A lock-free
		// repositioning races with the locked publisher, which stores (bufIdx+1)<<32 unconditionally
		// after its re-check and would rewind the pointer onto memory already handed out.
		lc := newLockCtx(P, "z")
		var desc []string
		okAll := true
		for _, fn := range P.SrcFuncs {
			if !inZ(fn) {
				continue
			}
			for _, acc := range fieldAccessesIn(fn, "Allocator", "compIdx") {
				fa, ok := acc.(*ssa.FieldAddr)
				if !ok || baseIsFresh(fa.X) {
					continue
				}
				for _, r := range *fa.Referrers() {
					call, ok := r.(*ssa.Call)
					if !ok || call.Call.Args[0] != ssa.Value(fa) {
						continue
					}
					n := calleeName(&call.Call)
					cons := "compIdx#" + strings.TrimPrefix(n, "atomic.") + "@" + fname(fn)
					switch {
					case n == "atomic.LoadUint64":
					case n == "atomic.AddUint64":
						if fname(fn) != "z.Allocator.Allocate" {
							okAll = false
							L.Fail("R-C12-SLOW", cons, "the bump pointer is advanced outside Allocate", call.Pos())
						}
						desc = append(desc, "add@"+fname(fn))
					case fname(fn) == "z.Allocator.Reset" && n == "atomic.StoreUint64" && isConst(call.Call.Args[1], "0"):
						desc = append(desc, "store 0@"+fname(fn))
					case fname(fn) == "z.Allocator.Allocate" && n == "atomic.StoreUint64" && lc.At(call).HasClass("Allocator.Mutex", "W"):
						desc = append(desc, "locked store@"+fname(fn))
					default:
						okAll = false
						L.Fail("R-C12-SLOW", cons, "the bump pointer is repositioned by "+n+" outside the allocator mutex (held: "+lc.At(call).String()+"): it races with the locked publisher, whose unconditional store of (bufIdx+1)<<32 then rewinds the pointer onto bytes already handed out", call.Pos())
					}
				}
			}
		}
		// the cursor is rewound only when the owner says so: Reset is called by AllocatorPool.Get (an allocator
		// coming back from the pool has no live slices) and by nobody else in the package - not by TrimTo or
		// Release, which run on allocators whose slices may still be in use
		for _, fn := range P.SrcFuncs {
			if !inZ(fn) {
				continue
			}
			for _, ci := range callsTo(fn, "z.Allocator.Reset") {
				if fname(fn) != "z.AllocatorPool.Get" {
					okAll = false
					L.Fail("R-C12-SLOW", "Reset@"+fname(fn), fname(fn)+" rewinds the bump pointer (calls Reset): slices handed out before stay in use and the next allocations overlap them", ci.Pos())
				}
			}
		}
		sort.Strings(desc)
		if okAll {
			L.Check(len(desc) >= 3, "R-C12-SLOW", "compIdx#writers", "writers of the bump pointer: "+strings.Join(desc, ", "), "fewer than three writers found", 0)
		}
	})
	c.Group("R-C12-SLOW", "addBufferAt#fits", func() {
		// the chunk acquired for a request is at least as large as the request: addBufferAt doubles the
		// page size until it reaches minSz and may then cap it - the cap must not be below the largest
		// request Allocate accepts (its `sz > G` panic guard), otherwise such a request never fits, the
		// retry loop acquires chunk after chunk and finally panics on the chunk table limit
		al := P.Fn("z", "Allocator", "Allocate")
		ab := P.Fn("z", "Allocator", "addBufferAt")
		L.Analysed(fname(ab))
		atb, btb := newTB(al), newTB(ab)
		var G int64 = -1
		for _, b := range al.Blocks {
			iff := lastIf(b)
			if iff == nil {
				continue
			}
			env := Env{}
			if condPolarity(atb.T(iff.Cond), "lt(?g,p[1])", env) > 0 && env["g"].Op == "c" {
				if hit, _ := reach(Pos{b.Succs[0], 0}, isPanic, isReturn, nil); hit != nil {
					fmt.Sscan(env["g"].Sym, &G)
				}
			}
		}
		if G < 0 {
			L.Undecided("R-C12-SLOW", "addBufferAt#fits", "Allocate's upper bound on the request size (`sz > const` ⇒ panic) was not found", al.Pos())
			return
		}
		var problems []string
		cal := callsTo(ab, "z.Calloc")
		if len(cal) != 1 {
			L.Undecided("R-C12-SLOW", "addBufferAt#fits", fmt.Sprintf("expected one Calloc in addBufferAt, found %d", len(cal)), ab.Pos())
			return
		}
		size := cal[0].Common().Args[0]
		var consts []int64
		var walk func(v ssa.Value, seen map[ssa.Value]bool)
		grows := false
		walk = func(v ssa.Value, seen map[ssa.Value]bool) {
			if seen[v] {
				return
			}
			seen[v] = true
			switch x := v.(type) {
			case *ssa.Const:
				var k int64
				if _, err := fmt.Sscan(constSym(x), &k); err == nil {
					consts = append(consts, k)
				}
			case *ssa.Phi:
				for _, e := range x.Edges {
					walk(e, seen)
				}
			case *ssa.Call:
				if b, ok := x.Call.Value.(*ssa.Builtin); ok && (b.Name() == "min" || b.Name() == "max") {
					for _, a := range x.Call.Args {
						walk(a, seen)
					}
				}
			case *ssa.BinOp:
				// pageSize *= 2 / 2*len(prev): the growing part
				grows = true
			}
		}
		walk(size, map[ssa.Value]bool{})
		for _, k := range consts {
			if k < G {
				problems = append(problems, fmt.Sprintf("a new chunk can be capped at %d bytes although Allocate accepts requests up to %d: a larger request never fits, every retry acquires another chunk", k, G))
			}
		}
		// the doubling loop reaches minSz
		reaches := false
		for _, b := range ab.Blocks {
			if iff := lastIf(b); iff != nil && condPolarity(btb.T(iff.Cond), "lt(_,p[2])", nil) != 0 {
				reaches = true
			}
		}
		if !reaches || !grows {
			problems = append(problems, "the page size is not grown until it reaches the requested minimum (`for pageSize < minSz`)")
		}
		L.Check(len(problems) == 0, "R-C12-SLOW", "addBufferAt#fits", fmt.Sprintf("chunk size doubles until >= minSz; its cap (%v) is not below Allocate's request limit %d", consts, G), strings.Join(problems, "; "), cal[0].Pos())
	})
	c.Group("R-C12-SLOW", "Allocator.Allocate", func() {
		fn := P.Fn("z", "Allocator", "Allocate")
		L.Analysed(fname(fn))
		lc := newLockCtx(P, "z")
		tb := lc.tb(fn)
		adds := callsTo(fn, "atomic.AddUint64")
		loads := callsTo(fn, "atomic.LoadUint64")
		stores := callsTo(fn, "atomic.StoreUint64")
		exts := callsTo(fn, "z.Allocator.addBufferAt")
		if len(adds) != 1 || len(loads) != 1 || len(stores) != 1 || len(exts) != 1 {
			L.Fail("R-C12-SLOW", "Allocator.Allocate#shape", fmt.Sprintf("expected one atomic add, one re-load, one publishing store and one addBufferAt; found %d/%d/%d/%d", len(adds), len(loads), len(stores), len(exts)), fn.Pos())
			return
		}
		add, load, store, ext := adds[0].(*ssa.Call), loads[0].(*ssa.Call), stores[0].(*ssa.Call), exts[0].(*ssa.Call)
		cidx := "addr(fld[compIdx](p[0]))"
		if tb.T(add.Call.Args[0]).String() != cidx || tb.T(load.Call.Args[0]).String() != cidx || tb.T(store.Call.Args[0]).String() != cidx || tb.T(add.Call.Args[1]).String() != "conv[uint64](p[1])" {
			L.Fail("R-C12-SLOW", "Allocator.Allocate#shape", "the atomic operations are not all on a.compIdx, or the bump is not uint64(sz)", add.Pos())
			return
		}
		bufIdx := "ext[0](call[z.parse](" + tb.T(add).String() + "))"
		newIdx := "ext[0](call[z.parse](" + tb.T(load).String() + "))"
		// under the mutex
		okLock := true
		for _, in := range []ssa.Instruction{load, store, ext} {
			if !lc.At(in).HasClass("Allocator.Mutex", "W") {
				okLock = false
				L.Fail("R-C12-SLOW", "Allocator.Allocate#mutex", "the slow path touches the chunk table / publishes the next chunk without the allocator mutex", in.Pos())
			}
		}
		if okLock {
			L.Ok("R-C12-SLOW", "Allocator.Allocate#mutex", "re-load, addBufferAt and publishing store all under a.Mutex", load.Pos())
		}
		// exactly behind newBufIdx == bufIdx
		same := edgesWhere(fn, tb, "ne("+newIdx+","+bufIdx+")", nil, false)
		differ := edgesWhere(fn, tb, "ne("+newIdx+","+bufIdx+")", nil, true)
		if len(same) == 0 {
			L.Fail("R-C12-SLOW", "Allocator.Allocate#recheck", "the chunk index is not re-checked under the mutex (newBufIdx != bufIdx ⇒ retry): two losers of the same boundary race would both extend and rewind the bump pointer", load.Pos())
		} else {
			b1, p1 := reach(after(load), isInstr(ext), nil, cutSet(same))
			// on the "differ" side the only continuation is unlock + back to the atomic add
			okRetry := true
			for e := range differ {
				tgt := e.From.Succs[e.Succ]
				r, _ := reach(Pos{tgt, 0}, func(in ssa.Instruction) bool {
					return in == ssa.Instruction(ext) || in == ssa.Instruction(store) || isReturn(in)
				}, isInstr(add), nil)
				if r != nil {
					okRetry = false
				}
				iff := lastIf(tgt)
				if iff != nil && len(tgt.Instrs) < 4 {
					// a further condition on the retry edge weakens the re-check
					okRetry = false
				}
			}
			if b1 != nil {
				L.Fail("R-C12-SLOW", "Allocator.Allocate#recheck", "addBufferAt/publish is reachable although another goroutine already moved to a different chunk (block path "+pathString(p1)+"): the bump pointer is rewound onto memory already handed out", ext.Pos())
			} else if !okRetry {
				L.Fail("R-C12-SLOW", "Allocator.Allocate#recheck", "when the re-read chunk index differs the code does not simply unlock and retry from the atomic add", load.Pos())
			} else {
				L.Ok("R-C12-SLOW", "Allocator.Allocate#recheck", "extension and publication only when the re-read chunk index equals the one that overshot; otherwise unlock and retry", load.Pos())
			}
		}
		okPub := tb.T(store.Call.Args[1]).String() == "conv[uint64](shl(add(c[1],"+bufIdx+"),c[32]))" &&
			tb.T(ext.Call.Args[1]).String() == "add(c[1],"+bufIdx+")" && tb.T(ext.Call.Args[2]).String() == "p[1]" && instrDominates(ext, store)
		L.Check(okPub, "R-C12-SLOW", "Allocator.Allocate#publish", "addBufferAt(bufIdx+1, sz) then compIdx := (bufIdx+1)<<32", "the next chunk is published as "+tb.T(store.Call.Args[1]).String()+" after addBufferAt("+tb.T(ext.Call.Args[1]).String()+", "+tb.T(ext.Call.Args[2]).String()+"); want addBufferAt(bufIdx+1, sz) then (bufIdx+1)<<32", store.Pos())
		// pairing
		li := lc.infos[fn]
		okPair := len(li.Problems) == 0
		for _, r := range returnsOf(fn) {
			if len(li.Before[r]) != 0 {
				okPair = false
			}
		}
		// also at the loop back edge (continue) the mutex must not be held: the atomic add is never executed under it
		if lc.At(add).HasClass("Allocator.Mutex", "W") {
			okPair = false
		}
		L.Check(okPair, "R-C12-SLOW", "Allocator.Allocate#pair", "mutex released on every path (returns and retries)", "the allocator mutex can stay held across a retry or a return", fn.Pos())
	})

	c.Group("R-C12-WRITEONCE", "Allocator.buffers", func() {
		allowed := map[string]string{"z.NewAllocator": "slot 0 of a fresh allocator", "z.Allocator.addBufferAt": "empty slot only", "z.Allocator.TrimTo": "frees by the single owner", "z.Allocator.Release": "frees by the single owner"}
		n := 0
		for _, fn := range P.SrcFuncs {
			if !inZ(fn) {
				continue
			}
			tb := newTB(fn)
			eachInstr(fn, func(in ssa.Instruction) {
				st, ok := in.(*ssa.Store)
				if !ok {
					return
				}
				pt := tb.pointee(st.Addr)
				switch {
				case Match("idx(fld[buffers](_),_)", pt, nil):
					n++
					if _, ok := allowed[fname(fn)]; !ok {
						L.Fail("R-C12-WRITEONCE", "buffers[]@"+fname(fn), "writes a chunk slot; only NewAllocator, addBufferAt, TrimTo and Release may", st.Pos())
					}
				case Match("fld[buffers](_)", pt, nil):
					if fa, isFA := st.Addr.(*ssa.FieldAddr); isFA && !baseIsFresh(fa.X) {
						L.Fail("R-C12-WRITEONCE", "buffers@"+fname(fn), "re-assigns the buffers slice (append/reslice): concurrent readers index the old header without the lock", st.Pos())
					}
				}
			})
		}
		L.Check(n >= 3, "R-C12-WRITEONCE", "Allocator.buffers", fmt.Sprintf("%d slot writes, all in tabled functions; slice header assigned only in the constructor", n), "fewer than three slot writes found", 0)
	})
	c.Group("R-C12-WRITEONCE", "Allocator.addBufferAt", func() {
		fn := P.Fn("z", "Allocator", "addBufferAt")
		L.Analysed(fname(fn))
		tb := newTB(fn)
		var st *ssa.Store
		eachInstr(fn, func(in ssa.Instruction) {
			if s, ok := in.(*ssa.Store); ok && Match("idx(fld[buffers](p[0]),_)", tb.pointee(s.Addr), nil) {
				st = s
			}
		})
		if st == nil {
			L.Fail("R-C12-WRITEONCE", "Allocator.addBufferAt", "does not install a chunk", fn.Pos())
			return
		}
		env := Env{}
		Match("idx(fld[buffers](p[0]),?i)", tb.pointee(st.Addr), env)
		slot := "idx(fld[buffers](p[0])," + env["i"].String() + ")"
		empty := edgesWhere(fn, tb, "eq(call[len]("+slot+"),c[0])", nil, true)
		bad, _ := reach(entryPos(fn), isInstr(st), nil, cutSet(empty))
		okVal := strings.HasPrefix(tb.T(st.Val).String(), "call[z.Calloc](")
		L.Check(bad == nil && len(empty) > 0 && okVal, "R-C12-WRITEONCE", "Allocator.addBufferAt", "a fresh Calloc chunk is stored only into a slot whose length was found 0 for the same index", "a chunk slot can be overwritten without `len(a.buffers[idx]) == 0` for that index: memory already handed out would be replaced", st.Pos())
	})
	c.Group("R-C12-WRITEONCE", "NewAllocator", func() {
		fn := P.Fn("z", "", "NewAllocator")
		tb := newTB(fn)
		ok := false
		eachInstr(fn, func(in ssa.Instruction) {
			if s, isS := in.(*ssa.Store); isS && Match("idx(fld[buffers](_),c[0])", tb.pointee(s.Addr), nil) && strings.HasPrefix(tb.T(s.Val).String(), "call[z.Calloc](") {
				ok = true
			}
		})
		L.Check(ok, "R-C12-WRITEONCE", "NewAllocator", "slot 0 receives the first chunk", "NewAllocator does not install chunk 0", fn.Pos())
	})

	c.Group("R-C12-EXACT", "Allocator.Allocate#slice", func() {
		fn := P.Fn("z", "Allocator", "Allocate")
		tb := newTB(fn)
		adds := callsTo(fn, "atomic.AddUint64")
		if len(adds) != 1 {
			L.Undecided("R-C12-EXACT", "Allocator.Allocate#slice", "atomic add not found", fn.Pos())
			return
		}
		pr := "call[z.parse](" + tb.T(adds[0].(*ssa.Call)).String() + ")"
		buf := "idx(fld[buffers](p[0]),ext[0](" + pr + "))"
		pos := "ext[1](" + pr + ")"
		fits := edgesWhere(fn, tb, "lt(call[len]("+buf+"),"+pos+")", nil, false)
		ok, n := len(fits) > 0, 0
		for _, r := range returnsOf(fn) {
			rt := tb.T(returnValues(r)[0]).String()
			switch {
			case rt == "slice("+buf+",sub("+pos+",p[1]),"+pos+",_)":
				n++
				if b, _ := reach(after(adds[0].(ssa.Instruction)), isInstr(r), nil, cutSet(fits)); b != nil {
					ok = false
				}
			case rt == "c[nil]" || strings.HasPrefix(rt, "make["):
			default:
				ok = false
				L.Fail("R-C12-EXACT", "Allocator.Allocate#slice", "returns "+rt+"; want buf[posIdx−sz : posIdx] of the chunk and offset parsed from the same atomic add", r.Pos())
			}
		}
		L.Check(ok && n == 1, "R-C12-EXACT", "Allocator.Allocate#slice", "returns buf[posIdx−sz : posIdx] (length sz) only where posIdx ≤ len(buf)", "the returned slice is not buf[posIdx−sz:posIdx] guarded by posIdx ≤ len(buf)", fn.Pos())
	})
	c.Group("R-C12-EXACT", "z.parse", func() {
		fn := P.Fn("z", "", "parse")
		tb := newTB(fn)
		ok := false
		for _, r := range returnsOf(fn) {
			rv := returnValues(r)
			ok = tb.T(rv[0]).String() == "conv[int](shr(p[0],c[32]))" && tb.T(rv[1]).String() == "conv[int](and(c[4294967295],p[0]))"
		}
		L.Check(ok, "R-C12-EXACT", "z.parse", "(pos>>32, pos&0xFFFFFFFF): the two halves the publisher packs", "parse does not split the word at bit 32", fn.Pos())
	})
	c.Group("R-C12-EXACT", "Allocator.AllocateAligned", func() {
		fn := P.Fn("z", "Allocator", "AllocateAligned")
		L.Analysed(fname(fn))
		tb := newTB(fn)
		allocs := callsTo(fn, "z.Allocator.Allocate")
		zeros := callsTo(fn, "z.ZeroOut")
		if len(allocs) != 1 {
			L.Fail("R-C12-EXACT", "Allocator.AllocateAligned", "does not call Allocate exactly once", fn.Pos())
			return
		}
		out := tb.T(allocs[0].(*ssa.Call)).String()
		env := Env{}
		if !Match("add(p[1],?a)", tb.T(allocs[0].Common().Args[1]), env) && !Match("add(?a,p[1])", tb.T(allocs[0].Common().Args[1]), env) || env["a"].Op != "c" {
			L.Fail("R-C12-EXACT", "Allocator.AllocateAligned", "does not request sz + align bytes", allocs[0].Pos())
			return
		}
		align := env["a"].Sym
		al, _ := strconv.ParseUint(align, 10, 64)
		okZero := false
		for _, z := range zeros {
			a := z.Common().Args
			if tb.T(a[0]).String() == out && isConst(a[1], "0") && tb.T(a[2]).String() == "call[len]("+out+")" {
				okZero = true
				// before any slicing of out
				if sl, _ := reach(entryPos(fn), func(in ssa.Instruction) bool { _, isSl := in.(*ssa.Slice); return isSl }, isInstr(z.(ssa.Instruction)), nil); sl != nil {
					okZero = false
				}
			}
		}
		addr := "conv[uintptr](conv[unsafe.Pointer](addr(idx(" + out + ",c[0]))))"
		mask := fmt.Sprint(^al)
		startPat := "conv[int](sub(and(add(" + addr + ",c[" + align + "]),c[" + mask + "])," + addr + "))"
		okSlice := false
		for _, r := range returnsOf(fn) {
			rt := tb.T(returnValues(r)[0])
			e := Env{}
			if Match("slice("+out+",?s,?e,_)", rt, e) && Match(startPat, e["s"], nil) {
				if Match("add(?x,p[1])", e["e"], Env{"x": e["s"]}) {
					okSlice = true
				}
			}
		}
		if !okZero {
			L.Fail("R-C12-EXACT", "Allocator.AllocateAligned#zero", "the request is not zeroed over its whole length (ZeroOut(out, 0, len(out))) before slicing: after Reset the tail of an aligned slice keeps old bytes", fn.Pos())
		} else {
			L.Ok("R-C12-EXACT", "Allocator.AllocateAligned#zero", "ZeroOut(out, 0, len(out)) before slicing", fn.Pos())
		}
		L.Check(okSlice && al == 7, "R-C12-EXACT", "Allocator.AllocateAligned#align", "out[start:start+sz], start = ((addr+7) &^ 7) − addr, request sz+7: one alignment constant", "the aligned sub-slice is not out[start:start+sz] with start = ((addr+a) &^ a) − addr for the same a as the extra request", fn.Pos())
	})
	c.Group("R-C12-EXACT", "Allocator.Copy", func() {
		fn := P.Fn("z", "Allocator", "Copy")
		tb := newTB(fn)
		allocs := callsTo(fn, "z.Allocator.Allocate")
		ok := len(allocs) == 1 && tb.T(allocs[0].Common().Args[1]).String() == "call[len](p[1])"
		if ok {
			out := tb.T(allocs[0].(*ssa.Call)).String()
			cp, ret := false, false
			for _, ci := range builtinCalls(fn, "copy") {
				if tb.T(ci.Call.Args[0]).String() == out && tb.T(ci.Call.Args[1]).String() == "p[1]" {
					cp = true
				}
			}
			for _, r := range returnsOf(fn) {
				if tb.T(returnValues(r)[0]).String() == out {
					ret = true
				}
			}
			ok = cp && ret
		}
		L.Check(ok, "R-C12-EXACT", "Allocator.Copy", "out = Allocate(len(buf)); copy(out, buf); return out", "Copy is not Allocate(len(buf)) + copy(out, buf)", fn.Pos())
	})

	c.Group("R-C12-RESET", "Allocator.Reset", func() {
		fn := P.Fn("z", "Allocator", "Reset")
		tb := newTB(fn)
		n, ok := 0, false
		eachInstr(fn, func(in ssa.Instruction) {
			switch x := in.(type) {
			case *ssa.Call:
				n++
				if calleeName(&x.Call) == "atomic.StoreUint64" && tb.T(x.Call.Args[0]).String() == "addr(fld[compIdx](p[0]))" && isConst(x.Call.Args[1], "0") {
					ok = true
				}
			case *ssa.Store:
				n += 10
			}
		})
		L.Check(ok && n == 1, "R-C12-RESET", "Allocator.Reset", "only atomic.StoreUint64(&compIdx, 0): chunks are kept and reused", "Reset does more (or less) than storing 0 into compIdx", fn.Pos())
	})
}
