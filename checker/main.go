// verifcheck: repository-specific static rules for dgraph-io/ristretto (see DESIGN.md).
package main

import (
	"encoding/json"
	"flag"
	"fmt"
	"go/token"
	"golang.org/x/tools/go/ssa"
	"os"
	"path/filepath"
	"runtime"
	"runtime/debug"
	"sort"
	"strconv"
	"strings"
	"time"
)

// PropCheck describes the rules of one property.
type PropCheck struct {
	ID          string
	Explanation string // what is decided and, clause by clause, what is not
	Variants    func(tier string) []Variant
	Run         func(c *Ctx) // run on one variant
	Extra       func(c *Ctx) map[string]any
}

type Ctx struct {
	L    *Ledger
	P    *Prog
	Tier string
	Repo string
	// per-variant scratch shared by rule groups
	tbs map[string]*TB
}

var registry = map[string]*PropCheck{}

func register(p *PropCheck) { registry[p.ID] = p }

func defaultVariants(string) []Variant { return []Variant{V0} }

// Group runs one rule group; a missing anchor becomes an undecided obligation of that
// rule (the checker cannot vouch for code it cannot find), any other panic aborts.
func (c *Ctx) Group(rule, construct string, f func()) {
	defer func() {
		if r := recover(); r != nil {
			if am, ok := r.(anchorMissing); ok {
				c.L.Undecided(rule, construct, "anchor not found in the program: "+am.what, 0)
				return
			}
			if u, ok := r.(undecidedShape); ok {
				c.L.Undecided(rule, construct, "code shape outside the rule's idiom list: "+u.why, u.pos)
				return
			}
			if re, ok := r.(runtime.Error); ok {
				// a rule walked off the idioms it was written for (nil anchor value, unexpected
				// instruction kind): it cannot vouch for this construct. Reported as undecided -
				// an alarm, never a pass - with the place in the rule that gave up.
				where := ""
				for _, ln := range strings.Split(string(debug.Stack()), "\n") {
					if strings.Contains(ln, "/checker/rules_") {
						where = strings.TrimSpace(ln)
						if i := strings.LastIndex(where, "/"); i >= 0 {
							where = where[i+1:]
						}
						if i := strings.Index(where, " "); i >= 0 {
							where = where[:i]
						}
						break
					}
				}
				c.L.Undecided(rule, construct, "the rule's analysis gave up on a code shape it was not written for ("+re.Error()+" at "+where+"): the check cannot vouch for this construct", 0)
				return
			}
			panic(r)
		}
	}()
	f()
}

// undecidedShape is panicked by helpers when the code has a shape the rule cannot read.
type undecidedShape struct {
	why string
	pos token.Pos
}

func (u undecidedShape) String() string { return u.why }

func main() {
	repo := flag.String("repo", "/repo", "repository root")
	verif := flag.String("verif", "/verif", "verif root (known_findings.json, evidence/)")
	prop := flag.String("prop", "", "property id (C01..C20)")
	tier := flag.String("tier", "quick", "quick|thorough")
	evOut := flag.String("evidence", "", "evidence file (default <verif>/evidence/<prop>.json)")
	noKnown := flag.Bool("no-known", false, "ignore known_findings.json (selftest)")
	dumpF := flag.Bool("dump-funcs", false, "print the function keys of the library packages (to regenerate checker/known_funcs.txt) and exit")
	noNorm := flag.Bool("no-normalize", false, "do not substitute unknown helper functions back into their callers before analysing")
	selftestJSON := flag.String("selftest", "", "JSON summary of the rule self-test to embed in the evidence (thorough tier)")
	dumpT := flag.String("dump-terms", "", "debug: pkg:recv:name - print the normalised term of every value of that function and exit")
	flag.Parse()
	if *dumpT != "" {
		parts := strings.Split(*dumpT, ":")
		P, err := Load(*repo, V0)
		if err != nil {
			fmt.Fprintln(os.Stderr, err)
			os.Exit(2)
		}
		fn := P.Fn(parts[0], parts[1], parts[2])
		fns := append([]*ssa.Function{fn}, fn.AnonFuncs...)
		for _, f := range fns {
			tb := newTB(f)
			fmt.Println("==", fname(f))
			for _, b := range f.Blocks {
				fmt.Printf("block %d (%s) preds=%v succs=%v\n", b.Index, b.Comment, b.Preds, b.Succs)
				for _, in := range b.Instrs {
					if v, ok := in.(ssa.Value); ok {
						fmt.Printf("  %-6s = %s\n", v.Name(), tb.T(v).String())
					} else {
						fmt.Printf("  %s\n", in.String())
					}
				}
			}
		}
		return
	}
	if *dumpF {
		fs, err := dumpFuncs(*repo)
		if err != nil {
			fmt.Fprintln(os.Stderr, err)
			os.Exit(2)
		}
		fmt.Println(strings.Join(fs, "\n"))
		return
	}
	if *prop == "" {
		fmt.Fprintln(os.Stderr, "usage: verifcheck -prop Cxx [-tier quick|thorough]")
		os.Exit(2)
	}
	props := []string{*prop}
	if *prop == "all" {
		props = nil
		for id := range registry {
			props = append(props, id)
		}
		sort.Strings(props)
	}
	seed := 0
	if s := os.Getenv("VERIF_SEED"); s != "" {
		seed, _ = strconv.Atoi(s)
	}
	abs, _ := filepath.Abs(*repo)
	origRepo := abs
	if !*noNorm {
		dir, inl, cleanup, err := normalizeRepo(abs, *verif)
		if err == nil && dir != abs {
			abs = dir
			normalizedHelpers = inl
			defer cleanup()
			fmt.Printf("NOTE: %d new helper function(s) were substituted back into their callers before analysis (behaviour-preserving normalisation): %s; line numbers below refer to the normalised source\n", len(inl), strings.Join(inl, ", "))
			exitHook = cleanup
		}
	}
	_ = origRepo
	progs := map[string]*Prog{}
	exit := 0
	for _, id := range props {
		pc := registry[id]
		if pc == nil {
			fmt.Fprintf(os.Stderr, "unknown property %s\n", id)
			os.Exit(2)
		}
		ev := *evOut
		if ev == "" {
			ev = filepath.Join(*verif, "evidence", id+".json")
		} else if len(props) > 1 {
			// several properties: -evidence names a file of one of them; the others go next to it
			ev = filepath.Join(filepath.Dir(ev), id+".json")
		}
		code := runProp(pc, abs, *verif, *tier, ev, seed, *noKnown, progs, *selftestJSON)
		if code > exit {
			exit = code
		}
	}
	if exitHook != nil {
		exitHook()
	}
	os.Exit(exit)
}

var normalizedHelpers []string
var exitHook func()

func runProp(pc *PropCheck, repo, verif, tier, evPath string, seed int, noKnown bool, progs map[string]*Prog, selftestJSON string) (code int) {
	start := time.Now()
	defer func() {
		if r := recover(); r != nil {
			fmt.Fprintf(os.Stderr, "verifcheck: internal error in %s: %v\n%s\n", pc.ID, r, debug.Stack())
			code = 2
		}
	}()
	vf := pc.Variants
	if vf == nil {
		vf = defaultVariants
	}
	variants := vf(tier)
	L := newLedger(pc.ID)
	var vnames []string
	npk := 0
	for _, v := range variants {
		P := progs[v.Name]
		if P == nil {
			var err error
			P, err = Load(repo, v)
			if err != nil {
				fmt.Fprintf(os.Stderr, "verifcheck: cannot load %s (%s): %v\n", repo, v.Name, err)
				return 2
			}
			progs[v.Name] = P
		}
		npk += P.NPkgs
		L.P = P
		L.curVariant = v.Name
		vnames = append(vnames, fmt.Sprintf("%s=%s/%s(%d pkgs, %d src funcs)", v.Name, v.GOOS, v.GOARCH, P.NPkgs, len(P.SrcFuncs)))
		c := &Ctx{L: L, P: P, Tier: tier, Repo: repo, tbs: map[string]*TB{}}
		pc.Run(c)
	}
	if npk == 0 {
		fmt.Fprintln(os.Stderr, "verifcheck: zero packages analysed")
		return 2
	}
	L.finish()
	// known findings
	if !noKnown {
		kf, err := loadKnown(filepath.Join(verif, "known_findings.json"))
		if err != nil {
			fmt.Fprintf(os.Stderr, "verifcheck: known_findings.json: %v\n", err)
			return 2
		}
		for _, o := range L.Obls {
			if o.Outcome == OK {
				continue
			}
			for _, k := range kf {
				if k.Status == "known" && k.Property == pc.ID && k.Rule == o.Rule && k.Construct == o.Construct && o.Outcome == Violation {
					o.Known = true
					fmt.Printf("KNOWN-FINDING: property=%s %s:%s %s\n", pc.ID, k.Rule, k.Construct, k.What)
				}
			}
		}
	}
	if err := os.MkdirAll(filepath.Dir(evPath), 0o755); err != nil {
		fmt.Fprintln(os.Stderr, err)
		return 2
	}
	extra := map[string]any{}
	if selftestJSON != "" {
		if data, err := os.ReadFile(selftestJSON); err == nil {
			var st any
			if json.Unmarshal(data, &st) == nil {
				extra["rule_selftest"] = st
			}
		}
	}
	wall := time.Since(start).Seconds()
	viol, _, err := L.writeEvidence(evPath, tier, seed, wall, pc.Explanation, vnames, extra)
	if err != nil {
		fmt.Fprintln(os.Stderr, "verifcheck: writing evidence:", err)
		return 2
	}
	if len(normalizedHelpers) > 0 {
		L.Assume("analysed after substituting these new helper functions back into their callers: " + strings.Join(normalizedHelpers, ", "))
	}
	for _, a := range L.Advisories {
		fmt.Printf("ADVISORY: property=%s %s\n", pc.ID, a)
	}
	ok := 0
	for _, o := range L.Obls {
		if o.Outcome == OK {
			ok++
		}
	}
	fmt.Printf("%s %s: %d obligations over %d rules, %d discharged, %d violations, %d functions, variants %s, %.1fs\n",
		pc.ID, tier, len(L.Obls), len(L.RuleTexts), ok, len(viol), len(L.funcs), strings.Join(vnames, " "), wall)
	if len(viol) > 0 {
		replay := filepath.Join(filepath.Dir(evPath), pc.ID+".violations.json")
		type rep struct {
			Property   string            `json:"property"`
			Replay     string            `json:"replay"`
			Violations []*Obligation     `json:"violations"`
			RuleTexts  map[string]string `json:"rules"`
		}
		texts := map[string]string{}
		for _, o := range viol {
			texts[o.Rule] = L.RuleTexts[o.Rule]
		}
		data, _ := json.MarshalIndent(rep{pc.ID, "re-run: ./run.sh " + pc.ID + " " + tier, viol, texts}, "", " ")
		_ = os.WriteFile(replay, data, 0o644)
		for _, o := range viol {
			fmt.Printf("  %s %s:%s at %s: %s\n", strings.ToUpper(string(o.Outcome)), o.Rule, o.Construct, o.Pos, o.Detail)
		}
		fmt.Printf("VIOLATION property=%s replay=%s\n", pc.ID, replay)
		return 1
	}
	os.Remove(filepath.Join(filepath.Dir(evPath), pc.ID+".violations.json"))
	return 0
}

func (c *Ctx) TB(fnKey string, mkfn func() *TB) *TB {
	if t, ok := c.tbs[fnKey]; ok {
		return t
	}
	t := mkfn()
	c.tbs[fnKey] = t
	return t
}
