package main

import (
	"fmt"
	"strings"

	"golang.org/x/tools/go/ssa"
)

func init() {
	register(&PropCheck{
		ID: "C13",
		Explanation: "Decides the pairing rules behind 'the map, the capacity accounting and IterValues agree on what is resident': " +
			"(R-C13-PAIRDEL) on the applier every removal from the policy is paired with removal of the same key from the map: tombstone arm and expiry sweep call policy.Del(k) and store.Del(k,…) together on every path; every victim returned by cachePolicy.Add is visited by a loop without early exit that calls storedItems.Del(victim.Key,…), reached on both the admitted and the rejected path; Cache.Del's tombstone is unconditional (so the policy learns of every immediate map removal); " +
			"(R-C13-PAIRADD) storedItems.Set(i) is called only on the admitted side of cachePolicy.Add(i.Key,…) for the same i and has no other caller in the library; " +
			"(R-C13-ARMS) the applier applies policy.Add only to itemNew, policy.Update only to itemUpdate, policy.Del only to itemDelete items, and sampledLFU.add is called by defaultPolicy.Add alone (an update can never create a charge); " +
			"(R-C13-ACCOUNT) every writer of the accounted cost keeps used == sum(keyCosts) (shared with C03); " +
			"(R-C13-EXPINDEX) in lockedMap.Set/Update/Del every map store/delete is accompanied, on the same path and under the same write lock, by the matching expirationMap call with the old and new expirations of that entry, and no index call happens on a path that leaves the map unchanged; " +
			"(R-C13-CLEAR) Cache.Clear passes, after the stop/done handshake, cachePolicy.Clear (which clears the cost accounting under the lock) and storedItems.Clear; " +
			"(R-C13-ITER) IterValues visits every shard, yields each entry at most once per pass, and a true callback result leaves both loops. " +
			"NOT decided: the equality at quiescent points itself; colliding keys (excluded by the property).",
		Run: runC13,
	})
}

// victimsLoopRule: every victim of cachePolicy.Add is deleted from the map by a loop
// without early exit that is reached whatever the verdict. Shared by C13 and C09.
func victimsLoopRule(c *Ctx, ruleID string) {
	L, P := c.L, c.P
	c.Group(ruleID, "Cache.processItems#victims", func() {
		fn := P.Fn("ristretto", "Cache", "processItems")
		L.Analysed(fname(fn))
		tb := newTB(fn)
		sel, _, _ := applierSelect(fn, tb)
		adds := callsTo(fn, "defaultPolicy.Add")
		if sel == nil || len(adds) != 1 {
			L.Undecided(ruleID, "Cache.processItems#victims", "applier shape not recognised", fn.Pos())
			return
		}
		add := adds[0].(*ssa.Call)
		victims := "ext[0](" + tb.T(add).String() + ")"
		var lenCall *ssa.Call
		eachInstr(fn, func(in ssa.Instruction) {
			if cl, ok := in.(*ssa.Call); ok && tb.T(cl).String() == "call[len]("+victims+")" {
				lenCall = cl
			}
		})
		if lenCall == nil {
			L.Fail(ruleID, "Cache.processItems#victims", "the victims returned by cachePolicy.Add are never ranged over: evicted keys stay in the map", add.Pos())
			return
		}
		next := func(in ssa.Instruction) bool { return in == ssa.Instruction(sel) || isReturn(in) }
		bad, path := reach(after(add), next, isInstr(lenCall), nil)
		if bad != nil {
			L.Fail(ruleID, "Cache.processItems#victims", "a path from cachePolicy.Add to the next receive skips the victims loop (block path "+pathString(path)+"): keys the policy dropped keep their map entries (resident but no longer charged)", add.Pos())
			return
		}
		// the loop body: one store.Del(victim.Key, _) per element, header is the only exit
		var del *ssa.Call
		for _, d := range callsTo(fn, "iface:store.Del") {
			if Match("fld[Key](idx("+victims+",_))", tb.T(d.Common().Args[0]), nil) {
				del = d.(*ssa.Call)
			}
		}
		if del == nil {
			L.Fail(ruleID, "Cache.processItems#victims", "the victims loop does not call storedItems.Del(victim.Key, …)", lenCall.Pos())
			return
		}
		body := del.Block()
		// from the body the only way out of the loop is back through the header test `i < len(victims)`
		hdrTest := func(in ssa.Instruction) bool {
			iff, ok := in.(*ssa.If)
			return ok && condPolarity(tb.T(iff.Cond), "lt(_,"+tb.T(lenCall).String()+")", nil) != 0
		}
		esc, _ := reach(Pos{body, 0}, next, hdrTest, nil)
		if esc != nil {
			L.Fail(ruleID, "Cache.processItems#victims", "the victims loop can be left before all victims are removed from the map", instrPos(esc))
			return
		}
		// and every iteration reaches the Del (no continue before it)
		skip, _ := reach(Pos{body, 0}, hdrTest, isInstr(del), nil)
		L.Check(skip == nil && body.Instrs[0] != nil, ruleID, "Cache.processItems#victims", "every victim is removed from the map by a loop without early exit, reached on both verdicts", "an iteration of the victims loop can skip storedItems.Del", del.Pos())
	})
}

// expIndexRule: map mutation <-> expiry index call pairing in lockedMap.Set/Update/Del.
// Shared by C13 and C14.
func expIndexRule(c *Ctx, ruleID string) {
	L, P := c.L, c.P
	lc := newLockCtx(P, "ristretto")
	for _, name := range []string{"Set", "Update", "Del"} {
		name := name
		c.Group(ruleID, "lockedMap."+name, func() {
			fn := P.Fn("ristretto", "lockedMap", name)
			L.Analysed(fname(fn))
			tb := lc.tb(fn)
			lks := lookupsOf(fn, tb, dataPat)
			if len(lks) != 1 {
				L.Undecided(ruleID, "lockedMap."+name, "expected one lookup of m.data", fn.Pos())
				return
			}
			entry := tb.T(lks[0]).String()
			oldExp := "fld[expiration](" + entry + ")"
			var key, conf, newExp string
			if name == "Del" {
				key = "p[1]"
			} else {
				key, conf, newExp = "fld[Key](p[1])", "fld[Conflict](p[1])", "fld[Expiration](p[1])"
			}
			em := "fld[em](p[0])"
			paths, ok := explore(fn, tb, ExploreOpts{Start: entryPos(fn)})
			if !ok {
				L.Undecided(ruleID, "lockedMap."+name, "too many paths", fn.Pos())
				return
			}
			good, nMut := true, 0
			for _, p := range paths {
				if _, isRet := p.End.(*ssa.Return); !isRet {
					continue
				}
				stores := p.Count(func(in ssa.Instruction) bool {
					mu, ok := in.(*ssa.MapUpdate)
					return ok && Match(dataPat, tb.T(mu.Map), nil)
				})
				deletes := p.Count(func(in ssa.Instruction) bool {
					cl, ok := in.(*ssa.Call)
					return ok && calleeName(&cl.Call) == "delete" && Match(dataPat, tb.T(cl.Call.Args[0]), nil)
				})
				nUpd, nAdd, nDel := 0, 0, 0
				if name == "Del" {
					nDel = countCalls(p, tb, "call[expirationMap.del]("+em+","+key+","+oldExp+")", nil)
				} else {
					nUpd = countCalls(p, tb, "call[expirationMap.update]("+em+","+key+","+conf+","+oldExp+","+newExp+")", nil)
					nAdd = countCalls(p, tb, "call[expirationMap.add]("+em+","+key+","+conf+","+newExp+")", nil)
				}
				nAny := countCalls(p, tb, "call[expirationMap.update]", nil) + countCalls(p, tb, "call[expirationMap.add]", nil) + countCalls(p, tb, "call[expirationMap.del]", nil)
				where := " (block path " + p.BlockPath() + ")"
				hit := p.CondHeld(tb, "ok("+entry+")", nil) == 1
				switch {
				case stores == 0 && deletes == 0:
					if nAny != 0 {
						good = false
						L.Fail(ruleID, "lockedMap."+name, "the expiry index is changed on a path that leaves the map entry unchanged"+where+": the key is unfiled (never swept) or filed under an expiration it does not have", fn.Pos())
					}
				case stores == 1 && name != "Del":
					nMut++
					if hit && !(nUpd == 1 && nAny == 1) {
						good = false
						L.Fail(ruleID, "lockedMap."+name, fmt.Sprintf("an overwrite is not accompanied by exactly one em.update(key, conflict, old.expiration, new.Expiration) (found %d matching, %d index calls)%s", nUpd, nAny, where), fn.Pos())
					}
					if !hit && !(nAdd == 1 && nAny == 1) {
						good = false
						L.Fail(ruleID, "lockedMap."+name, fmt.Sprintf("an insert is not accompanied by exactly one em.add(key, conflict, new.Expiration) (found %d matching, %d index calls)%s", nAdd, nAny, where), fn.Pos())
					}
				case deletes == 1 && name == "Del":
					nMut++
					zero := p.CondHeld(tb, "call[time.Time.IsZero]("+oldExp+")", nil)
					if zero == -1 && !(nDel == 1 && nAny == 1) || zero == 1 && nAny != 0 || zero == 0 && nAny != 0 && nDel != 1 {
						good = false
						L.Fail(ruleID, "lockedMap."+name, fmt.Sprintf("a delete of an entry with a TTL is not accompanied by exactly one em.del(key, old.expiration) (IsZero side %d, matching %d, index calls %d)%s", zero, nDel, nAny, where), fn.Pos())
					}
					if zero == 0 && nDel != 1 {
						good = false
						L.Fail(ruleID, "lockedMap."+name, "delete without em.del"+where, fn.Pos())
					}
				default:
					good = false
					L.Fail(ruleID, "lockedMap."+name, fmt.Sprintf("unexpected number of map mutations on a path (stores %d, deletes %d)%s", stores, deletes, where), fn.Pos())
				}
			}
			// all index calls under the shard write lock
			for _, ci := range allCalls(fn) {
				if strings.HasPrefix(calleeName(ci.Common()), "expirationMap.") && !lc.At(ci.(ssa.Instruction)).HasClass("lockedMap.RWMutex", "W") {
					good = false
					L.Fail(ruleID, "lockedMap."+name, "expiry index updated outside the shard write lock that protects the map mutation", ci.Pos())
				}
			}
			if nMut == 0 {
				L.Fail(ruleID, "lockedMap."+name, "no mutating path found", fn.Pos())
			} else if good {
				L.Ok(ruleID, "lockedMap."+name, fmt.Sprintf("%d mutating path(s), each with exactly the matching expiry-index call under the write lock; none on non-mutating paths", nMut), fn.Pos())
			}
		})
	}
}

// clearResetRule: Cache.Clear resets policy, map, expiry index and metrics together.
// Shared by C13 and C15.
func clearResetRule(c *Ctx, ruleID string) {
	L, P := c.L, c.P
	c.Group(ruleID, "Cache.Clear", func() {
		fn := P.Fn("ristretto", "Cache", "Clear")
		L.Analysed(fname(fn))
		tb := newTB(fn)
		var hs ssa.Instruction
		for _, r := range recvsIn(fn) {
			if Match("fld[done](p[0])", tb.T(r.Chan), nil) && r.Sel == nil {
				hs = r.In
			}
		}
		if hs == nil {
			L.Fail(ruleID, "Cache.Clear", "no stop/done handshake", fn.Pos())
			return
		}
		for _, g := range []struct{ pat, what string }{
			{"call[defaultPolicy.Clear](fld[cachePolicy](p[0]))", "cachePolicy.Clear()"},
			{"call[iface:store.Clear](fld[storedItems](p[0]),_)", "storedItems.Clear(...)"},
		} {
			goal := func(in ssa.Instruction) bool {
				cl, ok := in.(*ssa.Call)
				return ok && Match(g.pat, tb.T(cl), nil)
			}
			bad, path := mustPass(after(hs), goal, nil)
			L.Check(bad == nil, ruleID, "Cache.Clear#"+g.what, "on every path", "a path through Clear skips "+g.what+" (block path "+pathString(path)+")", instrPos(bad))
		}
		// Metrics.Clear on the Metrics != nil side
		nonNil := edgesWhere(fn, tb, "ne(fld[Metrics](p[0]),c[nil])", nil, true)
		okM := len(nonNil) > 0
		for e := range nonNil {
			tgt := e.From.Succs[e.Succ]
			goal := func(in ssa.Instruction) bool {
				cl, ok := in.(*ssa.Call)
				return ok && calleeName(&cl.Call) == "Metrics.Clear"
			}
			if b, _ := mustPass(Pos{tgt, 0}, goal, nil); b != nil {
				okM = false
			}
		}
		// the Metrics test itself is on every path
		isTest := func(in ssa.Instruction) bool {
			iff, ok := in.(*ssa.If)
			return ok && condPolarity(tb.T(iff.Cond), "ne(fld[Metrics](p[0]),c[nil])", nil) != 0
		}
		if b, _ := mustPass(after(hs), isTest, nil); b != nil {
			okM = false
		}
		L.Check(okM, ruleID, "Cache.Clear#Metrics.Clear", "metrics reset whenever metrics are enabled", "Clear does not reset the metrics on every path where c.Metrics != nil", fn.Pos())
	})
	c.Group(ruleID, "defaultPolicy.Clear", func() {
		fn := P.Fn("ristretto", "defaultPolicy", "Clear")
		L.Analysed(fname(fn))
		lc := newLockCtx(P, "ristretto")
		tb := lc.tb(fn)
		for _, g := range []struct{ callee, recv string }{{"tinyLFU.clear", "fld[admit](p[0])"}, {"sampledLFU.clear", "fld[evict](p[0])"}} {
			var call ssa.Instruction
			for _, ci := range callsTo(fn, g.callee) {
				if tb.T(ci.Common().Args[0]).String() == g.recv {
					call = ci.(ssa.Instruction)
				}
			}
			if call == nil {
				L.Fail(ruleID, "defaultPolicy.Clear#"+g.callee, "policy.Clear does not call "+g.callee+"() on its own "+g.recv+": after Clear the cache does not behave like a fresh one", fn.Pos())
				continue
			}
			bad, _ := mustPass(entryPos(fn), isInstr(call), nil)
			held := lc.At(call).HasClass("defaultPolicy.Mutex", "W")
			L.Check(bad == nil && held, ruleID, "defaultPolicy.Clear#"+g.callee, "called on every path under the policy lock", "not called on every path under the policy lock", call.Pos())
		}
	})
	c.Group(ruleID, "tinyLFU.clear", func() {
		fn := P.Fn("ristretto", "tinyLFU", "clear")
		tb := newTB(fn)
		okI := false
		for _, st := range fieldStoresIn(fn, "tinyLFU", "incrs") {
			if isConst(st.Val, "0") {
				okI = true
			}
		}
		okD := len(callsTo(fn, "z.Bloom.Clear")) == 1
		okF := false
		for _, ci := range callsTo(fn, "cmSketch.Clear") {
			if tb.T(ci.Common().Args[0]).String() == "fld[freq](p[0])" {
				okF = true
			}
		}
		// ... each of the three on every path: incrs says nothing about the counters (an aging reset
		// zeroes incrs and keeps the halved counts), so "nothing recorded since" is no reason to skip
		uncond := true
		if okI && okD && okF {
			var steps [][]ssa.Instruction
			var sts []ssa.Instruction
			for _, st := range fieldStoresIn(fn, "tinyLFU", "incrs") {
				if isConst(st.Val, "0") {
					sts = append(sts, st)
				}
			}
			steps = append(steps, sts)
			var ds, fs []ssa.Instruction
			for _, ci := range callsTo(fn, "z.Bloom.Clear") {
				ds = append(ds, ci)
			}
			for _, ci := range callsTo(fn, "cmSketch.Clear") {
				fs = append(fs, ci)
			}
			steps = append(steps, ds, fs)
			for _, st := range steps {
				if b, _ := mustPass(entryPos(fn), isAnyInstr(st), nil); b != nil {
					uncond = false
				}
			}
		}
		L.Check(okI && okD && okF && uncond, ruleID, "tinyLFU.clear", "incrs = 0, door.Clear(), freq.Clear(), each on every path", fmt.Sprintf("tinyLFU.clear is incomplete (incrs=0:%v door.Clear:%v freq.Clear:%v unconditional:%v): after Clear old frequency counts survive", okI, okD, okF, uncond), fn.Pos())
	})
	c.Group(ruleID, "shardedMap.Clear", func() {
		fn := P.Fn("ristretto", "shardedMap", "Clear")
		tb := newTB(fn)
		var call ssa.Instruction
		for _, ci := range callsTo(fn, "expirationMap.clear") {
			if tb.T(ci.Common().Args[0]).String() == "fld[expiryMap](p[0])" {
				call = ci.(ssa.Instruction)
			}
		}
		if call == nil {
			L.Fail(ruleID, "shardedMap.Clear#expiry", "the expiry index is not cleared together with the shards: stale bucket entries would evict future keys", fn.Pos())
			return
		}
		bad, _ := mustPass(entryPos(fn), isInstr(call), nil)
		shards := len(callsTo(fn, "lockedMap.Clear")) == 1
		L.Check(bad == nil && shards, ruleID, "shardedMap.Clear#expiry", "all shards, then expiryMap.clear() on every path", "expiryMap.clear() is not on every path", call.Pos())
	})
	c.Group(ruleID, "expirationMap.clear", func() {
		fn := P.Fn("ristretto", "expirationMap", "clear")
		lc := newLockCtx(P, "ristretto")
		tb := lc.tb(fn)
		ok := false
		for _, st := range fieldStoresIn(fn, "expirationMap", "buckets") {
			if strings.HasPrefix(tb.T(st.Val).String(), "make[map") && lc.At(st).HasClass("expirationMap.RWMutex", "W") {
				ok = true
			}
		}
		L.Check(ok, ruleID, "expirationMap.clear", "buckets replaced by a fresh map under the lock", "buckets are not replaced by a fresh map under the lock", fn.Pos())
	})
}

// clearResetParts evaluates clearResetRule and keeps the obligations of the named parts only
// (cache: Clear calls policy.Clear and store.Clear after the handshake; metrics; evict: the cost
// accounting is cleared; admit: sketch and doorkeeper are cleared; expiry: the expiry index is
// cleared with the shards). Each property takes the parts that are necessary conditions of it.
func clearResetParts(c *Ctx, ruleID string, parts ...string) {
	want := map[string]bool{}
	for _, p := range parts {
		want[p] = true
	}
	partOf := func(construct string) string {
		switch {
		case construct == "Cache.Clear#Metrics.Clear":
			return "metrics"
		case strings.HasPrefix(construct, "Cache.Clear#"):
			return "cache"
		case construct == "defaultPolicy.Clear#sampledLFU.clear":
			return "evict"
		case construct == "defaultPolicy.Clear#tinyLFU.clear" || construct == "tinyLFU.clear":
			return "admit"
		case construct == "shardedMap.Clear#expiry" || construct == "expirationMap.clear":
			return "expiry"
		}
		return "" // shape problems (no handshake, …) concern every part
	}
	sub := &Ctx{L: newLedger(c.L.Prop), P: c.P, Tier: c.Tier}
	sub.L.P = c.P
	clearResetRule(sub, ruleID)
	for _, o := range sub.L.Obls {
		if pt := partOf(o.Construct); pt == "" || want[pt] {
			c.L.add(o)
		}
	}
	for f := range sub.L.funcs {
		c.L.Analysed(f)
	}
}

// sweepCursorRule: every value written to expirationMap.lastCleanedBucketNum (constructor, clear,
// cleanup) is a bucket number of the current time - cleanupBucket(time.Now()) or storageBucket(time.Now()).
// The sweep takes the buckets (cursor, cleanupBucket(now)] and add/update never file behind the cursor
// (R-C14-FRONTIER, finding F6), so a cursor at or one ahead of the sweep's upper bound only delays a
// key by one bucket; a cursor that is not a function of the current time (a constant, a stale value,
// a time in the future) postpones or forgets the reclamation of everything filed meanwhile. Before the
// F6 repair the rule demanded cleanupBucket exactly (a cursor one ahead skipped a bucket for good);
// with the filing clamp in place that variant no longer breaks the property and is accepted.
func sweepCursorRule(c *Ctx, ruleID string) {
	L, P := c.L, c.P
	c.Group(ruleID, "expirationMap.lastCleanedBucketNum", func() {
		n := 0
		for _, fn := range P.SrcFuncs {
			if fn.Pkg != P.Pkgs["ristretto"] {
				continue
			}
			sts := fieldStoresIn(fn, "expirationMap", "lastCleanedBucketNum")
			if len(sts) == 0 {
				continue
			}
			tb := newTB(fn)
			for _, st := range sts {
				n++
				vt := tb.T(st.Val)
				if !Match("call[cleanupBucket](call[time.Now])", vt, nil) && !Match("call[storageBucket](call[time.Now])", vt, nil) {
					L.Fail(ruleID, "cursor@"+fname(fn), "the sweep cursor is set to "+vt.String()+", not to the bucket number of the current time (cleanupBucket(time.Now()) / storageBucket(time.Now())): everything filed until the sweep reaches that cursor again is reclaimed late or never", st.Pos())
				}
			}
		}
		L.Check(n >= 3, ruleID, "expirationMap.lastCleanedBucketNum", fmt.Sprintf("%d writer(s), each the bucket number of time.Now()", n), fmt.Sprintf("only %d writer(s) of the sweep cursor found (constructor, clear, cleanup expected)", n), 0)
	})
}

func runC13(c *Ctx) {
	L, P := c.L, c.P
	L.Rule("R-C13-PAIRDEL", "policy removal is always paired with map removal of the same key (tombstone, sweep, victims, Del's tombstone)", 6)
	L.Rule("R-C13-PAIRADD", "store.Set only on the admitted side of policy.Add for the same item; no other caller; accounting entries created only by defaultPolicy.Add", 3)
	L.Rule("R-C13-ARMS", "applier: itemNew → policy.Add, itemUpdate → policy.Update, itemDelete → policy.Del, each on its own arm only", 3)
	L.Rule("R-C13-ACCOUNT", "used == sum(keyCosts) preserved by every writer (shared with C03)", 4)
	L.Rule("R-C13-EXPINDEX", "map mutation and expiry-index call paired on every path under the write lock; the index files/unfiles the key in the bucket of the given expiration, old bucket first; sweep-cursor writers agree", 7)
	L.Rule("R-C13-CLEAR", "Cache.Clear empties the cost accounting (policy.Clear → evict.clear) and the map (store.Clear) together, after the applier was stopped", 3)
	L.Rule("R-C13-ITER", "IterValues: all shards, each entry at most once, stop propagates out of both loops", 3)

	tombstoneRule(c, "R-C13-PAIRDEL")
	victimsLoopRule(c, "R-C13-PAIRDEL")
	delTombstoneRule(c, "R-C13-PAIRDEL")
	sweepOnceRule(c, "R-C13-PAIRDEL")

	c.Group("R-C13-PAIRADD", "store.Set callers", func() {
		n := 0
		for _, fn := range P.SrcFuncs {
			if fn.Pkg != P.Pkgs["ristretto"] {
				continue
			}
			for _, ci := range allCalls(fn) {
				switch calleeName(ci.Common()) {
				case "iface:store.Set", "shardedMap.Set":
					n++
					if fname(fn) != "Cache.processItems" {
						L.Fail("R-C13-PAIRADD", "store.Set@"+fname(fn), "store.Set is called outside the applier: an entry would enter the map without the policy charging for it", ci.Pos())
					}
				case "lockedMap.Set":
					if fname(fn) != "shardedMap.Set" {
						L.Fail("R-C13-PAIRADD", "lockedMap.Set@"+fname(fn), "lockedMap.Set is called directly", ci.Pos())
					}
				}
			}
		}
		L.Check(n == 1, "R-C13-PAIRADD", "store.Set callers", "one caller: the applier", fmt.Sprintf("%d callers of store.Set", n), 0)
	})
	c.Group("R-C13-PAIRADD", "Cache.processItems#Set", func() {
		fn := P.Fn("ristretto", "Cache", "processItems")
		tb := newTB(fn)
		sel, _, I := applierSelect(fn, tb)
		adds := callsTo(fn, "defaultPolicy.Add")
		sets := callsTo(fn, "iface:store.Set")
		if sel == nil || len(adds) != 1 || len(sets) != 1 {
			L.Undecided("R-C13-PAIRADD", "Cache.processItems#Set", "applier shape not recognised", fn.Pos())
			return
		}
		add := adds[0].(*ssa.Call)
		okArgs := tb.T(add.Call.Args[1]).String() == "fld[Key]("+I+")" && tb.T(sets[0].Common().Args[0]).String() == I
		admitted := edgesWhere(fn, tb, "ext[1]("+tb.T(add).String()+")", nil, true)
		bad, path := reach(after(sel), isInstr(sets[0].(ssa.Instruction)), isInstr(sel), cutSet(admitted))
		L.Check(okArgs && bad == nil && len(admitted) > 0, "R-C13-PAIRADD", "Cache.processItems#Set", "store.Set(i) only after cachePolicy.Add(i.Key, …) admitted the same i",
			"store.Set(i) is reachable without the policy having admitted i.Key (block path "+pathString(path)+"): the entry would be resident but not charged", sets[0].Pos())
	})

	addersRule(c, "R-C13-PAIRADD")
	applierArmsRule(c, "R-C13-ARMS")
	accountingInvRule(c, "R-C13-ACCOUNT")
	evictClearRule(c, "R-C13-CLEAR")
	refusalsRule(c, "R-C13-PAIRADD", "Set") // store.Set refusing an admitted item for an undocumented reason leaves a charged key with no map entry
	expIndexRule(c, "R-C13-EXPINDEX")
	bucketIndexRule(c, "R-C13-EXPINDEX")
	clearResetParts(c, "R-C13-CLEAR", "cache", "evict")
	// "expired-and-swept": an expired key the sweep can never reach keeps its capacity for good
	sweepCursorRule(c, "R-C13-EXPINDEX")
	// a victim the policy forgot but never reported stays in the map uncharged: arg-min/victim/reject pairing inside Add (C09's rules)
	importRules(c, runC09, map[string]string{"R-C09-VICTIM": "R-C13-PAIRDEL", "R-C09-REJECT": "R-C13-PAIRDEL", "R-C09-ARGMIN": "R-C13-PAIRDEL"})

	// ---- R-C13-ITER
	c.Group("R-C13-ITER", "shardedMap.IterValues", func() {
		outer := P.Fn("ristretto", "shardedMap", "IterValues")
		L.Analysed(fname(outer))
		// the function that ranges over shard.data: the per-shard closure, or IterValues itself if inlined
		var inner *ssa.Function
		var next *ssa.Next
		for _, f := range append([]*ssa.Function{outer}, outer.AnonFuncs...) {
			t := newTB(f)
			eachInstr(f, func(in ssa.Instruction) {
				if n, ok := in.(*ssa.Next); ok && Match("next(range(fld[data](_)))", t.T(n), nil) {
					inner, next = f, n
				}
			})
		}
		if inner == nil {
			L.Fail("R-C13-ITER", "shardedMap.IterValues#entries", "IterValues does not range over shard.data", outer.Pos())
			return
		}
		tbi := newTB(inner)
		entry := "ext[2](" + tbi.T(next).String() + ")"
		isCb := func(in ssa.Instruction) bool {
			cl, ok := in.(*ssa.Call)
			return ok && calleeName(&cl.Call) == "dyn" && strings.Contains(tbi.T(cl).String(), "fld[value]("+entry+")")
		}
		paths, _ := explore(inner, tbi, ExploreOpts{Start: after(next), StopAt: isInstr(next)})
		good, n := true, 0
		stopOK := true
		for _, p := range paths {
			if p.CondHeld(tbi, "ext[0]("+tbi.T(next).String()+")", nil) != 1 {
				continue
			}
			n++
			var cbs []*ssa.Call
			for _, s := range p.Steps {
				if isCb(s.In) {
					cbs = append(cbs, s.In.(*ssa.Call))
				}
			}
			if len(cbs) > 1 {
				good = false
				L.Fail("R-C13-ITER", "shardedMap.IterValues#entries", "an entry is passed to the callback more than once per iteration", next.Pos())
			}
			if len(cbs) == 0 && p.End != ssa.Instruction(next) {
				good = false
				L.Fail("R-C13-ITER", "shardedMap.IterValues#entries", "an entry that is skipped (not yielded, e.g. expired) ends the enumeration of its shard instead of moving on to the next entry (block path "+p.BlockPath()+"): live entries behind it are never visited", next.Pos())
			}
			if len(cbs) == 1 {
				switch p.CondHeld(tbi, tbi.T(cbs[0]).String(), nil) {
				case 1: // asked to stop: this shard's loop must end here
					if p.End == ssa.Instruction(next) {
						stopOK = false
					}
				case -1:
					if p.End != ssa.Instruction(next) {
						stopOK = false
					}
				default:
					stopOK = false
				}
			}
		}
		if n > 0 && good {
			L.Ok("R-C13-ITER", "shardedMap.IterValues#entries", "each ranged entry is yielded at most once", next.Pos())
		}
		L.Check(stopOK && n > 0, "R-C13-ITER", "shardedMap.IterValues#stop-inner", "the callback's result is tested; true ends the shard's loop", "the callback's stop result is ignored or does not end the shard's loop", next.Pos())
		tbo := newTB(outer)
		allShards := false
		for _, b := range outer.Blocks {
			if iff := lastIf(b); iff != nil && condPolarity(tbo.T(iff.Cond), "lt(_,call[len](fld[shards](p[0])))", nil) != 0 {
				allShards = true
			}
		}
		okOuter := false
		if inner != outer {
			var call *ssa.Call
			eachInstr(outer, func(in ssa.Instruction) {
				if cl, ok := in.(*ssa.Call); ok {
					if mc, ok := cl.Call.Value.(*ssa.MakeClosure); ok && mc.Fn == inner {
						call = cl
					}
				}
			})
			if call != nil {
				stopped := edgesWhere(outer, tbo, tbo.T(call).String(), nil, true)
				okOuter = len(stopped) > 0
				for e := range stopped {
					tgt := e.From.Succs[e.Succ]
					if again, _ := reach(Pos{tgt, 0}, isInstr(call), nil, nil); again != nil {
						okOuter = false
					}
				}
				// the closure reports the stop request: returns true exactly on the callback's true edge
				for _, r := range returnsOf(inner) {
					if tbi.T(returnValues(r)[0]).String() == "c[true]" {
						viaStop := false
						for _, b := range inner.Blocks {
							if iff := lastIf(b); iff != nil {
								if cl, ok := iff.Cond.(*ssa.Call); ok && isCb(cl) {
									if x, _ := reach(Pos{b.Succs[1], 0}, isInstr(r), isInstr(next), nil); x == nil {
										viaStop = true
									}
								}
							}
						}
						if !viaStop {
							okOuter = false
						}
					}
				}
			}
		} else {
			// inlined: after a true result no further callback may run
			okOuter = true
			found := false
			for _, b := range outer.Blocks {
				if iff := lastIf(b); iff != nil {
					if cl, ok := iff.Cond.(*ssa.Call); ok && isCb(cl) {
						found = true
						if again, _ := reach(Pos{b.Succs[0], 0}, isCb, nil, nil); again != nil {
							okOuter = false
						}
					}
				}
			}
			okOuter = okOuter && found
		}
		L.Check(okOuter && allShards, "R-C13-ITER", "shardedMap.IterValues#shards", "ranges over all shards; a stop request ends the whole enumeration", "the shard loop does not cover all shards or continues after the callback asked to stop", outer.Pos())
	})
}

// applierArmsRule: in the applier each item flag drives exactly its own policy operation:
// itemNew → cachePolicy.Add, itemUpdate → cachePolicy.Update, itemDelete → cachePolicy.Del.
// (Add on the update arm re-admits a key the sweep or an eviction removed in the meantime.)
// Shared by C13, C14, C03 and C17.
func applierArmsRule(c *Ctx, ruleID string) {
	L, P := c.L, c.P
	c.Group(ruleID, "Cache.processItems#arms", func() {
		fn := P.Fn("ristretto", "Cache", "processItems")
		L.Analysed(fname(fn))
		tb := newTB(fn)
		sel, _, I := applierSelect(fn, tb)
		if sel == nil {
			L.Undecided(ruleID, "Cache.processItems#arms", "applier select not found", fn.Pos())
			return
		}
		for _, arm := range []struct{ flag, callee string }{{"itemNew", "defaultPolicy.Add"}, {"itemUpdate", "defaultPolicy.Update"}, {"itemDelete", "defaultPolicy.Del"}} {
			k := P.Const("ristretto", arm.flag).Value.Value.ExactString()
			edges := edgesWhere(fn, tb, "eq(fld[flag]("+I+"),c["+k+"])", nil, true)
			calls := callsTo(fn, arm.callee)
			cons := "Cache.processItems#" + arm.flag
			if len(calls) != 1 || len(edges) == 0 {
				L.Fail(ruleID, cons, fmt.Sprintf("expected exactly one %s call behind the %s arm, found %d call(s) / %d arm edge(s)", arm.callee, arm.flag, len(calls), len(edges)), fn.Pos())
				continue
			}
			call := calls[0].(ssa.Instruction)
			if tb.T(calls[0].Common().Args[1]).String() != "fld[Key]("+I+")" {
				L.Fail(ruleID, cons, arm.callee+" is applied to "+tb.T(calls[0].Common().Args[1]).String()+", not to the received item's key", call.Pos())
				continue
			}
			bad, path := reach(after(sel), isInstr(call), isInstr(sel), cutSet(edges))
			if bad != nil {
				L.Fail(ruleID, cons, arm.callee+" is reachable without the received item's flag being "+arm.flag+" (block path "+pathString(path)+")", call.Pos())
				continue
			}
			// and the arm does reach it on every path (before the next receive)
			okAll := true
			nArm := 0
			for e := range edges {
				tgt := e.From.Succs[e.Succ]
				if tgt != call.Block() && !tgt.Dominates(call.Block()) {
					continue
				}
				// the arm is the flag test from which the call is reached without any further test of the flag
				// (earlier tests of the same flag, like the Config.Cost guard, are not the arm)
				isFlagIf := func(in ssa.Instruction) bool {
					iff, isIf := in.(*ssa.If)
					return isIf && strings.Contains(tb.T(iff.Cond).String(), "fld[flag]("+I+")")
				}
				if r, _ := reach(Pos{tgt, 0}, isInstr(call), isFlagIf, nil); r == nil {
					continue
				}
				nArm++
				if r, _ := reach(Pos{tgt, 0}, func(in ssa.Instruction) bool { return in == ssa.Instruction(sel) || isReturn(in) }, isInstr(call), nil); r != nil {
					okAll = false
				}
			}
			if nArm == 0 {
				okAll = false
			}
			L.Check(okAll, ruleID, cons, "the "+arm.flag+" arm performs "+arm.callee+"(i.Key, …) on every path, and only that arm does", "the "+arm.flag+" arm can skip "+arm.callee, call.Pos())
		}
	})
}

// addersRule: an accounting entry is created only by the admission path (defaultPolicy.Add), which
// the applier pairs with store.Set. Any other caller of sampledLFU.add charges for a key the map does
// not hold. Shared by C13 and C03.
func addersRule(c *Ctx, ruleID string) {
	L, P := c.L, c.P
	c.Group(ruleID, "callers of sampledLFU.add", func() {
		n := 0
		for _, fn := range P.SrcFuncs {
			if fn.Pkg != P.Pkgs["ristretto"] {
				continue
			}
			for _, ci := range callsTo(fn, "sampledLFU.add") {
				n++
				if fname(fn) != "defaultPolicy.Add" {
					L.Fail(ruleID, "adder:"+fname(fn), "creates an accounting entry (sampledLFU.add) outside the admission path defaultPolicy.Add: the key is charged for although no map entry is filed with it (an update/delete arriving after an eviction re-creates the charge)", ci.Pos())
				}
			}
		}
		L.Check(n >= 1, ruleID, "callers of sampledLFU.add", fmt.Sprintf("%d call(s), all in defaultPolicy.Add", n), "no call of sampledLFU.add found", 0)
	})
}
