package main

import (
	"fmt"
	"sort"
	"strings"

	"golang.org/x/tools/go/ssa"
)

func init() {
	register(&PropCheck{
		ID: "C15",
		Explanation: "Decides the structural conditions of 'Close and Clear leave a consistent cache': " +
			"(R-C15-GUARD) in every exported method of *Cache each dereference of c lies behind `c != nil`, and (except the frozen read-only list GetTTL, MaxCost, UpdateMaxCost, RemainingCost) every channel operation, close, go statement and call lies behind `!c.isClosed.Load()` as well, the guarded side returning the inert result; " +
			"(R-C15-CLOSESEQ) Close passes, each step dominating the next and all on every path past the guard: Clear(); stop<-; <-done; close(stop); close(done); close(setBuf); cachePolicy.Close(); cleanupTicker.Stop(); isClosed.Store(true); policy.Close is idempotent through its own flag and handshake; " +
			"(R-C15-CLEARSEQ) Clear: handshake, drain (markers closed, updates skipped, other items released once), store.Clear on every path, policy/map/expiry-index/metrics reset, applier restarted exactly once and last; " +
			"(R-C15-GOROUTINES) the package has exactly three go statements (NewCache, newDefaultPolicy, Clear); both goroutine bodies have a stop arm that answers and returns; Close stops both. " +
			"NOT decided: the number of live goroutines at run time; behaviour of calls racing with Close.",
		Run: runC15,
	})
}

func runC15(c *Ctx) {
	L, P := c.L, c.P
	L.Rule("R-C15-GUARD", "exported *Cache methods: nil guard before any dereference; closed guard before any channel op / go / call (frozen read-only exceptions); inert result on the guarded side", 14)
	L.Rule("R-C15-CLOSESEQ", "Close = Clear → stop/done handshake → close(stop,done,setBuf) → policy.Close → ticker.Stop → isClosed.Store(true), in dominance order on every path", 3)
	L.Rule("R-C15-CLEARSEQ", "Clear = handshake → drain → store.Clear/policy.Clear/metrics reset → restart applier once, last; every entry of every shard is released through onEvict; all metric cells and all doorkeeper words are zeroed", 13)
	L.Rule("R-C15-GOROUTINES", "exactly three go statements; each body has a stop arm; Close stops both", 4)

	nilOnly := map[string]string{
		"GetTTL":        "no channel; structures stay valid after Close (Get inside is guarded by the store being cleared)",
		"MaxCost":       "atomic read",
		"UpdateMaxCost": "atomic write",
		"RemainingCost": "read under the policy lock",
	}
	ct := P.Named("ristretto", "Cache")
	for i := 0; i < ct.NumMethods(); i++ {
		m := ct.Method(i)
		if !m.Exported() {
			continue
		}
		fn := P.SSA.FuncValue(m)
		name := m.Name()
		c.Group("R-C15-GUARD", "Cache."+name, func() {
			L.Analysed(fname(fn))
			tb := newTB(fn)
			notNil := edgesWhere(fn, tb, "eq(p[0],c[nil])", nil, false)
			open := edgesWhere(fn, tb, "call[atomic.Bool.Load](addr(fld[isClosed](p[0])))", nil, false)
			derefs := func(in ssa.Instruction) bool {
				fa, ok := in.(*ssa.FieldAddr)
				return ok && fa.X == ssa.Value(fn.Params[0])
			}
			bad, _ := reach(entryPos(fn), derefs, nil, cutSet(notNil))
			if bad != nil || len(notNil) == 0 {
				// methods that only forward (Set -> SetWithTTL) have no dereference at all
				hasDeref := false
				eachInstr(fn, func(in ssa.Instruction) {
					if derefs(in) {
						hasDeref = true
					}
				})
				if hasDeref {
					L.Fail("R-C15-GUARD", "Cache."+name+"#nil", "dereferences c without a preceding `c == nil` guard (a nil *Cache must be inert)", instrPos(bad))
					return
				}
				forwards := false
				for _, ci := range allCalls(fn) {
					if sc := staticCallee(ci.Common()); sc != nil && recvName(sc.Signature.Recv().Type()) == "Cache" && ci.Common().Args[0] == ssa.Value(fn.Params[0]) {
						forwards = true
					}
				}
				L.Check(forwards, "R-C15-GUARD", "Cache."+name+"#nil", "forwards to a guarded method without touching c", "neither guards nor forwards", fn.Pos())
				return
			}
			L.Ok("R-C15-GUARD", "Cache."+name+"#nil", "every dereference of c is behind c != nil", fn.Pos())
			sensitive := func(in ssa.Instruction) bool {
				switch x := in.(type) {
				case *ssa.Send, *ssa.Select, *ssa.Go:
					return true
				case *ssa.UnOp:
					return x.Op.String() == "<-"
				case *ssa.Call:
					n := calleeName(&x.Call)
					if n == "atomic.Bool.Load" || n == "zeroValue" {
						return false
					}
					return true
				}
				return false
			}
			if reason, ok := nilOnly[name]; ok {
				// frozen exception: must not contain channel operations at all
				chanOp := false
				eachInstr(fn, func(in ssa.Instruction) {
					switch x := in.(type) {
					case *ssa.Send, *ssa.Select, *ssa.Go:
						chanOp = true
					case *ssa.UnOp:
						if x.Op.String() == "<-" {
							chanOp = true
						}
					case *ssa.Call:
						if calleeName(&x.Call) == "close" {
							chanOp = true
						}
					}
				})
				L.Check(!chanOp, "R-C15-GUARD", "Cache."+name+"#closed", "read-only exception ("+reason+"): no channel operation", "a method on the nil-only list performs a channel operation: after Close it would hit a closed channel", fn.Pos())
				return
			}
			if len(open) == 0 {
				hasSensitive := false
				eachInstr(fn, func(in ssa.Instruction) {
					if sensitive(in) {
						if cl, ok := in.(*ssa.Call); ok {
							if sc := staticCallee(&cl.Call); sc != nil && sc.Signature.Recv() != nil && recvName(sc.Signature.Recv().Type()) == "Cache" {
								return // forwarding to a guarded method
							}
						}
						hasSensitive = true
					}
				})
				L.Check(!hasSensitive, "R-C15-GUARD", "Cache."+name+"#closed", "no guarded operation (pure forwarder)", "performs channel operations / calls without testing c.isClosed: after Close it would send on a closed channel or touch torn-down state", fn.Pos())
				return
			}
			bad2, path := reach(entryPos(fn), sensitive, nil, cutSet(open))
			if bad2 != nil {
				L.Fail("R-C15-GUARD", "Cache."+name+"#closed", "a channel operation / go / call is reachable without passing `!c.isClosed.Load()` (block path "+pathString(path)+")", instrPos(bad2))
				return
			}
			// inert result on the guarded side
			inert := true
			for _, r := range returnsOf(fn) {
				if b, _ := reach(entryPos(fn), isInstr(r), nil, cutSet(open)); b == nil {
					continue // only reachable when open
				}
				// reachable when closed/nil: results must be inert — but the same return may also serve the open side
				if b, _ := reach(entryPos(fn), isInstr(r), sensitive, nil); b == nil {
					continue
				}
				for _, v := range returnValues(r) {
					t := tb.T(v).String()
					if t != "c[false]" && t != "c[0]" && t != "call[zeroValue]" && t != "c[nil]" && t != "c[zero]" {
						inert = false
					}
				}
			}
			L.Check(inert, "R-C15-GUARD", "Cache."+name+"#closed", "all channel operations, go statements and calls behind the closed guard; the guarded side returns the inert result", "the guarded side does not return the inert result", fn.Pos())
		})
	}

	// ---- R-C15-CLOSESEQ
	c.Group("R-C15-CLOSESEQ", "Cache.Close", func() {
		fn := P.Fn("ristretto", "Cache", "Close")
		L.Analysed(fname(fn))
		tb := newTB(fn)
		find := func(pred func(ssa.Instruction) bool) ssa.Instruction {
			var out ssa.Instruction
			eachInstr(fn, func(in ssa.Instruction) {
				if out == nil && pred(in) {
					out = in
				}
			})
			return out
		}
		callNamed := func(pat string) func(ssa.Instruction) bool {
			return func(in ssa.Instruction) bool {
				cl, ok := in.(*ssa.Call)
				return ok && Match(pat, tb.T(cl), nil)
			}
		}
		steps := []struct {
			name string
			pred func(ssa.Instruction) bool
		}{
			{"Clear()", callNamed("call[Cache.Clear](p[0])")},
			{"stop <-", func(in ssa.Instruction) bool {
				s, ok := in.(*ssa.Send)
				return ok && Match("fld[stop](p[0])", tb.T(s.Chan), nil)
			}},
			{"<-done", func(in ssa.Instruction) bool {
				u, ok := in.(*ssa.UnOp)
				return ok && u.Op.String() == "<-" && Match("fld[done](p[0])", tb.T(u.X), nil)
			}},
			{"close(stop)", callNamed("call[close](fld[stop](p[0]))")},
			{"close(done)", callNamed("call[close](fld[done](p[0]))")},
			{"close(setBuf)", callNamed("call[close](fld[setBuf](p[0]))")},
			{"cachePolicy.Close()", callNamed("call[defaultPolicy.Close](fld[cachePolicy](p[0]))")},
			{"cleanupTicker.Stop()", callNamed("call[time.Ticker.Stop](fld[cleanupTicker](p[0]))")},
			{"isClosed.Store(true)", callNamed("call[atomic.Bool.Store](addr(fld[isClosed](p[0])),c[true])")},
		}
		var ins []ssa.Instruction
		for _, s := range steps {
			in := find(s.pred)
			if in == nil {
				L.Fail("R-C15-CLOSESEQ", "Cache.Close#"+s.name, "Close does not perform "+s.name, fn.Pos())
				return
			}
			ins = append(ins, in)
		}
		// order constraints that matter: Clear first; handshake before any close; closes before flag
		order := [][2]int{{0, 1}, {1, 2}, {2, 3}, {2, 4}, {2, 5}, {2, 6}, {0, 7}, {5, 8}, {6, 8}}
		okOrder := true
		for _, o := range order {
			if !instrDominates(ins[o[0]], ins[o[1]]) {
				okOrder = false
				L.Fail("R-C15-CLOSESEQ", "Cache.Close#order", steps[o[0]].name+" does not precede "+steps[o[1]].name+" on every path", ins[o[1]].Pos())
			}
		}
		okAll := true
		for i := 1; i < len(ins); i++ {
			if b, _ := mustPass(after(ins[0]), isInstr(ins[i]), nil); b != nil {
				okAll = false
				L.Fail("R-C15-CLOSESEQ", "Cache.Close#all", "a path through Close skips "+steps[i].name, instrPos(b))
			}
		}
		if okOrder && okAll {
			L.Ok("R-C15-CLOSESEQ", "Cache.Close#order", "Clear → handshake → close channels → policy.Close → ticker.Stop → isClosed.Store(true)", ins[0].Pos())
		}
	})
	closeDrainsRule(c, "R-C15-CLOSESEQ")
	// "Close returns, the background goroutines have stopped": neither stop handshake is performed with a
	// mutex held that the goroutine being stopped may be waiting for (shared with C08)
	importRules(c, runC08, map[string]string{"R-C08-NOBLOCK": "R-C15-CLOSESEQ"})
	c.Group("R-C15-CLOSESEQ", "defaultPolicy.Close", func() {
		fn := P.Fn("ristretto", "defaultPolicy", "Close")
		L.Analysed(fname(fn))
		tb := newTB(fn)
		open := edgesWhere(fn, tb, "fld[isClosed](p[0])", nil, false)
		ops := func(in ssa.Instruction) bool {
			switch x := in.(type) {
			case *ssa.Send:
				return true
			case *ssa.Call:
				return calleeName(&x.Call) == "close"
			}
			return false
		}
		bad, _ := reach(entryPos(fn), ops, nil, cutSet(open))
		setsFlag := false
		for _, st := range fieldStoresIn(fn, "defaultPolicy", "isClosed") {
			if isConst(st.Val, "true") {
				if b, _ := mustPass(entryPos(fn), func(in ssa.Instruction) bool { return in == ssa.Instruction(st) }, cutSet(edgesWhere(fn, tb, "fld[isClosed](p[0])", nil, true))); b == nil {
					setsFlag = true
				}
			}
		}
		nClose := len(builtinCalls(fn, "close"))
		L.Check(bad == nil && len(open) > 0 && setsFlag && nClose == 3, "R-C15-CLOSESEQ", "defaultPolicy.Close", "idempotent: guarded by isClosed, closes its three channels once, sets the flag",
			fmt.Sprintf("policy.Close is not idempotent/complete (guarded:%v flag set:%v channels closed:%d): a second Close panics on closed channels", bad == nil && len(open) > 0, setsFlag, nClose), fn.Pos())
	})
	c.Group("R-C15-CLOSESEQ", "defaultPolicy.Push", func() {
		fn := P.Fn("ristretto", "defaultPolicy", "Push")
		tb := newTB(fn)
		open := edgesWhere(fn, tb, "fld[isClosed](p[0])", nil, false)
		sends := func(in ssa.Instruction) bool {
			_, isSel := in.(*ssa.Select)
			_, isSend := in.(*ssa.Send)
			return isSel || isSend
		}
		bad, _ := reach(entryPos(fn), sends, nil, cutSet(open))
		L.Check(bad == nil && len(open) > 0, "R-C15-CLOSESEQ", "defaultPolicy.Push", "no send on itemsCh once the policy is closed", "Push can send on itemsCh after policy.Close closed it (a Get after Close would panic)", fn.Pos())
	})

	// ---- R-C15-CLEARSEQ
	clearDrainRule(c, "R-C15-CLEARSEQ")
	lockedMapClearRule(c, "R-C15-CLEARSEQ")
	clearResetParts(c, "R-C15-CLEARSEQ", "cache", "metrics", "evict", "admit", "expiry")
	sweepCursorRule(c, "R-C15-CLEARSEQ")
	evictClearRule(c, "R-C15-CLEARSEQ")
	metricsClearRule(c, "R-C15-CLEARSEQ") // "its capacity and metrics are reset": every counter, not most of them
	bloomClearRule(c, "R-C15-CLEARSEQ")   // the doorkeeper is emptied completely ("as a fresh one would")
	oneConsumerRule(c, "R-C15-CLEARSEQ")

	// ---- R-C15-GOROUTINES
	c.Group("R-C15-GOROUTINES", "go statements", func() {
		var sites []string
		for _, fn := range P.SrcFuncs {
			if fn.Pkg != P.Pkgs["ristretto"] {
				continue
			}
			eachInstr(fn, func(in ssa.Instruction) {
				if g, ok := in.(*ssa.Go); ok {
					target := "?"
					if sc := staticCallee(&g.Call); sc != nil {
						target = fname(sc)
					}
					sites = append(sites, fname(fn)+"→"+target)
				}
			})
		}
		sort.Strings(sites)
		want := "Cache.Clear→Cache.processItems,NewCache→Cache.processItems,newDefaultPolicy→defaultPolicy.processItems"
		L.Check(strings.Join(sites, ",") == want, "R-C15-GOROUTINES", "go statements", "exactly three: NewCache, newDefaultPolicy, Clear", "go statements are {"+strings.Join(sites, ",")+"}, want {"+want+"}: a goroutine nobody stops survives Close", 0)
	})
	handshakeRule(c, "R-C15-GOROUTINES")
}

// closeDrainsRule: the final drain of Close really runs. Close releases everything through its call of
// Clear(), and Clear is a no-op on a closed cache (its own guard): so on every path to that call the
// closed flag has not been written yet (no Store/Swap/CompareAndSwap on isClosed before it), and the
// call is on every path past Close's guard. Shared by C04 ("no later than the return of the next Clear or
// Close") and C15.
func closeDrainsRule(c *Ctx, ruleID string) {
	L, P := c.L, c.P
	c.Group(ruleID, "Cache.Close#drain", func() {
		fn := P.Fn("ristretto", "Cache", "Close")
		L.Analysed(fname(fn))
		tb := newTB(fn)
		var clear ssa.Instruction
		for _, ci := range callsTo(fn, "Cache.Clear") {
			if tb.T(ci.Common().Args[0]).String() == "p[0]" {
				clear = ci
			}
		}
		if clear == nil {
			L.Fail(ruleID, "Cache.Close#drain", "Close does not call c.Clear()", fn.Pos())
			return
		}
		isFlagWrite := func(in ssa.Instruction) bool {
			ci, ok := in.(ssa.CallInstruction)
			if !ok {
				return false
			}
			n := calleeName(ci.Common())
			if n != "atomic.Bool.Store" && n != "atomic.Bool.Swap" && n != "atomic.Bool.CompareAndSwap" {
				return false
			}
			return tb.T(ci.Common().Args[0]).String() == "addr(fld[isClosed](p[0]))"
		}
		// a flag write from which the Clear call is still reachable: Clear would see a closed cache
		var early ssa.Instruction
		eachInstr(fn, func(in ssa.Instruction) {
			if early == nil && isFlagWrite(in) {
				if r, _ := reach(after(in), isInstr(clear), nil, nil); r != nil {
					early = in
				}
			}
		})
		if early != nil {
			L.Fail(ruleID, "Cache.Close#drain", "the closed flag is written before Close calls Clear(): Clear's own closed-guard then returns at once, nothing resident or buffered is released through the callbacks and goroutines blocked in Wait stay blocked", early.Pos())
			return
		}
		inert := cutSet(edgesWhere(fn, tb, "eq(p[0],c[nil])", nil, true), edgesWhere(fn, tb, "call[atomic.Bool.Load](addr(fld[isClosed](p[0])))", nil, true))
		bad, path := mustPass(entryPos(fn), isInstr(clear), inert)
		L.Check(bad == nil, ruleID, "Cache.Close#drain", "Clear() is called on every path past the guard, while the closed flag is still unset", "a path through Close skips the final Clear() (block path "+pathString(path)+")", instrPos(bad))
	})
}
