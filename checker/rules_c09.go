package main

import (
	"fmt"
	"go/token"
	"strings"

	"golang.org/x/tools/go/ssa"
)

func init() {
	register(&PropCheck{
		ID: "C09",
		Explanation: "Frequency estimates are touched only through comparisons, so the admission/eviction discipline is read off the code of defaultPolicy.Add: " +
			"(R-C09-FAST) past the residency test a rejection, eviction or sampling step is reachable only across an edge where a fresh roomLeft(cost) < 0 (fits ⇒ admitted without victims); " +
			"(R-C09-ARGMIN) each eviction round scans the whole sample (range loop whose only exit is exhaustion), compares admit.Estimate(pair.key) of the ranged element with the running minimum using strict <, the minimum starting at MaxInt64, and on the pass side takes key, hits, index and cost from that same element; " +
			"(R-C09-REJECT) inside the loop the newcomer is turned away exactly on the side where its estimate (admit.Estimate(key), the function's key) is strictly below the arg-min's: the reject return is reachable only across that edge and evict.del only across the opposite edge; " +
			"(R-C09-VICTIM) the key given to evict.del and recorded in the victim item is the arg-min key, its cost the arg-min cost, the arg-min element is removed from the sample, and the sample is refilled inside every round before the scan; " +
			"(R-C09-SAMPLE) fillSample appends only pairs ranged from keyCosts and stops at lfuSample; " +
			"(R-C09-ESTIMATE) tinyLFU.Estimate = freq.Estimate(key) plus one exactly on the side where door.Has(key); " +
			"(R-C09-REPORT) in the applier a rejected newcomer goes to onReject and the victims loop is reached on both the admitted and the rejected path; " +
			"(R-C09-STREAM) the access stream that feeds the estimates is not corrupted: a ring stripe batch handed to the policy is never written again (rule shared with C08); " +
			"(R-C09-COUNTERS) the 4-bit counters saturate instead of wrapping, so a hot key can never read as the coldest candidate (rule shared with C18). " +
			"NOT decided: accuracy of the estimates beyond that (C18) and which keys the runtime's map iteration yields.",
		Run: runC09,
	})
}

func runC09(c *Ctx) {
	L, P := c.L, c.P
	L.Rule("R-C09-FAST", "fits ⇒ admitted: reject/evict/sample only behind roomLeft(cost) < 0", 1)
	L.Rule("R-C09-ARGMIN", "whole-sample scan, strict <, running minimum from MaxInt64, key/hits/index/cost from the same element", 3)
	L.Rule("R-C09-REJECT", "reject iff incoming estimate strictly below the arg-min's; evict only on the other side", 2)
	L.Rule("R-C09-VICTIM", "evict.del key and victim item = arg-min key/cost; arg-min element removed from sample; sample refilled each round", 4)
	L.Rule("R-C09-ACCOUNT", "\"fits in the remaining capacity\" is judged on an exact figure: every writer keeps used == sum(keyCosts) (shared with C03)", 4)
	L.Rule("R-C09-SAMPLE", "fillSample appends ranged keyCosts pairs only, up to lfuSample", 1)
	L.Rule("R-C09-ESTIMATE", "tinyLFU.Estimate = sketch estimate + 1 iff doorkeeper has the key", 1)
	L.Rule("R-C09-REPORT", "rejected newcomer -> onReject; victims loop reached on both outcomes; victims removed by primary hash alone", 3)

	L.Rule("R-C09-STREAM", "recorded accesses reach the sketch unaltered: ring stripe batches are not reused after the hand-off", 3)
	L.Rule("R-C09-COUNTERS", "cmRow.get/increment agree on the nibble and increment saturates at the mask value", 3)
	fastPathRule(c, "R-C09-FAST")
	accountingInvRule(c, "R-C09-ACCOUNT")
	importRulesWhere(c, runC03, map[string]string{"R-C03-ROOM": "R-C09-FAST"}, func(o *Obligation) bool {
		return o.Construct == "defaultPolicy.Add#oversize" || o.Construct == "sampledLFU.roomLeft"
	})
	// aging must not invent accesses: halving keeps the two counters of a byte apart (shared with C18)
	importRules(c, runC18, map[string]string{"R-C18-HALVE": "R-C09-COUNTERS"})
	ringRule(c, "R-C09-STREAM")
	nibbleRule(c, "R-C09-COUNTERS")

	c.Group("R-C09-STREAM", "Cache.Get#record", func() {
		// "least-frequently-accessed" is about recorded accesses: every Get past the nil/closed guard
		// records the key's primary hash in the read buffer (the same hash it then looks up)
		g := P.Fn("ristretto", "Cache", "Get")
		L.Analysed(fname(g))
		gtb := newTB(g)
		var push []ssa.Instruction
		for _, ci := range callsTo(g, "ringBuffer.Push") {
			a := ci.Common().Args
			if gtb.T(a[0]).String() == "fld[getBuf](p[0])" && gtb.T(a[1]).String() == "ext[0](call[dyn](fld[keyToHash](p[0]),p[1]))" {
				push = append(push, ci)
			}
		}
		if len(push) == 0 {
			L.Fail("R-C09-STREAM", "Cache.Get#record", "Get does not record the access: no c.getBuf.Push(keyHash) with the hash of the key being read - the frequency sketch never sees reads, every resident key looks equally cold", g.Pos())
			return
		}
		inert := cutSet(edgesWhere(g, gtb, "eq(p[0],c[nil])", nil, true), edgesWhere(g, gtb, "call[atomic.Bool.Load](addr(fld[isClosed](p[0])))", nil, true))
		bad, path := mustPass(entryPos(g), isAnyInstr(push), inert)
		L.Check(bad == nil, "R-C09-STREAM", "Cache.Get#record", "every Get past the guard pushes keyHash onto getBuf", "a Get can return without recording the access (block path "+pathString(path)+")", instrPos(bad))
	})

	fn := P.FnOpt("ristretto", "defaultPolicy", "Add")
	var tb *TB
	var scanIf *ssa.If    // the arg-min comparison
	var estCall *ssa.Call // Estimate(pair.key)
	var minHits *ssa.Phi  // running minimum
	var minKey, minCost, minID ssa.Value
	var sample ssa.Value    // the slice scanned
	var hdr *ssa.BasicBlock // inner loop header

	c.Group("R-C09-ARGMIN", "defaultPolicy.Add#scan", func() {
		fn = P.Fn("ristretto", "defaultPolicy", "Add")
		L.Analysed(fname(fn))
		tb = newTB(fn)
		// Estimate calls whose key is a field of an element of a slice
		for _, ci := range callsTo(fn, "tinyLFU.Estimate") {
			call := ci.(*ssa.Call)
			env := Env{}
			if Match("fld[key](idx(?s,?i))", tb.T(call.Call.Args[1]), env) {
				estCall = call
			}
		}
		if estCall == nil {
			L.Fail("R-C09-ARGMIN", "defaultPolicy.Add#scan", "no admit.Estimate(pair.key) over the elements of the sample", fn.Pos())
			return
		}
		E := tb.T(estCall).String()
		// the comparison using E
		for _, b := range fn.Blocks {
			iff := lastIf(b)
			if iff == nil {
				continue
			}
			env := Env{}
			pol := condPolarity(tb.T(iff.Cond), "lt("+E+",?m)", env)
			if pol != 0 {
				scanIf = iff
				if ph, ok := env["m"].V.(*ssa.Phi); ok {
					minHits = ph
				}
				if pol < 0 {
					scanIf = nil // non-strict (le(m,E) negated) handled below
				}
			}
		}
		if scanIf == nil || minHits == nil {
			// look for the wrong operator to give a precise message
			for _, b := range fn.Blocks {
				if iff := lastIf(b); iff != nil && strings.Contains(tb.T(iff.Cond).String(), E) {
					L.Fail("R-C09-ARGMIN", "defaultPolicy.Add#scan", "the sample scan compares the candidate's estimate with "+tb.T(iff.Cond).String()+"; it must be `estimate < runningMin` (strict, running minimum as right operand)", iff.Pos())
					return
				}
			}
			L.Fail("R-C09-ARGMIN", "defaultPolicy.Add#scan", "the candidate's estimate is never compared with a running minimum", estCall.Pos())
			return
		}
		// running minimum initialised to MaxInt64 and updated only with E (leaves of its φ-web: a range
		// loop gives one φ, an index loop with a post statement two)
		okInit, okUpd := false, true
		for _, e := range phiLeaves(minHits) {
			switch {
			case isConst(e, "9223372036854775807"):
				okInit = true
			case e == ssa.Value(estCall):
			default:
				okUpd = false
			}
		}
		if !okInit || !okUpd {
			L.Fail("R-C09-ARGMIN", "defaultPolicy.Add#min", "running minimum is "+tb.T(minHits).String()+"; want φ(MaxInt64, itself, the candidate's estimate)", minHits.Pos())
			return
		}
		L.Ok("R-C09-ARGMIN", "defaultPolicy.Add#min", "strict `Estimate(pair.key) < minHits`, minHits = φ(MaxInt64, minHits, estimate)", scanIf.Pos())
		// on the pass side key, index and cost come from the same element
		hdr = minHits.Block()
		env := Env{}
		Match("fld[key](idx(?s,?i))", tb.T(estCall.Call.Args[1]), env)
		pair := "idx(" + env["s"].String() + "," + env["i"].String() + ")"
		sample = env["s"].V
		// the loop over the sample and its index variable
		var lp *rangeLoop
		for _, l := range rangeLoopsOf(fn) {
			l := l
			if l.Hdr == hdr && tb.T(l.Index).String() == env["i"].String() {
				lp = &l
			}
		}
		// leaves of a φ-web, not looking through the loop's own index variable
		var leavesOf func(v ssa.Value, seen map[*ssa.Phi]bool) []ssa.Value
		leavesOf = func(v ssa.Value, seen map[*ssa.Phi]bool) []ssa.Value {
			ph, isPhi := v.(*ssa.Phi)
			if !isPhi || (lp != nil && (v == lp.Index || tb.T(v).String() == env["i"].String())) {
				return []ssa.Value{v}
			}
			if seen[ph] {
				return nil
			}
			seen[ph] = true
			var out []ssa.Value
			for _, e := range ph.Edges {
				out = append(out, leavesOf(e, seen)...)
			}
			return out
		}
		var problems []string
		found := map[string]bool{}
		for _, in := range hdr.Instrs {
			ph, ok := in.(*ssa.Phi)
			if !ok || ph == minHits {
				continue
			}
			if lp != nil {
				if inc, isInc := lp.Index.(*ssa.BinOp); (isInc && inc.X == ssa.Value(ph)) || lp.Index == ssa.Value(ph) {
					continue // the loop's index variable
				}
			}
			var upd []string
			for _, e := range leavesOf(ph, map[*ssa.Phi]bool{}) {
				if _, isC := e.(*ssa.Const); isC {
					continue // initial value
				}
				upd = append(upd, tb.T(e).String())
			}
			if len(upd) == 0 {
				continue
			}
			for _, vt := range upd {
				switch vt {
				case "fld[key](" + pair + ")":
					found["key"] = true
					minKey = ph
				case "fld[cost](" + pair + ")":
					found["cost"] = true
					minCost = ph
				case env["i"].String():
					found["index"] = true
					minID = ph
				default:
					problems = append(problems, ph.Comment+" := "+vt)
				}
			}
		}
		// each of them is assigned on the pass side of the comparison only
		passEdges := edgesWhere(fn, tb, "lt("+E+","+tb.T(minHits).String()+")", nil, true)
		_ = passEdges
		for _, k := range []string{"key", "cost", "index"} {
			if !found[k] {
				problems = append(problems, "arg-min "+k+" is not taken from the compared element "+pair)
			}
		}
		if len(problems) > 0 {
			L.Fail("R-C09-ARGMIN", "defaultPolicy.Add#same-element", strings.Join(problems, "; "), scanIf.Pos())
		} else {
			L.Ok("R-C09-ARGMIN", "defaultPolicy.Add#same-element", "minKey, minId, minCost are assigned from the same ranged element as the estimate", scanIf.Pos())
		}
		// whole sample: a loop over `sample` (range or index form) whose only exit is exhaustion
		whole := lp != nil && tb.T(lp.Slice).String() == env["s"].String() && lp.Whole()
		L.Check(whole, "R-C09-ARGMIN", "defaultPolicy.Add#whole-sample", "the scan ranges over every element of the sample (only exit: exhaustion)", "the scan does not cover the whole sample (early exit or partial range)", hdr.Instrs[0].Pos())
	})

	c.Group("R-C09-REJECT", "defaultPolicy.Add#reject", func() {
		if fn == nil || minHits == nil || hdr == nil {
			L.Undecided("R-C09-REJECT", "defaultPolicy.Add#reject", "arg-min scan not recognised", 0)
			return
		}
		var inc *ssa.Call
		for _, ci := range callsTo(fn, "tinyLFU.Estimate") {
			call := ci.(*ssa.Call)
			if Match("p[1]", tb.T(call.Call.Args[1]), nil) && Match("fld[admit](p[0])", tb.T(call.Call.Args[0]), nil) {
				inc = call
			}
		}
		if inc == nil {
			L.Fail("R-C09-REJECT", "defaultPolicy.Add#reject", "the incoming key's own estimate admit.Estimate(key) is never computed", fn.Pos())
			return
		}
		pat := "lt(" + tb.T(inc).String() + "," + tb.T(minHits).String() + ")"
		lower := edgesWhere(fn, tb, pat, nil, true)
		notLower := edgesWhere(fn, tb, pat, nil, false)
		if len(lower) == 0 {
			L.Fail("R-C09-REJECT", "defaultPolicy.Add#reject", "no strict comparison `incHits < minHits` between the newcomer's estimate and the arg-min's (equal estimates must admit)", inc.Pos())
			return
		}
		// loop body start: the block after the outer loop header's room<0 edge = where fillSample is
		start := Pos{hdr, 0}
		isRejectRet := func(in ssa.Instruction) bool {
			r, ok := in.(*ssa.Return)
			return ok && !isConst(returnValues(r)[1], "true")
		}
		isDel := func(in ssa.Instruction) bool {
			ci, ok := in.(ssa.CallInstruction)
			return ok && calleeName(ci.Common()) == "sampledLFU.del"
		}
		// stop exploring when the next round begins (fillSample)
		isNextRound := func(in ssa.Instruction) bool {
			ci, ok := in.(ssa.CallInstruction)
			return ok && calleeName(ci.Common()) == "sampledLFU.fillSample"
		}
		bad1, p1 := reach(start, isRejectRet, isNextRound, cutSet(lower))
		bad2, p2 := reach(start, isDel, isNextRound, cutSet(notLower))
		if bad1 != nil {
			L.Fail("R-C09-REJECT", "defaultPolicy.Add#reject", "the newcomer can be turned away without its estimate being strictly below the least-frequent candidate's (block path "+pathString(p1)+")", instrPos(bad1))
		} else {
			L.Ok("R-C09-REJECT", "defaultPolicy.Add#reject", "rejection only on the `incHits < minHits` side (strict; operands: Estimate(key) vs the arg-min)", inc.Pos())
		}
		if bad2 != nil {
			L.Fail("R-C09-REJECT", "defaultPolicy.Add#evict-side", "a candidate can be evicted although the newcomer's estimate is strictly lower than its own (block path "+pathString(p2)+")", instrPos(bad2))
		} else {
			L.Ok("R-C09-REJECT", "defaultPolicy.Add#evict-side", "eviction only on the `incHits >= minHits` side", inc.Pos())
		}
	})

	c.Group("R-C09-VICTIM", "defaultPolicy.Add#victim", func() {
		if fn == nil || minKey == nil || minCost == nil || minID == nil {
			L.Undecided("R-C09-VICTIM", "defaultPolicy.Add#victim", "arg-min values not recognised", 0)
			return
		}
		dels := callsTo(fn, "sampledLFU.del")
		if len(dels) != 1 {
			L.Fail("R-C09-VICTIM", "defaultPolicy.Add#del", fmt.Sprintf("expected one evict.del, found %d", len(dels)), fn.Pos())
			return
		}
		d := dels[0]
		L.Check(d.Common().Args[1] == minKey, "R-C09-VICTIM", "defaultPolicy.Add#del", "evict.del(minKey)", "evict.del is given "+tb.T(d.Common().Args[1]).String()+", not the arg-min key", d.Pos())
		// victim literal
		var lit *ssa.Alloc
		eachInstr(fn, func(in ssa.Instruction) {
			if a, ok := in.(*ssa.Alloc); ok && a.Heap && recvName(a.Type()) == "Item" {
				lit = a
			}
		})
		if lit == nil {
			L.Fail("R-C09-VICTIM", "defaultPolicy.Add#item", "no victim item is recorded", fn.Pos())
		} else {
			lf := litFields(lit)
			ok := len(lf["Key"]) == 1 && lf["Key"][0].Val == minKey && len(lf["Cost"]) == 1 && lf["Cost"][0].Val == minCost
			L.Check(ok, "R-C09-VICTIM", "defaultPolicy.Add#item", "victim item carries the arg-min key and cost", "the victim item's Key/Cost are not the arg-min's (the applier would delete a different entry than the policy dropped)", lit.Pos())
		}
		// the victim list and the candidate sample start empty: a pre-sized slice would hand nil entries to the
		// applier's victim loop (nil dereference) or to the scan
		eachInstr(fn, func(in ssa.Instruction) {
			if mk, ok := in.(*ssa.MakeSlice); ok && !isConst(mk.Len, "0") {
				L.Fail("R-C09-VICTIM", "defaultPolicy.Add#item", "a slice is made with non-zero length "+tb.T(mk.Len).String()+" in Add: the victims / sample then start with nil entries", mk.Pos())
			}
		})
		// removal from sample: sample[minId] = sample[len-1]; sample = sample[:len-1]
		// decided on SSA identity (the sample value feeds its own phi, so term strings would be cyclic)
		isLenMinus1 := func(v ssa.Value) bool {
			bo, ok := v.(*ssa.BinOp)
			if !ok || bo.Op != token.SUB || !isConst(bo.Y, "1") {
				return false
			}
			cl, ok := bo.X.(*ssa.Call)
			return ok && calleeName(&cl.Call) == "len" && cl.Call.Args[0] == sample
		}
		swap, shrink := false, false
		eachInstr(fn, func(in ssa.Instruction) {
			if st, ok := in.(*ssa.Store); ok {
				if ia, ok := st.Addr.(*ssa.IndexAddr); ok && ia.X == sample && ia.Index == minID {
					if ld, ok := st.Val.(*ssa.UnOp); ok && ld.Op == token.MUL {
						if src, ok := ld.X.(*ssa.IndexAddr); ok && src.X == sample && isLenMinus1(src.Index) {
							swap = true
						}
					}
				}
			}
			if sl, ok := in.(*ssa.Slice); ok && sl.X == sample && sl.Low == nil && isLenMinus1(sl.High) {
				shrink = true
			}
		})
		L.Check(swap && shrink, "R-C09-VICTIM", "defaultPolicy.Add#remove", "arg-min element swapped with the last and the sample shrunk by one", "the evicted candidate is not removed from the sample (swap-with-last + shrink at the arg-min index): it could be chosen again", d.Pos())
		// refill inside every round, before the scan
		fills := callsTo(fn, "sampledLFU.fillSample")
		okFill := len(fills) == 1
		if okFill {
			f := fills[0].(ssa.Instruction)
			again, _ := reach(after(f), isInstr(f), nil, nil)
			okFill = again != nil && f.Block().Dominates(hdr) && tb.T(sample).String() == tb.T(fills[0].(*ssa.Call)).String()
		}
		L.Check(okFill, "R-C09-VICTIM", "defaultPolicy.Add#refill", "the sample scanned is the result of fillSample called in every round", "the sample is not refilled in every eviction round before the scan (it runs empty and the running minimum stays MaxInt64)", fn.Pos())
	})

	c.Group("R-C09-SAMPLE", "sampledLFU.fillSample", func() {
		f := P.Fn("ristretto", "sampledLFU", "fillSample")
		L.Analysed(fname(f))
		t := newTB(f)
		lfu := P.Const("ristretto", "lfuSample").Value.Value.ExactString()
		okAppend, okStop := false, false
		eachInstr(f, func(in ssa.Instruction) {
			if cl, ok := in.(*ssa.Call); ok && calleeName(&cl.Call) == "append" {
				// appended element: new policyPair with key/cost from the ranged map
				okAppend = true
				eachInstr(f, func(in2 ssa.Instruction) {
					if a, ok := in2.(*ssa.Alloc); ok && recvName(a.Type()) == "policyPair" {
						lf := litFields(a)
						k := len(lf["key"]) == 1 && Match("ext[1](next(range(fld[keyCosts](p[0]))))", t.T(lf["key"][0].Val), nil)
						cst := len(lf["cost"]) == 1 && Match("ext[2](next(range(fld[keyCosts](p[0]))))", t.T(lf["cost"][0].Val), nil)
						if !k || !cst {
							okAppend = false
						}
					}
				})
			}
			if iff, ok := in.(*ssa.If); ok && condPolarity(t.T(iff.Cond), "le(c["+lfu+"],call[len](_))", nil) != 0 {
				okStop = true
			}
		})
		L.Check(okAppend && okStop, "R-C09-SAMPLE", "sampledLFU.fillSample", "appends {key,cost} pairs ranged from keyCosts until len >= lfuSample", "fillSample does not append ranged keyCosts pairs up to lfuSample", f.Pos())
		// observation (no property violated): the refill never looks at what the sample already holds
		dedupes := false
		eachInstr(f, func(in ssa.Instruction) {
			if bo, ok := in.(*ssa.BinOp); ok && (bo.Op == token.EQL || bo.Op == token.NEQ) && strings.Contains(t.T(bo).String(), "fld[key](") {
				dedupes = true
			}
		})
		if !dedupes {
			L.Advisory("fillSample re-appends keys the sample already holds (no membership test): a key can be a candidate twice, be chosen as victim twice in one Add (the second evict.del is a no-op) and reach OnEvict a second time with the zero value; noted independently by three seeding agents; every accepted value still leaves exactly once")
		}
	})

	c.Group("R-C09-ESTIMATE", "tinyLFU.Estimate", func() {
		f := P.Fn("ristretto", "tinyLFU", "Estimate")
		L.Analysed(fname(f))
		t := newTB(f)
		base := "call[cmSketch.Estimate](fld[freq](p[0]),p[1])"
		has := "call[z.Bloom.Has](load(fld[door](p[0])),p[1])"
		ok := true
		for _, r := range returnsOf(f) {
			v := returnValues(r)[0]
			vt := t.T(v)
			ph, isPhi := v.(*ssa.Phi)
			if !isPhi || !(Match("phi(add("+base+",c[1]),"+base+")", vt, nil) || Match("phi("+base+",add("+base+",c[1]))", vt, nil)) {
				ok = false
				L.Fail("R-C09-ESTIMATE", "tinyLFU.Estimate", "returns "+vt.String()+", want freq.Estimate(key) plus one when door.Has(key)", r.Pos())
				continue
			}
			doorT := edgesWhere(f, t, has, nil, true)
			for i, e := range ph.Edges {
				if _, isAdd := e.(*ssa.BinOp); isAdd {
					// the +1 value must be produced only across the door.Has true edge
					b, _ := reach(entryPos(f), isInstr(e.(ssa.Instruction)), nil, cutSet(doorT))
					if b != nil || len(doorT) == 0 {
						ok = false
						L.Fail("R-C09-ESTIMATE", "tinyLFU.Estimate", "the +1 is not tied to door.Has(key) being true", r.Pos())
					}
				} else {
					// the plain value must come across the false edge
					pred := ph.Block().Preds[i]
					iff := lastIf(pred)
					if iff == nil || condPolarity(t.T(iff.Cond), has, nil) == 0 {
						ok = false
						L.Fail("R-C09-ESTIMATE", "tinyLFU.Estimate", "the doorkeeper bit is ignored on a path", r.Pos())
					}
				}
			}
		}
		if ok {
			L.Ok("R-C09-ESTIMATE", "tinyLFU.Estimate", "freq.Estimate(key) + (door.Has(key) ? 1 : 0), same key", f.Pos())
		}
	})

	c.Group("R-C09-REPORT", "Cache.processItems#victim-del", func() {
		// a victim is identified by its primary hash alone (the policy knows nothing else): it is removed
		// from the map with conflict 0 = "do not compare". Passing any other conflict hash (the newcomer's)
		// leaves the victim resident after the policy dropped it whenever keys carry a conflict hash.
		fn := P.Fn("ristretto", "Cache", "processItems")
		tb := newTB(fn)
		n := 0
		var bad []string
		var pos token.Pos
		for _, ci := range allCalls(fn) {
			cc := ci.Common()
			if !cc.IsInvoke() || cc.Method.Name() != "Del" || recvName(cc.Value.Type()) != "store" {
				continue
			}
			kt := tb.T(cc.Args[0]).String()
			if !strings.HasPrefix(kt, "fld[Key](idx(") { // victim.Key: an element of the victims slice
				continue
			}
			n++
			if !isConst(cc.Args[1], "0") {
				bad = append(bad, "store.Del("+kt+", "+tb.T(cc.Args[1]).String()+")")
				pos = ci.Pos()
			}
		}
		L.Check(len(bad) == 0 && n == 1, "R-C09-REPORT", "Cache.processItems#victim-del", "victims are removed with store.Del(victim.Key, 0)", fmt.Sprintf("victims are not removed with conflict 0 (%d victim removals; %s): a victim whose stored conflict hash differs stays in the map and keeps being served", n, strings.Join(bad, "; ")), pos)
	})
	c.Group("R-C09-REPORT", "Cache.processItems", func() {
		pf := P.Fn("ristretto", "Cache", "processItems")
		t := newTB(pf)
		sel, _, I := applierSelect(pf, t)
		adds := callsTo(pf, "defaultPolicy.Add")
		if sel == nil || len(adds) != 1 {
			L.Undecided("R-C09-REPORT", "Cache.processItems", "applier shape not recognised", pf.Pos())
			return
		}
		add := adds[0].(*ssa.Call)
		admitted := edgesWhere(pf, t, "ext[1]("+t.T(add).String()+")", nil, true)
		isReject := func(in ssa.Instruction) bool {
			cl, ok := in.(*ssa.Call)
			return ok && Match("call[dyn](fld[onReject](p[0]),"+I+")", t.T(cl), nil)
		}
		next := func(in ssa.Instruction) bool { return in == ssa.Instruction(sel) || isReturn(in) }
		bad, path := reach(after(add), next, isReject, cutSet(admitted))
		L.Check(bad == nil, "R-C09-REPORT", "Cache.processItems#reject", "a newcomer the policy turned away always reaches onReject", "a rejected newcomer can skip onReject (block path "+pathString(path)+")", add.Pos())
		// victims loop on both outcomes: every path from Add to the next receive evaluates len(victims)
		isVictimLoop := func(in ssa.Instruction) bool {
			cl, ok := in.(*ssa.Call)
			return ok && Match("call[len](ext[0]("+t.T(add).String()+"))", t.T(cl), nil)
		}
		bad2, path2 := reach(after(add), next, isVictimLoop, nil)
		L.Check(bad2 == nil, "R-C09-REPORT", "Cache.processItems#victims", "the victims loop is reached whether or not the newcomer was admitted", "a path from policy.Add skips the victims loop (block path "+pathString(path2)+"): items the policy already dropped stay in the map", add.Pos())
	})
}
