package main

import (
	"fmt"
	"strings"

	"golang.org/x/tools/go/ssa"
)

func init() {
	register(&PropCheck{
		ID: "C07",
		Explanation: "Decides the comparison skeleton of 'items are never served after their TTL has elapsed' (expirations are touched only through IsZero/After/Before, a finite set of orderings): " +
			"(R-C07-READCHECK) in lockedMap.get and shardedMap.IterValues the entry's value escapes only across edges on which `!e.expiration.IsZero() && now.After(e.expiration)` is false for that same entry, and the expired branch is reachable only when IsZero is false (ttl=0 items are never hidden); Cache.GetTTL returns (d,true) only after Get succeeded, d = time.Until(expiration) only on the not-expired side, 0 only for a zero expiration; " +
			"(R-C07-SETTTL) ttl<0 returns false without any store call or send; the Item's Expiration is time.Now().Add(ttl) exactly when ttl != 0 and the zero time when ttl == 0; " +
			"(R-C07-ATOMICWRITE) value and expiration are written by one map store from one *Item (shared with C01); " +
			"(R-C07-ZEROAGREE) every comparison of a stored expiration with the clock, anywhere in the package, is guarded by an IsZero test of the same value; " +
			"(R-C07-SWEEP) the expiry sweep removes a key only on the side of its re-check where the store's current expiration is non-zero and not after now (so a re-write with a later or no TTL is not hidden early). " +
			"NOT decided: wall-clock arithmetic, GetTTL's 'no larger than the ttl given', and the window between GetTTL's two lookups (advisory).",
		Run: runC07,
	})
}

// expiredPolarity: +1 if cond==true means "expiration E has passed", -1 if cond==true
// means "E has not passed", 0 if cond is not a clock comparison of E.
func expiredPolarity(cond *Term, E string) int {
	sign := 1
	for cond.Op == "not" {
		cond = cond.Args[0]
		sign = -sign
	}
	isClock := func(t *Term) bool { return strings.Contains(t.String(), "call[time.Now]") }
	if cond.Op != "call" || len(cond.Args) != 2 {
		return 0
	}
	a, b := cond.Args[0], cond.Args[1]
	switch cond.Sym {
	case "time.Time.After": // a.After(b): a > b
		if isClock(a) && b.String() == E {
			return sign
		}
		if a.String() == E && isClock(b) {
			return -sign
		}
	case "time.Time.Before": // a.Before(b): a < b
		if a.String() == E && isClock(b) {
			return sign
		}
		if isClock(a) && b.String() == E {
			return -sign
		}
	}
	return 0
}

// expiryEdges returns the edges on which E is known expired / known not expired.
func expiryEdges(fn *ssa.Function, tb *TB, E string) (expired, alive map[Edge]bool) {
	expired, alive = map[Edge]bool{}, map[Edge]bool{}
	for _, b := range fn.Blocks {
		iff := lastIf(b)
		if iff == nil {
			continue
		}
		switch expiredPolarity(tb.T(iff.Cond), E) {
		case 1:
			expired[Edge{b, 0}] = true
			alive[Edge{b, 1}] = true
		case -1:
			expired[Edge{b, 1}] = true
			alive[Edge{b, 0}] = true
		}
	}
	return
}

// readCheck verifies that `escape` instructions are reachable from `start` only across
// IsZero(E)-true or expired(E)-false edges, and that the expired test itself is reached
// only across IsZero(E)-false edges.
func readCheck(c *Ctx, rule, cons string, fn *ssa.Function, tb *TB, start Pos, E string, escape func(ssa.Instruction) bool, pos ssa.Instruction) {
	L := c.L
	isZeroT := edgesWhere(fn, tb, "call[time.Time.IsZero]("+E+")", nil, true)
	isZeroF := edgesWhere(fn, tb, "call[time.Time.IsZero]("+E+")", nil, false)
	expired, alive := expiryEdges(fn, tb, E)
	if len(expired) == 0 {
		L.Fail(rule, cons, "the entry's expiration ("+E+") is never compared with the clock before its value is yielded: expired items are served until the sweep runs", instrPos(pos))
		return
	}
	bad, path := reach(start, escape, nil, cutSet(isZeroT, alive))
	if bad != nil {
		L.Fail(rule, cons, "the value escapes on a path that does not pass the not-expired side of the expiry test (block path "+pathString(path)+"): an expired item can be served", instrPos(bad))
		return
	}
	if len(isZeroT) == 0 {
		L.Fail(rule, cons, "no IsZero guard on the expiration: items written without TTL (zero expiration) would be treated as expired and hidden", instrPos(pos))
		return
	}
	for e := range expired {
		iff := lastIf(e.From)
		b2, p2 := reach(start, isInstr(iff), nil, cutSet(isZeroF))
		if b2 != nil {
			L.Fail(rule, cons, "the clock comparison is evaluated for a zero expiration (reachable without the !IsZero guard, block path "+pathString(p2)+"): a ttl=0 item would be hidden", iff.Pos())
			return
		}
	}
	L.Ok(rule, cons, "value yielded only when expiration is zero or not after now; the expired branch requires a non-zero expiration", instrPos(pos))
}

// sweepRecheckRule: expirationMap.cleanup removes only keys whose current expiration is
// non-zero and not after now. Shared by C07 and C14.
func sweepRecheckRule(c *Ctx, ruleID string) {
	L, P := c.L, c.P
	c.Group(ruleID, "expirationMap.cleanup", func() {
		fn := P.Fn("ristretto", "expirationMap", "cleanup")
		L.Analysed(fname(fn))
		tb := newTB(fn)
		var next *ssa.Next
		eachInstr(fn, func(in ssa.Instruction) {
			if n, ok := in.(*ssa.Next); ok {
				next = n
			}
		})
		if next == nil {
			L.Undecided(ruleID, "expirationMap.cleanup", "no range over a grabbed bucket", fn.Pos())
			return
		}
		key := "ext[1](" + tb.T(next).String() + ")"
		exps := callsTo(fn, "iface:store.Expiration")
		var expCall *ssa.Call
		for _, e := range exps {
			if tb.T(e.Common().Args[0]).String() == key {
				expCall = e.(*ssa.Call)
			}
		}
		if expCall == nil {
			L.Fail(ruleID, "expirationMap.cleanup", "the sweep does not fetch the store's current expiration of the key it is about to remove: a key re-written with a later TTL after the bucket grab is evicted early", next.Pos())
			return
		}
		E := tb.T(expCall).String()
		removal := func(in ssa.Instruction) bool {
			cl, ok := in.(*ssa.Call)
			if !ok {
				return false
			}
			n := calleeName(&cl.Call)
			return n == "defaultPolicy.Del" || n == "iface:store.Del" || (n == "dyn" && isHandOverSig(cl.Call.Value.Type()))
		}
		isZeroF := edgesWhere(fn, tb, "call[time.Time.IsZero]("+E+")", nil, false)
		expired, _ := expiryEdges(fn, tb, E)
		// the "now" of the comparison must be the sweep's own clock value, not a later one: accepted either way
		for _, g := range []struct {
			edges map[Edge]bool
			miss  string
		}{
			{expired, "the re-check `current expiration is not after now` (polarity included)"},
			{isZeroF, "the re-check that the current expiration is non-zero (zero means never expires / already gone)"},
		} {
			bad, path := reach(after(expCall), removal, isInstr(next), cutSet(g.edges))
			if bad != nil || len(g.edges) == 0 {
				L.Fail(ruleID, "expirationMap.cleanup", "a key of a grabbed bucket is removed without "+g.miss+" (block path "+pathString(path)+")", instrPos(bad))
				return
			}
		}
		// the removal acts on the key re-checked in this very iteration: collecting "expired" keys first and
		// removing them in a later pass re-opens the window in which a re-write is swept away
		for _, ci := range allCalls(fn) {
			cc := ci.Common()
			var got string
			switch calleeName(cc) {
			case "defaultPolicy.Del", "defaultPolicy.Cost":
				got = tb.T(cc.Args[1]).String()
			case "iface:store.Del":
				got = tb.T(cc.Args[0]).String()
			default:
				continue
			}
			if got != key {
				L.Fail(ruleID, "expirationMap.cleanup", "the sweep calls "+calleeName(cc)+" on "+got+", not on the key whose current expiration it has just re-checked ("+key+"): the re-check and the removal are separated, a key re-written in between is removed although its new expiration has not passed", ci.Pos())
				return
			}
		}
		// a key that fails the re-check is skipped, the rest of its bucket is still processed: from the
		// re-check the only way on is back to the range's next (the bucket was already taken out of the index,
		// so keys behind a `break` would never be looked at again)
		if hdr := loopHeaderOf(expCall.Block()); hdr != nil {
			body := loopBodyOf(hdr)
			for b := range body {
				if b == hdr || b == next.Block() {
					continue
				}
				for _, s2 := range b.Succs {
					if !body[s2] && expCall.Block().Dominates(b) {
						L.Fail(ruleID, "expirationMap.cleanup", "after the re-check of one key the loop over its bucket can be left (block "+fmt.Sprint(b.Index)+" → "+fmt.Sprint(s2.Index)+"): the remaining keys of that bucket are never swept", instrPos(b.Instrs[len(b.Instrs)-1]))
						return
					}
				}
			}
		}
		// the fetch happens after the bucket grab: in the per-key loop, i.e. dominated by next
		L.Check(instrDominates(next, expCall), ruleID, "expirationMap.cleanup", "policy.Del / store.Del / report only when the store's current expiration is non-zero and has passed", "the expiration is fetched before the per-key loop", expCall.Pos())
	})
}

func runC07(c *Ctx) {
	L, P := c.L, c.P
	L.Rule("R-C07-READCHECK", "every value-yielding read is on the not-expired side of `!exp.IsZero() && now.After(exp)` for the same entry; GetTTL result shapes", 3)
	L.Rule("R-C07-SETTTL", "ttl<0 stores nothing and returns false; Expiration = Now().Add(ttl) iff ttl != 0, zero otherwise; clock read before any hook", 4)
	L.Rule("R-C07-ATOMICWRITE", "value and expiration written by one map store from one *Item (shared with C01)", 2)
	L.Rule("R-C07-ZEROAGREE", "every clock comparison of a stored expiration is guarded by IsZero of the same value", 3)
	L.Rule("R-C07-SWEEP", "the sweep removes only keys whose current expiration is non-zero and not after now", 1)

	c.Group("R-C07-READCHECK", "lockedMap.get", func() {
		fn := P.Fn("ristretto", "lockedMap", "get")
		L.Analysed(fname(fn))
		tb := newTB(fn)
		lks := lookupsOf(fn, tb, dataPat)
		if len(lks) != 1 {
			L.Undecided("R-C07-READCHECK", "lockedMap.get", "expected one lookup", fn.Pos())
			return
		}
		entry := tb.T(lks[0]).String()
		E := "fld[expiration](" + entry + ")"
		escape := func(in ssa.Instruction) bool {
			r, ok := in.(*ssa.Return)
			return ok && !isConst(returnValues(r)[1], "false")
		}
		readCheck(c, "R-C07-READCHECK", "lockedMap.get", fn, tb, after(lks[0]), E, escape, lks[0])
	})
	c.Group("R-C07-READCHECK", "shardedMap.IterValues", func() {
		outer := P.Fn("ristretto", "shardedMap", "IterValues")
		var fn *ssa.Function
		for _, a := range outer.AnonFuncs {
			fn = a
		}
		if fn == nil {
			fn = outer
		}
		L.Analysed(fname(fn))
		tb := newTB(fn)
		var next *ssa.Next
		eachInstr(fn, func(in ssa.Instruction) {
			if n, ok := in.(*ssa.Next); ok && Match("next(range(fld[data](_)))", tb.T(n), nil) {
				next = n
			}
		})
		if next == nil {
			L.Undecided("R-C07-READCHECK", "shardedMap.IterValues", "no range over shard.data", fn.Pos())
			return
		}
		entry := "ext[2](" + tb.T(next).String() + ")"
		E := "fld[expiration](" + entry + ")"
		escape := func(in ssa.Instruction) bool {
			cl, ok := in.(*ssa.Call)
			if !ok || calleeName(&cl.Call) != "dyn" {
				return false
			}
			for _, a := range cl.Call.Args {
				if strings.Contains(tb.T(a).String(), entry) {
					return true
				}
			}
			return false
		}
		readCheck(c, "R-C07-READCHECK", "shardedMap.IterValues", fn, tb, after(next), E, escape, next)
	})
	c.Group("R-C07-READCHECK", "Cache.GetTTL", func() {
		fn := P.Fn("ristretto", "Cache", "GetTTL")
		L.Analysed(fname(fn))
		tb := newTB(fn)
		gets := callsTo(fn, "iface:store.Get")
		exps := callsTo(fn, "iface:store.Expiration")
		if len(gets) != 1 || len(exps) != 1 {
			L.Fail("R-C07-READCHECK", "Cache.GetTTL", "expected one store.Get and one store.Expiration", fn.Pos())
			return
		}
		get, exp := gets[0].(*ssa.Call), exps[0].(*ssa.Call)
		E := tb.T(exp).String()
		found := edgesWhere(fn, tb, "ext[1]("+tb.T(get).String()+")", nil, true)
		isZeroT := edgesWhere(fn, tb, "call[time.Time.IsZero]("+E+")", nil, true)
		isZeroF := edgesWhere(fn, tb, "call[time.Time.IsZero]("+E+")", nil, false)
		_, alive := expiryEdges(fn, tb, E)
		ok := true
		n := 0
		for _, r := range returnsOf(fn) {
			rv := returnValues(r)
			t0, t1 := tb.T(rv[0]).String(), tb.T(rv[1]).String()
			if t1 == "c[false]" {
				if t0 != "c[0]" {
					ok = false
					L.Fail("R-C07-READCHECK", "Cache.GetTTL#notfound", "returns a duration with found=false: "+t0, r.Pos())
				}
				continue
			}
			n++
			if t1 != "c[true]" {
				ok = false
				L.Undecided("R-C07-READCHECK", "Cache.GetTTL", "found result not constant: "+t1, r.Pos())
				continue
			}
			if b, _ := reach(entryPos(fn), isInstr(r), nil, cutSet(found)); b != nil || len(found) == 0 {
				ok = false
				L.Fail("R-C07-READCHECK", "Cache.GetTTL#found", "reports found=true without storedItems.Get having found the (unexpired) item", r.Pos())
			}
			if t0 == "c[0]" {
				if b, _ := reach(entryPos(fn), isInstr(r), nil, cutSet(isZeroT)); b != nil || len(isZeroT) == 0 {
					ok = false
					L.Fail("R-C07-READCHECK", "Cache.GetTTL#noexpiry", "reports (0, true) — no expiry — for an item whose expiration is not zero", r.Pos())
				}
			} else {
				if t0 != "call[time.Until]("+E+")" {
					ok = false
					L.Fail("R-C07-READCHECK", "Cache.GetTTL#remaining", "remaining time is "+t0+", want time.Until(expiration) of the stored expiration", r.Pos())
				}
				if b, _ := reach(entryPos(fn), isInstr(r), nil, cutSet(alive)); b != nil || len(alive) == 0 {
					ok = false
					L.Fail("R-C07-READCHECK", "Cache.GetTTL#remaining", "a remaining TTL is reported without the not-expired side of the clock comparison", r.Pos())
				}
				if b, _ := reach(entryPos(fn), isInstr(r), nil, cutSet(isZeroF)); b != nil {
					ok = false
					L.Fail("R-C07-READCHECK", "Cache.GetTTL#remaining", "a remaining TTL is computed for a zero expiration", r.Pos())
				}
			}
		}
		if ok && n >= 2 {
			L.Ok("R-C07-READCHECK", "Cache.GetTTL", "found only after Get; (0,true) only for zero expiration; time.Until(exp) only on the not-expired side", fn.Pos())
		} else if ok {
			L.Undecided("R-C07-READCHECK", "Cache.GetTTL", "fewer than two found=true returns", fn.Pos())
		}
		L.Advisory("GetTTL fetches the expiration with a second, conflict-less lookup (store.Expiration(keyHash)); the entry may change between the two lookups")
	})

	// ---- R-C07-SETTTL
	c.Group("R-C07-SETTTL", "Cache.SetWithTTL#clock", func() {
		// the expiration instant is "the time of the SetWithTTL call plus the ttl": the clock is read before
		// any user-supplied function runs (KeyToHash, ShouldUpdate, callbacks may take arbitrarily long)
		fn := P.Fn("ristretto", "Cache", "SetWithTTL")
		tb := newTB(fn)
		var clock []ssa.Instruction
		for _, ci := range callsTo(fn, "time.Now") {
			clock = append(clock, ci)
		}
		if len(clock) == 0 {
			L.Fail("R-C07-SETTTL", "Cache.SetWithTTL#clock", "SetWithTTL never reads the clock", fn.Pos())
			return
		}
		isHook := func(in ssa.Instruction) bool {
			ci, ok := in.(ssa.CallInstruction)
			if !ok {
				return false
			}
			cc := ci.Common()
			if cc.IsInvoke() {
				return true // store/policy calls: the value may already be visible with a wrong deadline
			}
			return staticCallee(cc) == nil && strings.HasPrefix(tb.T(cc.Value).String(), "fld[") // c.keyToHash, c.onExit, ...
		}
		var late ssa.Instruction
		eachInstr(fn, func(in ssa.Instruction) {
			if late == nil && isHook(in) {
				if r, _ := reach(after(in), isAnyInstr(clock), nil, nil); r != nil {
					late = in
				}
			}
		})
		L.Check(late == nil, "R-C07-SETTTL", "Cache.SetWithTTL#clock", "time.Now() for the expiration is read before KeyToHash / any store call / any callback", "the clock is read after a user-supplied function or a store call has run: the expiration is call time + that function's duration + ttl, so the item is served after its TTL has elapsed", instrPos(late))
	})
	c.Group("R-C07-SETTTL", "Cache.SetWithTTL", func() {
		fn := P.Fn("ristretto", "Cache", "SetWithTTL")
		L.Analysed(fname(fn))
		tb := newTB(fn)
		neg := edgesWhere(fn, tb, "lt(p[4],c[0])", nil, true)
		if len(neg) == 0 {
			L.Fail("R-C07-SETTTL", "Cache.SetWithTTL#negative", "no `ttl < 0` test: a negative ttl must store nothing and return false", fn.Pos())
		} else {
			ok := true
			for e := range neg {
				tgt := e.From.Succs[e.Succ]
				bad, _ := reach(Pos{tgt, 0}, func(in ssa.Instruction) bool {
					switch x := in.(type) {
					case *ssa.Call:
						return strings.HasPrefix(calleeName(&x.Call), "iface:store.")
					case *ssa.Send, *ssa.Select:
						return true
					case *ssa.Return:
						return !isConst(returnValues(x)[0], "false")
					}
					return false
				}, isReturn, nil)
				if bad != nil {
					ok = false
					L.Fail("R-C07-SETTTL", "Cache.SetWithTTL#negative", "on the ttl < 0 side the function reaches a store call, a send or a non-false return", instrPos(bad))
				}
			}
			if ok {
				L.Ok("R-C07-SETTTL", "Cache.SetWithTTL#negative", "ttl < 0 returns false with no store call and no send", fn.Pos())
			}
		}
		// expiration value
		var item *ssa.Alloc
		for _, u := range callsTo(fn, "iface:store.Update") {
			item = structValueAlloc(u.Common().Args[0])
		}
		if item == nil {
			L.Undecided("R-C07-SETTTL", "Cache.SetWithTTL#expiration", "item literal not found", fn.Pos())
			return
		}
		lf := litFields(item)
		if len(lf["Expiration"]) != 1 {
			L.Fail("R-C07-SETTTL", "Cache.SetWithTTL#expiration", "Item.Expiration is not initialised exactly once", fn.Pos())
			return
		}
		ev := lf["Expiration"][0].Val
		et := tb.T(ev)
		addT := "call[time.Time.Add](call[time.Now],p[4])"
		phi, isPhi := ev.(*ssa.Phi)
		if !isPhi || !(Match("phi(c[zero],"+addT+")", et, nil) || Match("phi("+addT+",c[zero])", et, nil)) {
			L.Fail("R-C07-SETTTL", "Cache.SetWithTTL#expiration", "Item.Expiration is "+et.String()+", want the zero time for ttl == 0 and time.Now().Add(ttl) otherwise", lf["Expiration"][0].Pos())
			return
		}
		ok := true
		// evidence edges: ttl known non-zero (ttl != 0, or ttl > 0) / ttl known not positive (ttl == 0, or !(ttl > 0);
		// negative ttls never get here: they return false first, checked above)
		nz := cutSet(edgesWhere(fn, tb, "eq(p[4],c[0])", nil, false), edgesWhere(fn, tb, "lt(c[0],p[4])", nil, true))
		zEdges := []map[Edge]bool{edgesWhere(fn, tb, "eq(p[4],c[0])", nil, true), edgesWhere(fn, tb, "lt(c[0],p[4])", nil, false)}
		isZ := cutSet(zEdges...)
		for i, e := range phi.Edges {
			pred := phi.Block().Preds[i]
			if isConst(e, "zero") {
				// the zero expiration may be chosen only where ttl is known not to be positive
				direct := false
				for si, sblk := range pred.Succs {
					if sblk == phi.Block() && isZ(Edge{pred, si}) {
						direct = true
					}
				}
				if !direct {
					term := pred.Instrs[len(pred.Instrs)-1]
					if b, _ := reach(entryPos(fn), isInstr(term), nil, isZ); b != nil {
						ok = false
						L.Fail("R-C07-SETTTL", "Cache.SetWithTTL#expiration", "the zero expiration can be chosen although ttl may be positive", lf["Expiration"][0].Pos())
					}
				}
			} else {
				call := e.(ssa.Instruction)
				if b, _ := reach(entryPos(fn), isInstr(call), nil, nz); b != nil {
					ok = false
					L.Fail("R-C07-SETTTL", "Cache.SetWithTTL#expiration", "time.Now().Add(ttl) is computed without ttl != 0 having been established", call.Pos())
				}
			}
		}
		if ok {
			L.Ok("R-C07-SETTTL", "Cache.SetWithTTL#expiration", "Expiration = zero time on ttl == 0, time.Now().Add(ttl) on ttl != 0 (and ttl >= 0)", lf["Expiration"][0].Pos())
		}
		// the same item is updated and buffered
		same := true
		for _, s := range sendsIn(fn) {
			if Match("fld[setBuf](p[0])", tb.T(s.Chan), nil) && structValueAlloc(s.Val) != item {
				same = false
			}
		}
		L.Check(same, "R-C07-SETTTL", "Cache.SetWithTTL#sameitem", "the item carrying that expiration is the one given to Update and buffered", "the buffered item is not the one given to Update", fn.Pos())
	})

	entryRule(c, "R-C07-ATOMICWRITE")
	updateCallersRule(c, "R-C07-ATOMICWRITE")
	dispatcherRule(c, "R-C07-READCHECK") // the expiry test lives in the shard's get: no dispatcher applies it to writes
	// "the TTL alone never hides an item": an expired entry is skipped, it does not end the enumeration of its shard
	importRulesWhere(c, runC13, map[string]string{"R-C13-ITER": "R-C07-READCHECK"}, func(o *Obligation) bool {
		return strings.HasPrefix(o.Construct, "shardedMap.IterValues")
	})

	// ---- R-C07-ZEROAGREE
	c.Group("R-C07-ZEROAGREE", "clock comparisons", func() {
		n := 0
		for _, fn := range P.SrcFuncs {
			if fn.Pkg != P.Pkgs["ristretto"] {
				continue
			}
			tb := newTB(fn)
			for _, b := range fn.Blocks {
				iff := lastIf(b)
				if iff == nil {
					continue
				}
				ct := tb.T(iff.Cond)
				for ct.Op == "not" {
					ct = ct.Args[0]
				}
				if ct.Op != "call" || (ct.Sym != "time.Time.After" && ct.Sym != "time.Time.Before") || len(ct.Args) != 2 {
					continue
				}
				var E *Term
				for i, a := range ct.Args {
					if strings.Contains(a.String(), "call[time.Now]") {
						E = ct.Args[1-i]
					}
				}
				if E == nil || strings.Contains(E.String(), "call[time.Now]") {
					continue
				}
				n++
				cons := fmt.Sprintf("%s#%s", fname(fn), ct.Sym)
				isZeroF := edgesWhere(fn, tb, "call[time.Time.IsZero]("+E.String()+")", nil, false)
				bad, _ := reach(entryPos(fn), isInstr(iff), nil, cutSet(isZeroF))
				if bad != nil || len(isZeroF) == 0 {
					L.Fail("R-C07-ZEROAGREE", cons, "compares the stored expiration "+E.String()+" with the clock without an IsZero guard on the same value; everywhere else a zero expiration means 'never expires'", iff.Pos())
				} else {
					L.Ok("R-C07-ZEROAGREE", cons, "guarded by !IsZero of the same value", iff.Pos())
				}
			}
		}
		if n == 0 {
			L.Undecided("R-C07-ZEROAGREE", "clock comparisons", "no clock comparison found", 0)
		}
	})

	sweepRecheckRule(c, "R-C07-SWEEP")
}
