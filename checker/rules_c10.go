package main

import (
	"fmt"
	"go/token"
	"go/types"
	"sort"
	"strings"

	"golang.org/x/tools/go/ssa"
)

func init() {
	register(&PropCheck{
		ID: "C10",
		Explanation: "Thin structural claim for 'z.Tree is a correct uint64 map with an exact DeleteBelow' (map correctness over histories is arithmetic on page contents and is NOT decided): " +
			"(R-C10-STALE) invalidating-call typestate: a node value obtained from t.node(…) or returned by a call that may grow the backing buffer (anything reaching Buffer.AllocateOffset through Tree.newNode) must not be WRITTEN through after a later may-grow call without being re-obtained — the write would land in the abandoned buffer; reads through such a node are reported as advisories only (finding F3, not reproduced); " +
			"(R-C10-FREELIST) newNode reads the recycled page's link and updates the free-list head before zeroing the page, hands out the old head, decrements NumPagesFree iff it popped, and zeroes and stamps every page it returns; compact links the emptied child to the old head before making it the head, clears the parent slot, increments NumPagesFree, only for rem == 0 && i < N−1; " +
			"(R-C10-RESET) every Tree field a mutator writes is re-initialised by Reset; " +
			"(R-C10-SPLIT) split copies n[2·(maxKeys/2) : 2·maxKeys] to the new node, gives it maxKeys − maxKeys/2 keys, zeroes that range and leaves maxKeys/2; the root split copies the whole root to a new left child with the root's key count, empties the root and re-populates it with exactly the two children keyed by their max keys; " +
			"(R-C10-CMP) node.compact drops an entry iff val < lo && key < maxKey (both strict); Tree.compact passes ts to leaves and 1 to inner nodes; IterateKV skips exactly val == 0 over [0, numKeys); node.get returns the value only on key(idx) == k with idx != numKeys; the small-N search uses >=; " +
			"(R-C10-DOMAIN) Set and Get reject 0 and MaxUint64 before touching the tree; " +
			"(R-C10-SEARCHARG) node.search hands simd.Search exactly n[:2·numKeys] (the kernel reads nothing beyond it: C20).",
		Run: runC10,
	})
}

// mayGrowFuncs: functions of package z from which Buffer.AllocateOffset/Grow is reachable
// through Tree.newNode.
func mayGrowFuncs(P *Prog) map[*ssa.Function]bool {
	g := buildCallGraph(P)
	newNode := P.Fn("z", "Tree", "newNode")
	out := map[*ssa.Function]bool{}
	for _, fn := range P.SrcFuncs {
		if fn.Pkg != P.Pkgs["z"] {
			continue
		}
		if p := g.Reaches(fn, func(f *ssa.Function) bool { return f == newNode }); p != nil {
			out[fn] = true
		}
	}
	return out
}

func isNodeType(t types.Type) bool { return recvName(t) == "node" }

// nodeWrites: instructions that write through node value v (directly or via a re-slice).
func nodeUses(v ssa.Value, depth int) (writes, reads []ssa.Instruction) {
	if depth > 4 || v.Referrers() == nil {
		return
	}
	writeMethods := map[string]bool{"z.node.setAt": true, "z.node.set": true, "z.node.setNumKeys": true, "z.node.setBit": true, "z.node.compact": true, "z.node.moveRight": true}
	for _, r := range *v.Referrers() {
		switch x := r.(type) {
		case *ssa.Call:
			n := calleeName(&x.Call)
			switch {
			case writeMethods[n] && x.Call.Args[0] == v:
				writes = append(writes, x)
			case n == "copy" && x.Call.Args[0] == v, n == "z.zeroOut" && x.Call.Args[0] == v:
				writes = append(writes, x)
			case n == "copy" && x.Call.Args[1] == v:
				reads = append(reads, x)
			default:
				for _, a := range x.Call.Args {
					if a == v && strings.HasPrefix(n, "z.node.") {
						reads = append(reads, x)
					}
				}
			}
		case *ssa.Slice:
			w, rd := nodeUses(x, depth+1)
			writes, reads = append(writes, w...), append(reads, rd...)
		case *ssa.ChangeType:
			w, rd := nodeUses(x, depth+1)
			writes, reads = append(writes, w...), append(reads, rd...)
		case *ssa.IndexAddr:
			for _, rr := range *x.Referrers() {
				if st, ok := rr.(*ssa.Store); ok && st.Addr == ssa.Value(x) {
					writes = append(writes, st)
				} else if _, ok := rr.(*ssa.UnOp); ok {
					reads = append(reads, rr)
				}
			}
		}
	}
	return
}

func runC10(c *Ctx) {
	L, P := c.L, c.P
	L.Rule("R-C10-STALE", "no write through a node value after a later may-grow call (re-read required); stale reads are advisories", 4)
	L.Rule("R-C10-FREELIST", "free-list pop/push ordering and counters; every new page wiped entirely and stamped; setBit clears stale flag bits; the uint64 page view stays inside the page", 7)
	L.Rule("R-C10-RESET", "Reset re-initialises every field mutators write", 1)
	L.Rule("R-C10-SPLIT", "split range/count conservation; root split shape", 2)
	L.Rule("R-C10-CMP", "comparison polarities in compact/IterateKV/get/search", 5)
	L.Rule("R-C10-DOMAIN", "Set/Get reject 0 and MaxUint64 first", 2)
	L.Rule("R-C10-SEARCHARG", "node.search passes n[:2*numKeys]", 1)
	runC10b(c)

	grow := mayGrowFuncs(P)
	c.Group("R-C10-STALE", "may-grow set", func() {
		var names []string
		for f := range grow {
			names = append(names, fname(f))
		}
		sort.Strings(names)
		L.Check(len(names) >= 5, "R-C10-STALE", "may-grow set", "functions that may reallocate the tree's buffer: "+strings.Join(names, ", "), "may-grow set too small: "+strings.Join(names, ", "), 0)
	})
	for _, fn := range P.SrcFuncs {
		if fn.Pkg != P.Pkgs["z"] || fn.Signature.Recv() == nil || recvName(fn.Signature.Recv().Type()) != "Tree" {
			continue
		}
		fn := fn
		// node-typed values produced by calls in this function
		var defs []*ssa.Call
		var growCalls []ssa.Instruction
		eachInstr(fn, func(in ssa.Instruction) {
			cl, ok := in.(*ssa.Call)
			if !ok {
				return
			}
			if sc := staticCallee(&cl.Call); sc != nil && grow[sc] {
				growCalls = append(growCalls, cl)
			}
			if isNodeType(cl.Type()) {
				defs = append(defs, cl)
			}
		})
		if len(defs) == 0 || len(growCalls) == 0 {
			continue
		}
		c.Group("R-C10-STALE", fname(fn), func() {
			L.Analysed(fname(fn))
			nWrites, bad := 0, false
			for _, d := range defs {
				writes, reads := nodeUses(d, 0)
				staleAt := func(u ssa.Instruction) ssa.Instruction {
					for _, m := range growCalls {
						if m == ssa.Instruction(d) || m == u {
							continue
						}
						if r1, _ := reach(after(d), isInstr(m), nil, nil); r1 == nil {
							continue
						}
						if r2, _ := reach(after(m), isInstr(u), isInstr(d), nil); r2 != nil {
							return m
						}
					}
					return nil
				}
				for _, w := range writes {
					nWrites++
					if m := staleAt(w); m != nil {
						bad = true
						L.Fail("R-C10-STALE", fname(fn), fmt.Sprintf("the node obtained at %s is written through at %s after %s (%s) may have reallocated the buffer, without being re-read: in calloc mode the write lands in the freed buffer and is lost", P.pos(d.Pos()), P.pos(w.Pos()), calleeName(m.(*ssa.Call).Common()), P.pos(m.Pos())), w.Pos())
					}
				}
				for _, r := range reads {
					if m := staleAt(r); m != nil {
						L.Advisory(fmt.Sprintf("F3: %s reads through the node obtained at %s after %s at %s may have grown the buffer (value-preserving in calloc mode; use-after-remap hazard for persistent trees, not reproduced)", fname(fn), P.pos(d.Pos()), calleeName(m.(*ssa.Call).Common()), P.pos(m.Pos())))
					}
				}
			}
			if !bad {
				L.Ok("R-C10-STALE", fname(fn), fmt.Sprintf("%d node values, %d writes through them, none after an intervening may-grow call", len(defs), nWrites), fn.Pos())
			}
		})
	}

	// ---- R-C10-FREELIST
	c.Group("R-C10-FREELIST", "Tree.newNode", func() {
		fn := P.Fn("z", "Tree", "newNode")
		L.Analysed(fname(fn))
		tb := newTB(fn)
		var nodeCall, zero, stamp, link *ssa.Call
		for _, ci := range allCalls(fn) {
			cl, ok := ci.(*ssa.Call)
			if !ok {
				continue
			}
			switch calleeName(&cl.Call) {
			case "z.Tree.node":
				nodeCall = cl
			case "z.zeroOut":
				zero = cl
			case "z.node.setAt":
				stamp = cl
			case "z.node.uint64":
				if isConst(cl.Call.Args[1], "0") {
					link = cl
				}
			}
		}
		if nodeCall == nil || zero == nil || stamp == nil || link == nil {
			L.Fail("R-C10-FREELIST", "Tree.newNode#shape", "newNode does not fetch the page, read its link, zero it and stamp its id", fn.Pos())
			return
		}
		var headStore *ssa.Store
		for _, st := range fieldStoresIn(fn, "Tree", "freePage") {
			if st.Val == ssa.Value(link) {
				headStore = st
			}
		}
		okPop := headStore != nil && link.Call.Args[0] == ssa.Value(nodeCall) && instrDominates(link, zero) || headStore != nil && canReach(headStore, zero) && !canReach(zero, link)
		L.Check(headStore != nil && okPop && !canReach(zero, link), "R-C10-FREELIST", "Tree.newNode#pop-order", "the recycled page's link is read and made the new head before the page is zeroed", "the free-list link of a recycled page is read after zeroOut (or never stored as the new head): the rest of the free list is lost or page 0 is handed out", zero.Pos())
		// page id handed out: old head on the pop side, nextPage otherwise
		pid, isPhi := nodeCall.Call.Args[1].(*ssa.Phi)
		okPid := false
		if isPhi {
			hasHead, hasNext := false, false
			for _, e := range pid.Edges {
				switch tb.T(e).String() {
				case "fld[freePage](p[0])":
					hasHead = true
				case "fld[nextPage](p[0])":
					hasNext = true
				}
			}
			okPid = hasHead && hasNext
		}
		L.Check(okPid, "R-C10-FREELIST", "Tree.newNode#page", "hands out the old free-list head, else the next fresh page", "the page handed out is not φ(freePage, nextPage)", nodeCall.Pos())
		// NumPagesFree-- exactly on the pop side
		popEdges := edgesWhere(fn, tb, "lt(c[0],fld[freePage](p[0]))", nil, true)
		okCnt := false
		for _, st := range fieldStoresIn(fn, "TreeStats", "NumPagesFree") {
			if Match("sub(fld[NumPagesFree](fld[stats](p[0])),c[1])", tb.T(st.Val), nil) {
				if b, _ := reach(entryPos(fn), isInstr(st), nil, cutSet(popEdges)); b == nil && len(popEdges) > 0 {
					okCnt = true
				}
			}
		}
		// ... decided on the head as it was on entry: no assignment to t.freePage may precede the decrement
		// (a test of the advanced head misses the pop of the last free page), and every path that pops decrements
		for _, st := range fieldStoresIn(fn, "TreeStats", "NumPagesFree") {
			for _, hs := range fieldStoresIn(fn, "Tree", "freePage") {
				if r, _ := reach(after(hs), isInstr(st), nil, nil); r != nil {
					okCnt = false
				}
			}
			if r, _ := reach(entryPos(fn), isReturn, isInstr(st), cutSet(edgesWhere(fn, tb, "lt(c[0],fld[freePage](p[0]))", nil, false))); r != nil {
				okCnt = false
			}
		}
		L.Check(okCnt, "R-C10-FREELIST", "Tree.newNode#count", "NumPagesFree-- exactly when a page is popped", "NumPagesFree is not decremented exactly on the pop side (tested on the free-list head as it was on entry)", fn.Pos())
		// every returned page is zeroed and stamped with its id
		b1, _ := mustPass(entryPos(fn), isInstr(zero), nil)
		b2, _ := mustPass(entryPos(fn), isInstr(stamp), nil)
		zeroArg := zero.Call.Args[0]
		for {
			if ct, ok := zeroArg.(*ssa.ChangeType); ok {
				zeroArg = ct.X
				continue
			}
			break
		}
		// the WHOLE page is wiped (a recycled page keeps no flag bits, key count or stale entries)
		okStamp := b1 == nil && b2 == nil && zeroArg == ssa.Value(nodeCall) && stamp.Call.Args[0] == ssa.Value(nodeCall) &&
			tb.T(stamp.Call.Args[1]).String() == "call[z.keyOffset](global[maxKeys])" && stamp.Call.Args[2] == nodeCall.Call.Args[1] && instrDominates(zero, stamp)
		L.Check(okStamp, "R-C10-FREELIST", "Tree.newNode#init", "every page handed out is zeroed, then stamped with its own page id at keyOffset(maxKeys)", "a page can be returned without being zeroed and stamped with its page id", fn.Pos())
	})
	c.Group("R-C10-FREELIST", "node.setBit", func() {
		fn := P.Fn("z", "node", "setBit")
		L.Analysed(fname(fn))
		tb := newTB(fn)
		ok := false
		var got string
		eachInstr(fn, func(in ssa.Instruction) {
			if st, isSt := in.(*ssa.Store); isSt {
				got = tb.T(st.Val).String()
				cell := tb.pointee(st.Addr).String()
				// n[vo] = (n[vo] & 0xFFFFFFFF) | b : the old flag bits are cleared, the key count kept
				for _, pat := range []string{"or(and(" + cell + ",c[4294967295]),p[1])", "or(p[1],and(" + cell + ",c[4294967295]))", "or(and(c[4294967295]," + cell + "),p[1])", "or(p[1],and(c[4294967295]," + cell + "))"} {
					if Match(pat, tb.T(st.Val), nil) && cell == "idx(p[0],call[z.valOffset](global[maxKeys]))" {
						ok = true
					}
				}
			}
		})
		L.Check(ok, "R-C10-FREELIST", "node.setBit", "flag word := (old & 0xFFFFFFFF) | bit — stale flag bits of a recycled page are cleared, the key count is kept", "setBit stores "+got+": it must clear the old flag bits (keep only the low 32 bits) before or-ing the new ones, otherwise a recycled leaf page stays a leaf when reused as an inner node", fn.Pos())
	})
	c.Group("R-C10-FREELIST", "BytesToUint64Slice", func() {
		fn := P.Fn("z", "", "BytesToUint64Slice")
		L.Analysed(fname(fn))
		tb := newTB(fn)
		okLen, okCap := false, false
		var got string
		eachInstr(fn, func(in ssa.Instruction) {
			st, isSt := in.(*ssa.Store)
			if !isSt {
				return
			}
			fa, isFA := st.Addr.(*ssa.FieldAddr)
			if !isFA || recvName(fa.X.Type()) != "SliceHeader" {
				return
			}
			switch fieldName(fa.X.Type(), fa.Field) {
			case "Len":
				got = tb.T(st.Val).String()
				okLen = got == "quo(call[len](p[0]),c[8])" || got == "shr(call[len](p[0]),c[3])"
			case "Cap":
				ct := tb.T(st.Val).String()
				okCap = ct == "quo(call[len](p[0]),c[8])" || ct == "shr(call[len](p[0]),c[3])" || strings.HasPrefix(ct, "fld[Len](")
			}
		})
		L.Check(okLen && okCap, "R-C10-FREELIST", "BytesToUint64Slice", "the uint64 view covers len(b)/8 words (rounded down), cap = len", "the uint64 view of a page has "+got+" words: anything but len(b)/8 rounded down lets a page's view reach into the next page (zeroing or shifting one page then corrupts its neighbour)", fn.Pos())
	})
	c.Group("R-C10-FREELIST", "Tree.compact", func() {
		fn := P.Fn("z", "Tree", "compact")
		L.Analysed(fname(fn))
		tb := newTB(fn)
		var linkSet *ssa.Call
		for _, ci := range callsTo(fn, "z.node.setAt") {
			a := ci.Common().Args
			if isConst(a[1], "0") && tb.T(a[2]).String() == "fld[freePage](p[0])" {
				linkSet = ci.(*ssa.Call)
			}
		}
		var headStore *ssa.Store
		for _, st := range fieldStoresIn(fn, "Tree", "freePage") {
			headStore = st
		}
		if linkSet == nil || headStore == nil {
			L.Fail("R-C10-FREELIST", "Tree.compact#push", "an emptied child is not linked into the free list (child.setAt(0, t.freePage); t.freePage = childID)", fn.Pos())
			return
		}
		childID := tb.T(headStore.Val).String()
		okOrder := instrDominates(linkSet, headStore) && tb.T(linkSet.Call.Args[0]).String() == "call[z.Tree.node](p[0],"+childID+")"
		L.Check(okOrder, "R-C10-FREELIST", "Tree.compact#push", "child's word 0 := old head, then head := child id (same child)", "the push onto the free list is out of order or links a different page than it publishes", headStore.Pos())
		okClear, okCnt := false, false
		for _, ci := range callsTo(fn, "z.node.setAt") {
			a := ci.Common().Args
			if a[0] == ssa.Value(fn.Params[1]) && isConst(a[2], "0") && strings.HasPrefix(tb.T(a[1]).String(), "call[z.valOffset](") && ci.(ssa.Instruction).Block() == headStore.Block() {
				okClear = true
			}
		}
		for _, st := range fieldStoresIn(fn, "TreeStats", "NumPagesFree") {
			if Match("add(c[1],fld[NumPagesFree](fld[stats](p[0])))", tb.T(st.Val), nil) && st.Block() == headStore.Block() {
				okCnt = true
			}
		}
		// guard: rem == 0 && i < N-1
		env := Env{}
		emptyE := edgesWhere(fn, tb, "eq(call[z.Tree.compact](p[0],_,p[2]),c[0])", nil, true)
		notLast := map[Edge]bool{}
		for _, b := range fn.Blocks {
			if iff := lastIf(b); iff != nil {
				if pol := condPolarity(tb.T(iff.Cond), "lt(?i,sub(call[z.node.numKeys](p[1]),c[1]))", env); pol > 0 {
					notLast[Edge{b, 0}] = true
				} else if pol < 0 {
					notLast[Edge{b, 1}] = true
				}
			}
		}
		g1, _ := reach(entryPos(fn), isInstr(headStore), nil, cutSet(emptyE))
		g2, _ := reach(entryPos(fn), isInstr(headStore), nil, cutSet(notLast))
		L.Check(okClear && okCnt && g1 == nil && g2 == nil && len(emptyE) > 0 && len(notLast) > 0, "R-C10-FREELIST", "Tree.compact#guard", "only an emptied child that is not the last one is recycled; parent slot cleared; NumPagesFree++",
			fmt.Sprintf("recycling is not guarded by rem == 0 && i < N−1 with slot clearing and counter (slot cleared:%v counter:%v)", okClear, okCnt), headStore.Pos())
	})

	// ---- R-C10-RESET
	c.Group("R-C10-RESET", "Tree.Reset", func() {
		reset := P.Fn("z", "Tree", "Reset")
		L.Analysed(fname(reset))
		written := map[string]bool{}
		for _, fn := range P.SrcFuncs {
			if fn.Pkg != P.Pkgs["z"] || fn == reset || fn.Signature.Recv() == nil || recvName(fn.Signature.Recv().Type()) != "Tree" {
				continue
			}
			if n := fn.Name(); n == "reinit" {
				continue
			}
			eachInstr(fn, func(in ssa.Instruction) {
				if st, ok := in.(*ssa.Store); ok {
					if fa, ok := st.Addr.(*ssa.FieldAddr); ok {
						switch recvName(fa.X.Type()) {
						case "Tree":
							written[fieldName(fa.X.Type(), fa.Field)] = true
						case "TreeStats":
							written["stats"] = true
						}
					}
				}
			})
		}
		resetWrites := map[string]bool{}
		eachInstr(reset, func(in ssa.Instruction) {
			if st, ok := in.(*ssa.Store); ok {
				if fa, ok := st.Addr.(*ssa.FieldAddr); ok && recvName(fa.X.Type()) == "Tree" {
					resetWrites[fieldName(fa.X.Type(), fa.Field)] = true
				}
			}
		})
		var missing []string
		for f := range written {
			if !resetWrites[f] {
				missing = append(missing, f)
			}
		}
		sort.Strings(missing)
		tb := newTB(reset)
		okVals := true
		for _, st := range fieldStoresIn(reset, "Tree", "freePage") {
			if !isConst(st.Val, "0") {
				okVals = false
			}
		}
		for _, st := range fieldStoresIn(reset, "Tree", "nextPage") {
			if !isConst(st.Val, "1") {
				okVals = false
			}
		}
		_ = tb
		L.Check(len(missing) == 0 && okVals && len(written) >= 4, "R-C10-RESET", "Tree.Reset", "re-initialises every field the mutators write (data, nextPage=1, freePage=0, stats)",
			"Reset does not re-initialise {"+strings.Join(missing, ",")+"}: state of the previous tree (e.g. a stale free-list head pointing into zeroed memory) survives the reset", reset.Pos())
	})

	// ---- R-C10-SPLIT
	c.Group("R-C10-SPLIT", "Tree.split", func() {
		fn := P.Fn("z", "Tree", "split")
		L.Analysed(fname(fn))
		tb := newTB(fn)
		half := "quo(global[maxKeys],c[2])"
		lo, hi := "call[z.keyOffset]("+half+")", "call[z.keyOffset](global[maxKeys])"
		var rh *ssa.Slice
		eachInstr(fn, func(in ssa.Instruction) {
			if sl, ok := in.(*ssa.Slice); ok && tb.T(sl.Low).String() == lo && tb.T(sl.High).String() == hi {
				rh = sl
			}
		})
		if rh == nil {
			L.Fail("R-C10-SPLIT", "Tree.split", "the right half is not n[keyOffset(maxKeys/2):keyOffset(maxKeys)]", fn.Pos())
			return
		}
		nn := callsTo(fn, "z.Tree.newNode")
		okCopy, okZero, okR, okL := false, false, false, false
		for _, ci := range builtinCalls(fn, "copy") {
			if len(nn) == 1 && ci.Call.Args[0] == ssa.Value(nn[0].(*ssa.Call)) && ci.Call.Args[1] == ssa.Value(rh) {
				okCopy = true
			}
		}
		for _, ci := range callsTo(fn, "z.zeroOut") {
			if ct, ok := ci.Common().Args[0].(*ssa.ChangeType); ok && ct.X == ssa.Value(rh) || ci.Common().Args[0] == ssa.Value(rh) {
				okZero = true
			}
		}
		for _, ci := range callsTo(fn, "z.node.setNumKeys") {
			a := ci.Common().Args
			t := tb.T(a[1]).String()
			if len(nn) == 1 && a[0] == ssa.Value(nn[0].(*ssa.Call)) && t == "sub(global[maxKeys],"+half+")" {
				okR = true
			}
			if a[0] == rh.X && t == half {
				okL = true
			}
		}
		L.Check(okCopy && okZero && okR && okL, "R-C10-SPLIT", "Tree.split", "right = n[2h:2·maxKeys] (maxKeys−h keys), zeroed in n, which keeps h = maxKeys/2 keys: counts add up to maxKeys",
			fmt.Sprintf("split does not conserve the keys (copy right half:%v zero it:%v right count maxKeys−h:%v left count h:%v)", okCopy, okZero, okR, okL), rh.Pos())
	})
	c.Group("R-C10-SPLIT", "Tree.Set#rootsplit", func() {
		fn := P.Fn("z", "Tree", "Set")
		L.Analysed(fname(fn))
		tb := newTB(fn)
		whole := "call[z.keyOffset](global[maxKeys])"
		okCopy, okCnt, okZero, okEmpty := false, false, false, false
		nSets := 0
		for _, ci := range builtinCalls(fn, "copy") {
			if Match("slice(call[z.Tree.newNode](_,_),_,"+whole+",_)", tb.T(ci.Call.Args[0]), nil) && Match("call[z.Tree.node](p[0],c[1])", tb.T(ci.Call.Args[1]), nil) {
				okCopy = true
			}
		}
		for _, ci := range callsTo(fn, "z.node.setNumKeys") {
			a := ci.Common().Args
			if Match("call[z.Tree.newNode](_,_)", tb.T(a[0]), nil) && Match("call[z.node.numKeys](call[z.Tree.node](p[0],c[1]))", tb.T(a[1]), nil) {
				okCnt = true
			}
			if Match("call[z.Tree.node](p[0],c[1])", tb.T(a[0]), nil) && isConst(a[1], "0") {
				okEmpty = true
			}
		}
		for _, ci := range callsTo(fn, "z.zeroOut") {
			if Match("slice(call[z.Tree.node](p[0],c[1]),_,"+whole+",_)", tb.T(ci.Common().Args[0]), nil) {
				okZero = true
			}
		}
		for _, ci := range callsTo(fn, "z.node.set") {
			a := ci.Common().Args
			env := Env{}
			if Match("call[z.Tree.node](p[0],c[1])", tb.T(a[0]), nil) && Match("call[z.node.maxKey](?c)", tb.T(a[1]), env) && Match("call[z.node.pageID](?c)", tb.T(a[2]), env) {
				nSets++
			}
		}
		L.Check(okCopy && okCnt && okZero && okEmpty && nSets == 2, "R-C10-SPLIT", "Tree.Set#rootsplit", "left := copy of the whole root with its key count; root emptied; root.set(child.maxKey(), child.pageID()) for exactly the two children",
			fmt.Sprintf("root split shape is wrong (copy:%v count:%v zero:%v empty:%v child links:%d)", okCopy, okCnt, okZero, okEmpty, nSets), fn.Pos())
	})

	// ---- R-C10-CMP
	c.Group("R-C10-CMP", "node.compact", func() {
		fn := P.Fn("z", "node", "compact")
		L.Analysed(fname(fn))
		tb := newTB(fn)
		// the copy (keep) is reachable from the loop body only across: not(val<lo) or not(key<mk)
		var cp *ssa.Call
		for _, ci := range builtinCalls(fn, "copy") {
			cp = ci
		}
		// the write cursor: the counter whose final value becomes the node's key count
		var leftInc ssa.Instruction
		var cursor *ssa.Phi
		for _, ci := range callsTo(fn, "z.node.setNumKeys") {
			if ph, ok := ci.Common().Args[1].(*ssa.Phi); ok {
				cursor = ph
			}
		}
		eachInstr(fn, func(in ssa.Instruction) {
			if bo, ok := in.(*ssa.BinOp); ok && bo.Op == token.ADD && isConst(bo.Y, "1") && cursor != nil && bo.X == ssa.Value(cursor) {
				leftInc = bo
			}
		})
		valLow := "lt(call[z.node.val](p[0],?r),p[1])"
		keyLow := "lt(call[z.node.key](p[0],?r),call[z.node.maxKey](p[0]))"
		keepV := edgesWhere(fn, tb, valLow, nil, false)
		keepK := edgesWhere(fn, tb, keyLow, nil, false)
		dropV := edgesWhere(fn, tb, valLow, nil, true)
		dropK := edgesWhere(fn, tb, keyLow, nil, true)
		if len(keepV) == 0 || len(keepK) == 0 {
			// the conjunction may be materialised first (`skip := val < lo && key < mk; if !skip {…}`): go/ssa
			// gives φ(false, second conjunct) and a branch on the φ. Its true edge means both conjuncts hold,
			// its false edge that one of them fails - exactly the drop / keep sides this rule asks for.
			for _, b := range fn.Blocks {
				iff := lastIf(b)
				if iff == nil {
					continue
				}
				cond := iff.Cond
				neg := false
				for {
					if u, ok := cond.(*ssa.UnOp); ok && u.Op == token.NOT {
						cond, neg = u.X, !neg
						continue
					}
					break
				}
				ph, ok := cond.(*ssa.Phi)
				if !ok || len(ph.Edges) != 2 {
					continue
				}
				var first, second string
				for i, e := range ph.Edges {
					if isConst(e, "false") {
						if pi := lastIf(ph.Block().Preds[i]); pi != nil {
							first = tb.T(pi.Cond).String()
						}
					} else {
						second = tb.T(e).String()
					}
				}
				isV := func(t string) bool { return Match(valLow, mustTerm(tb, fn, t), nil) }
				isK := func(t string) bool { return Match(keyLow, mustTerm(tb, fn, t), nil) }
				if first == "" || second == "" || !((isV(first) && isK(second)) || (isK(first) && isV(second))) {
					continue
				}
				tEdge, fEdge := Edge{b, 0}, Edge{b, 1}
				if neg {
					tEdge, fEdge = fEdge, tEdge
				}
				keepV = map[Edge]bool{fEdge: true}
				keepK = map[Edge]bool{fEdge: true}
				dropV = map[Edge]bool{tEdge: true}
				dropK = map[Edge]bool{tEdge: true}
			}
		}
		if cp == nil || leftInc == nil || len(keepV) == 0 || len(keepK) == 0 {
			L.Fail("R-C10-CMP", "node.compact", "compaction does not test `val < lo && key < maxKey` (strict, both) before dropping an entry", fn.Pos())
			return
		}
		// keeping requires one of the keep edges; dropping (skipping left++) requires both drop edges
		b1, _ := reach(entryPos(fn), isInstr(leftInc), nil, cutSet(keepV, keepK))
		// a path from the loop test that skips left++ and returns to the header must cross both drop edges
		var hdr *ssa.If
		for _, b := range fn.Blocks {
			if iff := lastIf(b); iff != nil && condPolarity(tb.T(iff.Cond), "lt(_,call[z.node.numKeys](p[0]))", nil) != 0 {
				hdr = iff
			}
		}
		okDrop := hdr != nil
		if hdr != nil {
			body := hdr.Block().Succs[0]
			for _, cut := range []map[Edge]bool{dropV, dropK} {
				if b, _ := reach(Pos{body, 0}, isInstr(hdr), isInstr(leftInc), cutSet(cut)); b != nil {
					okDrop = false
				}
			}
		}
		L.Check(b1 == nil && okDrop, "R-C10-CMP", "node.compact", "an entry is dropped iff val < lo && key < maxKey (both strict): the node's max key always survives", "an entry can be kept/dropped under a different condition than `val < lo && key < maxKey` (strict): DeleteBelow would remove a key whose value is not below ts, or lose the routing key", fn.Pos())
	})
	c.Group("R-C10-CMP", "Tree.compact#threshold", func() {
		fn := P.Fn("z", "Tree", "compact")
		tb := newTB(fn)
		leaf := edgesWhere(fn, tb, "call[z.node.isLeaf](p[1])", nil, true)
		okLeaf, okInner := false, false
		for _, ci := range callsTo(fn, "z.node.compact") {
			a := ci.Common().Args
			if a[0] != ssa.Value(fn.Params[1]) {
				continue
			}
			onLeaf, _ := reach(entryPos(fn), isInstr(ci.(ssa.Instruction)), nil, cutSet(leaf))
			if tb.T(a[1]).String() == "p[2]" && onLeaf == nil {
				okLeaf = true
			}
			if isConst(a[1], "1") && onLeaf != nil {
				okInner = true
			}
		}
		L.Check(okLeaf && okInner, "R-C10-CMP", "Tree.compact#threshold", "leaves compact with ts, inner nodes with 1 (drop only child slots that were zeroed)", "leaves/inner nodes are not compacted with ts / 1 respectively", fn.Pos())
	})
	c.Group("R-C10-CMP", "Tree.IterateKV", func() {
		outer := P.Fn("z", "Tree", "IterateKV")
		if len(outer.AnonFuncs) != 1 {
			L.Undecided("R-C10-CMP", "Tree.IterateKV", "closure not found", outer.Pos())
			return
		}
		fn := outer.AnonFuncs[0]
		tb := newTB(fn)
		var cb *ssa.Call
		for _, ci := range allCalls(fn) {
			if cl, ok := ci.(*ssa.Call); ok && calleeName(&cl.Call) == "dyn" {
				cb = cl
			}
		}
		if cb == nil {
			L.Fail("R-C10-CMP", "Tree.IterateKV", "the callback is never invoked", fn.Pos())
			return
		}
		live := edgesWhere(fn, tb, "eq(call[z.node.val](p[0],?i),c[0])", nil, false)
		leaf := edgesWhere(fn, tb, "call[z.node.isLeaf](p[0])", nil, true)
		b1, _ := reach(entryPos(fn), isInstr(cb), nil, cutSet(live))
		b2, _ := reach(entryPos(fn), isInstr(cb), nil, cutSet(leaf))
		rng := false
		for _, b := range fn.Blocks {
			if iff := lastIf(b); iff != nil && condPolarity(tb.T(iff.Cond), "lt(_,call[z.node.numKeys](p[0]))", nil) != 0 {
				rng = true
			}
		}
		okArgs := Match("call[z.node.key](p[0],?i)", tb.T(cb.Call.Args[0]), nil) && Match("call[z.node.val](p[0],?i)", tb.T(cb.Call.Args[1]), nil)
		// val==0 only skips (continue), never ends the loop: the skip edge leads back to the loop, not to return
		L.Check(b1 == nil && b2 == nil && rng && okArgs && len(live) > 0, "R-C10-CMP", "Tree.IterateKV", "visits (key(i), val(i)) for i < numKeys of leaves, skipping exactly val == 0", "IterateKV does not visit exactly the entries with val != 0 of leaf nodes over [0, numKeys)", cb.Pos())
	})
	c.Group("R-C10-CMP", "node.get", func() {
		fn := P.Fn("z", "node", "get")
		tb := newTB(fn)
		idx := "call[z.node.search](p[0],p[1])"
		inRange := edgesWhere(fn, tb, "eq("+idx+",call[z.node.numKeys](p[0]))", nil, false)
		same := edgesWhere(fn, tb, "eq(call[z.node.key](p[0],"+idx+"),p[1])", nil, true)
		ok, n := len(inRange) > 0 && len(same) > 0, 0
		for _, r := range returnsOf(fn) {
			t := tb.T(returnValues(r)[0]).String()
			if t == "c[0]" {
				continue
			}
			n++
			if t != "call[z.node.val](p[0],"+idx+")" {
				ok = false
			}
			for _, cut := range []map[Edge]bool{inRange, same} {
				if b, _ := reach(entryPos(fn), isInstr(r), nil, cutSet(cut)); b != nil {
					ok = false
				}
			}
		}
		L.Check(ok && n == 1, "R-C10-CMP", "node.get", "returns val(idx) only when idx != numKeys and key(idx) == k, else 0", "node.get can return a value for a key that is not k (or read past numKeys)", fn.Pos())
	})
	c.Group("R-C10-CMP", "node.search#small", func() {
		fn := P.Fn("z", "node", "search")
		tb := newTB(fn)
		hit := edgesWhere(fn, tb, "le(p[1],call[z.node.key](p[0],?i))", nil, true)
		ok := len(hit) > 0
		for e := range hit {
			tgt := e.From.Succs[e.Succ]
			ret, isR := tgt.Instrs[len(tgt.Instrs)-1].(*ssa.Return)
			if !isR {
				ok = false
				continue
			}
			iff := lastIf(e.From)
			env := Env{}
			condPolarity(tb.T(iff.Cond), "le(p[1],call[z.node.key](p[0],?i))", env)
			if env["i"] == nil || tb.T(returnValues(ret)[0]).String() != env["i"].String() {
				ok = false
			}
		}
		L.Check(ok, "R-C10-CMP", "node.search#small", "small nodes: first i with key(i) >= k (unsigned), returns that i", "the small-node scan does not return the first index with key(i) >= k", fn.Pos())
	})

	// ---- R-C10-DOMAIN
	for _, name := range []string{"Set", "Get"} {
		name := name
		c.Group("R-C10-DOMAIN", "Tree."+name, func() {
			fn := P.Fn("z", "Tree", name)
			tb := newTB(fn)
			okMax := edgesWhere(fn, tb, "eq(p[1],c[18446744073709551615])", nil, false)
			okZero := edgesWhere(fn, tb, "eq(p[1],c[0])", nil, false)
			touch := func(in ssa.Instruction) bool {
				cl, ok := in.(*ssa.Call)
				return ok && strings.HasPrefix(calleeName(&cl.Call), "z.Tree.")
			}
			b1, _ := reach(entryPos(fn), touch, nil, cutSet(okMax))
			b2, _ := reach(entryPos(fn), touch, nil, cutSet(okZero))
			L.Check(b1 == nil && b2 == nil && len(okMax) > 0 && len(okZero) > 0, "R-C10-DOMAIN", "Tree."+name, "k == 0 and k == MaxUint64 are rejected before the tree is touched", "the tree is touched for k == 0 or k == MaxUint64 (0 marks an empty slot, MaxUint64 collides with the sentinel)", fn.Pos())
		})
	}

	// ---- R-C10-SEARCHARG
	c.Group("R-C10-SEARCHARG", "node.search", func() {
		fn := P.Fn("z", "node", "search")
		tb := newTB(fn)
		cs := callsTo(fn, "simd.Search")
		ok := len(cs) == 1 && Match("slice(p[0],_,mul(c[2],call[z.node.numKeys](p[0])),_)", tb.T(cs[0].Common().Args[0]), nil)
		L.Check(ok, "R-C10-SEARCHARG", "node.search", "simd.Search(n[:2*numKeys], k)", "node.search does not pass exactly n[:2*numKeys] to simd.Search", fn.Pos())
	})
}

// mustTerm finds the term of the value in fn whose term string is t (used to re-match a pattern
// against a condition that was first seen as a string).
func mustTerm(tb *TB, fn *ssa.Function, t string) *Term {
	var out *Term
	eachInstr(fn, func(in ssa.Instruction) {
		if v, ok := in.(ssa.Value); ok && out == nil {
			if tt := tb.T(v); tt.String() == t {
				out = tt
			}
		}
	})
	return out
}
