package main

import (
	"golang.org/x/tools/go/ssa"
)

// Shared analysis A1: path queries over the SSA control-flow graph at instruction
// granularity. All queries are "for every path" statements decided by graph search.

type Pos struct {
	B *ssa.BasicBlock
	I int
}

type Edge struct {
	From *ssa.BasicBlock
	Succ int
}

func posOf(in ssa.Instruction) Pos {
	b := in.Block()
	for i, x := range b.Instrs {
		if x == in {
			return Pos{b, i}
		}
	}
	panic("instruction not in its block")
}

func after(in ssa.Instruction) Pos { p := posOf(in); return Pos{p.B, p.I + 1} }

func entryPos(fn *ssa.Function) Pos { return Pos{fn.Blocks[0], 0} }

// reach searches forward from start. A path ends (without a hit) at an instruction for
// which stop is true or at an edge for which cut is true. It returns the first instruction
// for which target is true together with the block path leading to it.
func reach(start Pos, target, stop func(ssa.Instruction) bool, cut func(Edge) bool) (ssa.Instruction, []*ssa.BasicBlock) {
	type item struct {
		p    Pos
		path []*ssa.BasicBlock
	}
	visited := map[*ssa.BasicBlock]bool{}
	work := []item{{start, []*ssa.BasicBlock{start.B}}}
	for len(work) > 0 {
		it := work[0]
		work = work[1:]
		b := it.p.B
		stopped := false
		for i := it.p.I; i < len(b.Instrs); i++ {
			in := b.Instrs[i]
			if target != nil && target(in) {
				return in, it.path
			}
			if stop != nil && stop(in) {
				stopped = true
				break
			}
		}
		if stopped {
			continue
		}
		for si, s := range b.Succs {
			if cut != nil && cut(Edge{b, si}) {
				continue
			}
			if visited[s] {
				continue
			}
			visited[s] = true
			np := append(append([]*ssa.BasicBlock{}, it.path...), s)
			work = append(work, item{Pos{s, 0}, np})
		}
	}
	return nil, nil
}

func isReturn(in ssa.Instruction) bool { _, ok := in.(*ssa.Return); return ok }
func isPanic(in ssa.Instruction) bool  { _, ok := in.(*ssa.Panic); return ok }

// mustPass: every path from `from` to a Return passes an instruction satisfying goal
// (paths ending in panic are ignored). Returns the offending Return and path, or nil.
func mustPass(from Pos, goal func(ssa.Instruction) bool, cut func(Edge) bool) (ssa.Instruction, []*ssa.BasicBlock) {
	return reach(from, isReturn, goal, cut)
}

// instrDominates: a is executed before b on every path from entry to b.
func instrDominates(a, b ssa.Instruction) bool {
	if a.Block() == b.Block() {
		return posOf(a).I < posOf(b).I
	}
	return a.Block().Dominates(b.Block())
}

// canReach: is there a path from just after a to b.
func canReach(a, b ssa.Instruction) bool {
	in, _ := reach(after(a), func(x ssa.Instruction) bool { return x == b }, nil, nil)
	return in != nil
}

func pathString(path []*ssa.BasicBlock) string {
	s := ""
	for i, b := range path {
		if i > 0 {
			s += "→"
		}
		s += itoa(b.Index)
	}
	return s
}

func itoa(i int) string {
	if i == 0 {
		return "0"
	}
	neg := i < 0
	if neg {
		i = -i
	}
	var d []byte
	for i > 0 {
		d = append([]byte{byte('0' + i%10)}, d...)
		i /= 10
	}
	if neg {
		return "-" + string(d)
	}
	return string(d)
}

// eachInstr visits all instructions of fn (not of nested closures).
func eachInstr(fn *ssa.Function, f func(ssa.Instruction)) {
	for _, b := range fn.Blocks {
		for _, in := range b.Instrs {
			f(in)
		}
	}
}

// condPolarity decides whether the branch condition `cond` expresses the pattern `pat`
// (+1), its negation (-1) or neither (0). Negation forms understood: not(x); eq vs ne;
// lt(a,b) vs le(b,a).
func condPolarity(cond *Term, pat string, env Env) int {
	sign := 1
	for cond.Op == "not" {
		cond = cond.Args[0]
		sign = -sign
	}
	if Match(pat, cond, env) {
		return sign
	}
	// try the mirrored operator
	var flipped *Term
	switch cond.Op {
	case "eq":
		flipped = mk("ne", "", nil, cond.Args...)
	case "ne":
		flipped = mk("eq", "", nil, cond.Args...)
	case "lt":
		flipped = mk("le", "", nil, cond.Args[1], cond.Args[0])
	case "le":
		flipped = mk("lt", "", nil, cond.Args[1], cond.Args[0])
	}
	if flipped != nil && Match(pat, flipped, env) {
		return -sign
	}
	return 0
}

// edgesWhere returns, for every If in fn whose condition expresses pat (or its
// negation), the edge on which pat holds (want=true) or does not hold (want=false).
func edgesWhere(fn *ssa.Function, tb *TB, pat string, env Env, want bool) map[Edge]bool {
	out := map[Edge]bool{}
	for _, b := range fn.Blocks {
		if len(b.Instrs) == 0 {
			continue
		}
		iff, ok := b.Instrs[len(b.Instrs)-1].(*ssa.If)
		if !ok {
			continue
		}
		var e Env
		if env != nil {
			e = env.clone()
		}
		pol := condPolarity(tb.T(iff.Cond), pat, e)
		if pol == 0 {
			continue
		}
		// Succs[0] is taken when cond is true.
		holdsOnTrue := pol > 0
		if holdsOnTrue == want {
			out[Edge{b, 0}] = true
		} else {
			out[Edge{b, 1}] = true
		}
	}
	return out
}

func cutSet(sets ...map[Edge]bool) func(Edge) bool {
	return func(e Edge) bool {
		for _, s := range sets {
			if s[e] {
				return true
			}
		}
		return false
	}
}

// ifsMatching lists the If instructions whose condition expresses pat (either polarity).
func ifsMatching(fn *ssa.Function, tb *TB, pat string, env Env) []*ssa.If {
	var out []*ssa.If
	for _, b := range fn.Blocks {
		if len(b.Instrs) == 0 {
			continue
		}
		if iff, ok := b.Instrs[len(b.Instrs)-1].(*ssa.If); ok {
			var e Env
			if env != nil {
				e = env.clone()
			}
			if condPolarity(tb.T(iff.Cond), pat, e) != 0 {
				out = append(out, iff)
			}
		}
	}
	return out
}

// callsTo lists the call instructions (Call, Defer, Go) in fn whose callee description
// equals name.
func callsTo(fn *ssa.Function, name string) []ssa.CallInstruction {
	var out []ssa.CallInstruction
	eachInstr(fn, func(in ssa.Instruction) {
		if c, ok := in.(ssa.CallInstruction); ok {
			if calleeName(c.Common()) == name {
				out = append(out, c)
			}
		}
	})
	return out
}

// dynCallsVia lists dynamic calls in fn whose function value matches the pattern.
func dynCallsVia(fn *ssa.Function, tb *TB, fnPat string) []ssa.CallInstruction {
	var out []ssa.CallInstruction
	eachInstr(fn, func(in ssa.Instruction) {
		if c, ok := in.(ssa.CallInstruction); ok {
			cc := c.Common()
			if !cc.IsInvoke() && calleeName(cc) == "dyn" && Match(fnPat, tb.T(cc.Value), nil) {
				out = append(out, c)
			}
		}
	})
	return out
}

func isInstr(target ssa.Instruction) func(ssa.Instruction) bool {
	return func(x ssa.Instruction) bool { return x == target }
}

func isAnyInstr[T ssa.Instruction](targets []T) func(ssa.Instruction) bool {
	set := map[ssa.Instruction]bool{}
	for _, t := range targets {
		set[t] = true
	}
	return func(x ssa.Instruction) bool { return set[x] }
}
