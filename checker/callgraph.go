package main

import (
	"strings"

	"golang.org/x/tools/go/ssa"
)

// Shared analysis A9: call-graph reachability inside the module. Callees are resolved by
// identity: static calls; invokes on the store interface go to shardedMap (the single
// implementation, asserted); ringConsumer.Push goes to defaultPolicy.Push; dynamic calls
// through the Cache callback fields go to the closures NewCache assigns; closures called
// or created in a function are considered called by it; go/defer count as calls. Calls
// into user-supplied functions (Config callbacks, KeyToHash, Cost, ShouldUpdate, cb) leave
// the module and are not followed.
type CallGraph struct {
	P     *Prog
	edges map[*ssa.Function][]*ssa.Function
}

func buildCallGraph(P *Prog) *CallGraph {
	g := &CallGraph{P: P, edges: map[*ssa.Function][]*ssa.Function{}}
	ifaceImpl := map[string]string{"store": "shardedMap", "ringConsumer": "defaultPolicy"}
	fieldClosure := map[string]*ssa.Function{}
	if nc := P.FnOpt("ristretto", "", "NewCache"); nc != nil {
		for _, f := range []string{"onExit", "onEvict", "onReject"} {
			for _, st := range fieldStoresIn(nc, "Cache", f) {
				if mc, ok := st.Val.(*ssa.MakeClosure); ok {
					fieldClosure[f] = mc.Fn.(*ssa.Function)
				}
			}
		}
	}
	for _, fn := range P.SrcFuncs {
		tb := newTB(fn)
		add := func(callee *ssa.Function) {
			if callee != nil {
				g.edges[fn] = append(g.edges[fn], origin(callee))
			}
		}
		for _, a := range fn.AnonFuncs {
			add(a) // created here: conservatively callable from here
		}
		for _, ci := range allCalls(fn) {
			cc := ci.Common()
			if cc.IsInvoke() {
				if impl, ok := ifaceImpl[recvName(cc.Value.Type())]; ok {
					add(P.FnOpt("ristretto", impl, cc.Method.Name()))
				}
				continue
			}
			if sc := staticCallee(cc); sc != nil {
				if isModuleFunc(sc) {
					add(sc)
				}
				continue
			}
			if mc, ok := cc.Value.(*ssa.MakeClosure); ok {
				add(mc.Fn.(*ssa.Function))
				continue
			}
			t := tb.T(cc.Value)
			for f, cl := range fieldClosure {
				if Match("fld["+f+"](_)", t, nil) {
					add(cl)
				}
			}
			// function-typed parameters/free variables bound to module closures are followed via AnonFuncs
			// and: arguments that are module functions/closures passed to callees
		}
		// function values passed as arguments (e.g. c.onEvict handed to store.Clear)
		for _, ci := range allCalls(fn) {
			for _, a := range ci.Common().Args {
				t := tb.T(a)
				for f, cl := range fieldClosure {
					if Match("fld["+f+"](_)", t, nil) {
						add(cl)
					}
				}
				if mc, ok := a.(*ssa.MakeClosure); ok {
					add(mc.Fn.(*ssa.Function))
				}
			}
		}
	}
	return g
}

// Reaches returns a call path from root to a function satisfying target, or nil.
func (g *CallGraph) Reaches(root *ssa.Function, target func(*ssa.Function) bool) []*ssa.Function {
	type item struct {
		f    *ssa.Function
		path []*ssa.Function
	}
	seen := map[*ssa.Function]bool{root: true}
	work := []item{{root, []*ssa.Function{root}}}
	for len(work) > 0 {
		it := work[0]
		work = work[1:]
		if target(it.f) {
			return it.path
		}
		for _, c := range g.edges[it.f] {
			if !seen[c] {
				seen[c] = true
				work = append(work, item{c, append(append([]*ssa.Function{}, it.path...), c)})
			}
		}
	}
	return nil
}

func callPathString(p []*ssa.Function) string {
	var s []string
	for _, f := range p {
		s = append(s, fname(f))
	}
	return strings.Join(s, " → ")
}
