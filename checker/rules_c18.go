package main

import (
	"fmt"
	"go/types"
	"strconv"
	"strings"

	"golang.org/x/tools/go/ssa"
)

func init() {
	register(&PropCheck{
		ID: "C18",
		Explanation: "Decides the addressing/constant agreement behind 'estimates never under-count, saturate, and age by halving': " +
			"(R-C18-NIBBLE) cmRow.get and cmRow.increment address the same byte n/2 and the same shift (n&1)*w; get masks with 2^w−1; increment's saturation guard tests that same nibble against that same mask value and adds 1<<shift to that same byte only on the pass side (two nibbles of width w fill the byte); " +
			"(R-C18-HALVE) cmRow.reset stores for every index (r[i]>>1)&M where, by a bit-dependency analysis of the constant expression, each output nibble depends only on the same input nibble shifted right by one with its top bit cleared; cmRow.clear stores 0 for every index; cmSketch.Reset/Clear visit every row and cmRow is a slice type (value ranging shares the bytes); " +
			"(R-C18-SIZE) in newCmSketch the value N = next2Power(numCounters) is used for mask = N−1 and for every newCmRow(N), which allocates N/2 bytes; next2Power is the complete bit-smearing sequence (shifts 1,2,4,8,16,32 between decrement and increment); " +
			"(R-C18-INDEX) Increment and Estimate compute the counter index of row i with the same expression (hashed ^ seed[i]) & mask over all rows; Estimate is a running minimum with < starting at 255; " +
			"(R-C18-TINYLFU) tinyLFU.Increment: door.AddIfNotHas(key), freq.Increment(key) exactly when the bit was already set, incrs++ on every path, reset() exactly when incrs >= resetAt; reset = incrs:=0, door.Clear(), freq.Reset(); clear zeroes everything; resetAt is the constructor's numCounters. " +
			"NOT decided: estimate ≥ min(n,15) as a statement about sequences; doorkeeper false positives.",
		Run: runC18,
	})
}

// bitDeps computes, for an expression over one byte-sized input value `in`, which input
// bits each output bit may depend on (A8). Supported: shr/shl by constant, and/or with
// constant, the input itself. ok=false for anything else.
func bitDeps(t *Term, in string, width int) ([]map[int]bool, bool) {
	if t.String() == in {
		out := make([]map[int]bool, width)
		for i := range out {
			out[i] = map[int]bool{i: true}
		}
		return out, true
	}
	constOf := func(x *Term) (uint64, bool) {
		if x.Op != "c" {
			return 0, false
		}
		v, err := strconv.ParseUint(x.Sym, 10, 64)
		return v, err == nil
	}
	if len(t.Args) != 2 {
		return nil, false
	}
	a, b := t.Args[0], t.Args[1]
	switch t.Op {
	case "shr", "shl":
		k, ok := constOf(b)
		d, ok2 := bitDeps(a, in, width)
		if !ok || !ok2 {
			return nil, false
		}
		out := make([]map[int]bool, width)
		for i := range out {
			out[i] = map[int]bool{}
			src := i + int(k)
			if t.Op == "shl" {
				src = i - int(k)
			}
			if src >= 0 && src < width {
				out[i] = d[src]
			}
		}
		return out, true
	case "and", "or":
		m, okA := constOf(a)
		x := b
		if !okA {
			m, okA = constOf(b)
			x = a
		}
		d, ok2 := bitDeps(x, in, width)
		if !okA || !ok2 {
			return nil, false
		}
		out := make([]map[int]bool, width)
		for i := range out {
			bit := m>>uint(i)&1 == 1
			if t.Op == "and" && !bit || t.Op == "or" && bit {
				out[i] = map[int]bool{} // forced constant
			} else {
				out[i] = d[i]
			}
		}
		return out, true
	}
	return nil, false
}

func runC18(c *Ctx) {
	L, P := c.L, c.P
	L.Rule("R-C18-NIBBLE", "get/increment agree on byte, shift and mask; saturation guard on the same nibble with the mask value; add 1<<shift only on the pass side", 3)
	L.Rule("R-C18-HALVE", "reset halves each nibble independently (bit-dependency of the constant expression) for every index; clear zeroes every index; all rows visited; cmRow is a slice", 5)
	L.Rule("R-C18-SIZE", "mask and rows sized from the same next2Power value; rows hold N/2 bytes; next2Power is the full bit-smearing sequence", 3)
	L.Rule("R-C18-INDEX", "Increment/Estimate use the same row index expression over all rows; Estimate = running min (<) from 255", 3)
	L.Rule("R-C18-TINYLFU", "tinyLFU.Increment/reset/clear sequencing; resetAt = numCounters; policy.Clear uses clear (not reset); the doorkeeper's Clear zeroes every word", 6)

	nibbleRule(c, "R-C18-NIBBLE")

	// ---- R-C18-HALVE
	c.Group("R-C18-HALVE", "cmRow.reset", func() {
		fn := P.Fn("ristretto", "cmRow", "reset")
		L.Analysed(fname(fn))
		tb := newTB(fn)
		var st *ssa.Store
		eachInstr(fn, func(in ssa.Instruction) {
			if s, ok := in.(*ssa.Store); ok {
				if _, isIdx := s.Addr.(*ssa.IndexAddr); isIdx {
					st = s
				}
			}
		})
		if st == nil {
			L.Fail("R-C18-HALVE", "cmRow.reset", "reset stores nothing into the row", fn.Pos())
			return
		}
		cell := tb.pointee(st.Addr).String()
		deps, ok := bitDeps(tb.T(st.Val), cell, 8)
		if !ok {
			L.Undecided("R-C18-HALVE", "cmRow.reset", "halving expression "+tb.T(st.Val).String()+" is outside the shift/mask idiom", st.Pos())
			return
		}
		w := 4
		var problems []string
		for k := 0; k < 8; k++ {
			nibble := k / w
			want := map[int]bool{}
			if k%w != w-1 {
				want[k+1] = true // halving: bit k comes from bit k+1 of the same nibble
			}
			got := deps[k]
			same := len(got) == len(want)
			for b := range got {
				if !want[b] {
					same = false
				}
				if b/w != nibble {
					problems = append(problems, fmt.Sprintf("output bit %d (counter %d) depends on input bit %d of the other counter", k, nibble, b))
				}
			}
			if !same && len(problems) == 0 {
				problems = append(problems, fmt.Sprintf("output bit %d depends on %v, want %v", k, keysInt(got), keysInt(want)))
			}
		}
		// every index: one loop over the whole row from index 0 (range or index form), the store addressing the
		// loop's own index, no other exit, and no second way of writing the row (a word-wise fast path with
		// its own bounds is outside what this rule can vouch for)
		whole := false
		for _, lp := range rangeLoopsOf(fn) {
			if tb.T(lp.Slice).String() == "p[0]" && lp.Whole() && lp.Blocks()[st.Block()] {
				if ia, ok := st.Addr.(*ssa.IndexAddr); ok && tb.T(ia.Index).String() == tb.T(lp.Index).String() {
					whole = true
				}
			}
		}
		nWrites := 0
		eachInstr(fn, func(in ssa.Instruction) {
			switch x := in.(type) {
			case *ssa.Store:
				if _, isAlloc := x.Addr.(*ssa.Alloc); !isAlloc {
					nWrites++
				}
			case *ssa.Call:
				if b, ok := x.Call.Value.(*ssa.Builtin); ok && b.Name() == "copy" {
					nWrites++
				}
			}
		})
		if nWrites != 1 {
			whole = false
		}
		if len(problems) > 0 {
			L.Fail("R-C18-HALVE", "cmRow.reset", "halving "+tb.T(st.Val).String()+" does not keep the two counters of a byte independent: "+strings.Join(problems, "; "), st.Pos())
		} else {
			L.Check(whole, "R-C18-HALVE", "cmRow.reset", "every byte: each counter := counter>>1, no bit crosses between the two counters", "reset does not cover every index of the row", st.Pos())
		}
	})
	c.Group("R-C18-HALVE", "cmRow.clear", func() {
		fn := P.Fn("ristretto", "cmRow", "clear")
		tb := newTB(fn)
		ok := false
		eachInstr(fn, func(in ssa.Instruction) {
			if s, isS := in.(*ssa.Store); isS && isConst(s.Val, "0") {
				if _, isIdx := s.Addr.(*ssa.IndexAddr); isIdx {
					if again, _ := reach(after(s), isInstr(s), nil, nil); again != nil {
						ok = true
					}
				}
			}
		})
		whole := false
		for _, b := range fn.Blocks {
			if iff := lastIf(b); iff != nil && condPolarity(tb.T(iff.Cond), "lt(_,call[len](p[0]))", nil) != 0 {
				whole = true
			}
		}
		L.Check(ok && whole, "R-C18-HALVE", "cmRow.clear", "every byte := 0", "clear does not zero every index", fn.Pos())
	})
	for _, pr := range [][2]string{{"Reset", "cmRow.reset"}, {"Clear", "cmRow.clear"}} {
		pr := pr
		c.Group("R-C18-HALVE", "cmSketch."+pr[0], func() {
			fn := P.Fn("ristretto", "cmSketch", pr[0])
			tb := newTB(fn)
			depth := P.Const("ristretto", "cmDepth").Value.Value.ExactString()
			cs := callsTo(fn, pr[1])
			ok := len(cs) == 1
			if ok {
				t := tb.T(cs[0].Common().Args[0])
				ok = Match("idx(fld[rows](p[0]),_)", t, nil)
				loop := false
				for _, b := range fn.Blocks {
					if iff := lastIf(b); iff != nil && condPolarity(tb.T(iff.Cond), "lt(_,c["+depth+"])", nil) != 0 {
						loop = true
					}
				}
				ok = ok && loop
			}
			L.Check(ok, "R-C18-HALVE", "cmSketch."+pr[0], "applies "+pr[1]+" to every one of the cmDepth rows", "does not apply "+pr[1]+" to every row of the sketch", fn.Pos())
		})
	}
	c.Group("R-C18-HALVE", "cmRow#type", func() {
		t := P.Named("ristretto", "cmRow")
		_, isSlice := t.Underlying().(*types.Slice)
		L.Check(isSlice, "R-C18-HALVE", "cmRow#type", "cmRow is a slice: Reset/Clear ranging over rows by value still mutate the shared bytes", "cmRow is no longer a slice type: cmSketch.Reset/Clear range over copies and change nothing", 0)
	})

	// ---- R-C18-SIZE
	c.Group("R-C18-SIZE", "newCmSketch", func() {
		fn := P.Fn("ristretto", "", "newCmSketch")
		L.Analysed(fname(fn))
		tb := newTB(fn)
		N := "call[next2Power](p[0])"
		okMask := false
		for _, st := range fieldStoresIn(fn, "cmSketch", "mask") {
			if tb.T(st.Val).String() == "conv[uint64](sub("+N+",c[1]))" {
				okMask = true
			}
		}
		rows := callsTo(fn, "newCmRow")
		okRows := len(rows) == 1 && tb.T(rows[0].Common().Args[0]).String() == N
		depth := P.Const("ristretto", "cmDepth").Value.Value.ExactString()
		loop := false
		for _, b := range fn.Blocks {
			if iff := lastIf(b); iff != nil && condPolarity(tb.T(iff.Cond), "lt(_,c["+depth+"])", nil) != 0 {
				loop = true
			}
		}
		L.Check(okMask && okRows && loop, "R-C18-SIZE", "newCmSketch", "mask = next2Power(n)−1 and every row = newCmRow(next2Power(n)), same value",
			fmt.Sprintf("mask and rows are not sized from the same next2Power(numCounters) value (mask ok:%v rows ok:%v all rows:%v): masked indexes can exceed the rows", okMask, okRows, loop), fn.Pos())
	})
	c.Group("R-C18-SIZE", "newCmRow", func() {
		fn := P.Fn("ristretto", "", "newCmRow")
		tb := newTB(fn)
		ok := false
		for _, r := range returnsOf(fn) {
			if Match("make(quo(p[0],c[2]),quo(p[0],c[2]))", tb.T(returnValues(r)[0]), nil) {
				ok = true
			}
		}
		L.Check(ok, "R-C18-SIZE", "newCmRow", "allocates numCounters/2 bytes (two counters per byte)", "newCmRow does not allocate numCounters/2 bytes", fn.Pos())
	})
	c.Group("R-C18-SIZE", "next2Power", func() {
		fn := P.Fn("ristretto", "", "next2Power")
		tb := newTB(fn)
		rs := returnsOf(fn)
		if len(rs) != 1 {
			L.Undecided("R-C18-SIZE", "next2Power", "expected one return", fn.Pos())
			return
		}
		// peel: add(T6,1); Tk+1 = or(Tk, shr(Tk, 2^k)); T0 = sub(p0,1)
		t := tb.T(returnValues(rs[0])[0])
		env := Env{}
		if !Match("add(c[1],?x)", t, env) {
			L.Fail("R-C18-SIZE", "next2Power", "result is "+t.String()+", want smear(x−1)+1", rs[0].Pos())
			return
		}
		cur := env["x"]
		var shifts []string
		for cur.Op == "or" {
			e := Env{}
			if Match("or(?a,shr(?a,?k))", cur, e) && e["k"].Op == "c" {
				shifts = append([]string{e["k"].Sym}, shifts...)
				cur = e["a"]
			} else {
				break
			}
		}
		ok := strings.Join(shifts, ",") == "1,2,4,8,16,32" && cur.String() == "sub(p[0],c[1])"
		L.Check(ok, "R-C18-SIZE", "next2Power", "(x−1) smeared with shifts 1,2,4,8,16,32, then +1",
			"next2Power smears with shifts {"+strings.Join(shifts, ",")+"} over "+cur.String()+"; want 1,2,4,8,16,32 over x−1: for some NumCounters the table size is not a power of two and mask = size−1 is not contiguous", rs[0].Pos())
	})

	// ---- R-C18-INDEX
	c.Group("R-C18-INDEX", "cmSketch.Increment/Estimate", func() {
		inc := P.Fn("ristretto", "cmSketch", "Increment")
		est := P.Fn("ristretto", "cmSketch", "Estimate")
		L.Analysed(fname(inc), fname(est))
		ti, te := newTB(inc), newTB(est)
		depth := P.Const("ristretto", "cmDepth").Value.Value.ExactString()
		shape := func(fn *ssa.Function, tb *TB, callee string) (string, bool) {
			cs := callsTo(fn, callee)
			if len(cs) != 1 {
				return "", false
			}
			env := Env{}
			args := cs[0].Common().Args
			if !Match("idx(fld[rows](p[0]),?i)", tb.T(args[0]), env) {
				return "", false
			}
			idxT := tb.T(args[1])
			want := Env{"i": env["i"]}
			if !Match("and(fld[mask](p[0]),xor(p[1],idx(fld[seed](p[0]),?i)))", idxT, want) {
				return idxT.String(), false
			}
			loop := false
			for _, b := range fn.Blocks {
				if iff := lastIf(b); iff != nil && condPolarity(tb.T(iff.Cond), "lt("+env["i"].String()+",c["+depth+"])", nil) != 0 {
					loop = true
				}
			}
			return "(hashed ^ seed[i]) & mask", loop
		}
		si, oki := shape(inc, ti, "cmRow.increment")
		se, oke := shape(est, te, "cmRow.get")
		L.Check(oki, "R-C18-INDEX", "cmSketch.Increment", "row i is incremented at (hashed ^ seed[i]) & mask, for every row", "Increment addresses row i with "+si+" (or not every row)", inc.Pos())
		L.Check(oke, "R-C18-INDEX", "cmSketch.Estimate", "row i is read at (hashed ^ seed[i]) & mask, for every row — the same expression Increment uses", "Estimate addresses row i with "+se+" (or not every row): it would read other counters than Increment writes", est.Pos())
		// running min
		gets := callsTo(est, "cmRow.get")
		okMin := false
		if len(gets) == 1 {
			g := gets[0].(*ssa.Call)
			for _, b := range est.Blocks {
				iff := lastIf(b)
				if iff == nil {
					continue
				}
				env := Env{}
				if condPolarity(te.T(iff.Cond), "lt("+te.T(g).String()+",?m)", env) > 0 {
					if ph, ok := env["m"].V.(*ssa.Phi); ok {
						// leaves of the φ-web the minimum lives in (range loops give one φ, index loops
						// with a post statement two): only the initial 255 and the row value
						init, upd := false, true
						for _, e := range phiLeaves(ph) {
							switch {
							case isConst(e, "255"):
								init = true
							case e == ssa.Value(g):
							default:
								upd = false
							}
						}
						for _, r := range returnsOf(est) {
							if Match("conv("+te.T(ph).String()+")", te.T(returnValues(r)[0]), nil) || strings.Contains(te.T(returnValues(r)[0]).String(), te.T(ph).String()) {
								okMin = init && upd
							}
						}
					}
				}
			}
		}
		if !okMin && len(gets) == 1 {
			// builtin form: m = min(m, row value) with m = φ(255, that min)
			g := gets[0].(*ssa.Call)
			eachInstr(est, func(in ssa.Instruction) {
				cl, ok := in.(*ssa.Call)
				if !ok || calleeName(&cl.Call) != "min" || len(cl.Call.Args) != 2 {
					return
				}
				var ph *ssa.Phi
				hasRow := false
				for _, a := range cl.Call.Args {
					if p2, isPhi := a.(*ssa.Phi); isPhi {
						ph = p2
					}
					if a == ssa.Value(g) {
						hasRow = true
					}
				}
				if ph == nil || !hasRow {
					return
				}
				init, upd := false, true
				for _, e := range phiLeaves(ph) {
					switch {
					case isConst(e, "255"):
						init = true
					case e == ssa.Value(cl):
					default:
						upd = false
					}
				}
				for _, r := range returnsOf(est) {
					if strings.Contains(te.T(returnValues(r)[0]).String(), te.T(ph).String()) {
						okMin = init && upd
					}
				}
			})
		}
		L.Check(okMin, "R-C18-INDEX", "cmSketch.Estimate#min", "estimate = minimum over the rows (strict <, from 255)", "Estimate is not the running minimum (φ(255, itself, row value) with <) over the rows", est.Pos())
	})

	// ---- R-C18-TINYLFU
	c.Group("R-C18-TINYLFU", "tinyLFU.Increment", func() {
		fn := P.Fn("ristretto", "tinyLFU", "Increment")
		L.Analysed(fname(fn))
		tb := newTB(fn)
		paths, _ := explore(fn, tb, ExploreOpts{Start: entryPos(fn)})
		added := "call[z.Bloom.AddIfNotHas](fld[door](p[0]),p[1])"
		ok, n := true, 0
		for _, p := range paths {
			if _, isRet := p.End.(*ssa.Return); !isRet {
				continue
			}
			n++
			nDoor := countCalls(p, tb, added, nil)
			nFreq := countCalls(p, tb, "call[cmSketch.Increment](fld[freq](p[0]),p[1])", nil)
			wasNew := p.CondHeld(tb, added, nil)
			nIncr := p.Count(func(in ssa.Instruction) bool {
				st, isS := in.(*ssa.Store)
				return isS && tb.pointee(st.Addr).String() == "fld[incrs](p[0])" && Match("add(c[1],fld[incrs](p[0]))", tb.T(st.Val), nil)
			})
			due := p.CondHeld(tb, "le(fld[resetAt](p[0]),fld[incrs](p[0]))", nil)
			nReset := countCalls(p, tb, "call[tinyLFU.reset](p[0])", nil)
			if nDoor != 1 || wasNew == 0 || (wasNew == 1 && nFreq != 0) || (wasNew == -1 && nFreq != 1) || nIncr != 1 || due == 0 || (due == 1 && nReset != 1) || (due == -1 && nReset != 0) {
				ok = false
				L.Fail("R-C18-TINYLFU", "tinyLFU.Increment", fmt.Sprintf("path %s: AddIfNotHas=%d newly-added=%d freq.Increment=%d incrs++=%d reset-due=%d reset=%d; want: doorkeeper first, sketch increment only if the bit was already set, one incrs++, reset iff incrs >= resetAt", p.BlockPath(), nDoor, wasNew, nFreq, nIncr, due, nReset), fn.Pos())
			}
		}
		if ok {
			L.Check(n >= 4, "R-C18-TINYLFU", "tinyLFU.Increment", "door.AddIfNotHas; freq.Increment iff already set; incrs++; reset iff incrs >= resetAt", "fewer than four paths", fn.Pos())
		}
	})
	c.Group("R-C18-TINYLFU", "tinyLFU.Push", func() {
		// a batch of accesses is recorded key by key through Increment, so that the aging check
		// (incrs >= resetAt) is made after every single access: a reset that is due in the middle
		// of a batch halves only the counts recorded before it
		fn := P.Fn("ristretto", "tinyLFU", "Push")
		L.Analysed(fname(fn))
		tb := newTB(fn)
		var problems []string
		loops := rangeLoopsOf(fn)
		calls := callsTo(fn, "tinyLFU.Increment")
		if len(loops) != 1 || len(calls) != 1 {
			problems = append(problems, fmt.Sprintf("expected one range loop with one Increment call, found %d loop(s) and %d call(s)", len(loops), len(calls)))
		} else {
			lp, call := loops[0], calls[0]
			if tb.T(lp.Slice).String() != "p[1]" || !lp.Whole() {
				problems = append(problems, "the loop does not visit every key of the batch")
			}
			if !lp.Blocks()[call.Block()] {
				problems = append(problems, "Increment is not called once per key")
			}
			a := call.Common().Args
			if tb.T(a[0]).String() != "p[0]" || tb.T(a[1]).String() != "idx(p[1],"+tb.T(lp.Index).String()+")" {
				problems = append(problems, "Increment is called with "+tb.T(a[1]).String()+", not the ranged key")
			}
		}
		// nothing else touches the aging state here
		eachInstr(fn, func(in ssa.Instruction) {
			switch x := in.(type) {
			case *ssa.Store:
				if fa, ok := x.Addr.(*ssa.FieldAddr); ok && recvName(fa.X.Type()) == "tinyLFU" {
					problems = append(problems, "Push writes tinyLFU."+fieldName(fa.X.Type(), fa.Field)+" itself (the per-access bookkeeping belongs to Increment)")
				}
			case ssa.CallInstruction:
				if n := calleeName(x.Common()); n != "tinyLFU.Increment" && n != "len" && isModuleCall(x) {
					problems = append(problems, "Push calls "+n)
				}
			}
		})
		L.Check(len(problems) == 0, "R-C18-TINYLFU", "tinyLFU.Push", "every key of the batch goes through Increment (aging check after each access)", strings.Join(problems, "; "), fn.Pos())
	})
	c.Group("R-C18-TINYLFU", "tinyLFU.reset", func() {
		fn := P.Fn("ristretto", "tinyLFU", "reset")
		tb := newTB(fn)
		okI := false
		for _, st := range fieldStoresIn(fn, "tinyLFU", "incrs") {
			if isConst(st.Val, "0") {
				okI = true
			}
		}
		okD := len(callsTo(fn, "z.Bloom.Clear")) == 1
		okF := false
		for _, ci := range callsTo(fn, "cmSketch.Reset") {
			if tb.T(ci.Common().Args[0]).String() == "fld[freq](p[0])" {
				okF = true
			}
		}
		L.Check(okI && okD && okF, "R-C18-TINYLFU", "tinyLFU.reset", "incrs = 0, door.Clear(), freq.Reset()", fmt.Sprintf("aging reset incomplete (incrs=0:%v door.Clear:%v freq.Reset:%v)", okI, okD, okF), fn.Pos())
	})
	c.Group("R-C18-TINYLFU", "tinyLFU.clear", func() {
		sub := &Ctx{L: newLedger("C18"), P: P, Tier: c.Tier}
		sub.L.P = P
		clearResetParts(sub, "R-C18-TINYLFU", "admit")
		for _, o := range sub.L.Obls {
			// tinyLFU.clear zeroes everything, and it is what defaultPolicy.Clear calls (not the halving reset)
			if o.Construct == "tinyLFU.clear" || o.Construct == "defaultPolicy.Clear#tinyLFU.clear" {
				L.add(o)
			}
		}
	})
	bloomClearRule(c, "R-C18-TINYLFU")
	// the doorkeeper remembers a first access only if Add and Has derive the same bit positions (shared with C19)
	importRules(c, runC19, map[string]string{"R-C19-ADDHAS": "R-C18-TINYLFU"})
	// the estimate the property speaks of is tinyLFU.Estimate: sketch estimate plus the doorkeeper's first-access mark
	importRules(c, runC09, map[string]string{"R-C09-ESTIMATE": "R-C18-TINYLFU"})
	c.Group("R-C18-TINYLFU", "newTinyLFU", func() {
		fn := P.Fn("ristretto", "", "newTinyLFU")
		tb := newTB(fn)
		var lit *ssa.Alloc
		eachInstr(fn, func(in ssa.Instruction) {
			if a, ok := in.(*ssa.Alloc); ok && recvName(a.Type()) == "tinyLFU" {
				lit = a
			}
		})
		if lit == nil {
			L.Undecided("R-C18-TINYLFU", "newTinyLFU", "no tinyLFU literal", fn.Pos())
			return
		}
		lf := litFields(lit)
		get := func(f string) string {
			if len(lf[f]) == 1 {
				return tb.T(lf[f][0].Val).String()
			}
			return "<unset>"
		}
		ok := get("resetAt") == "p[0]" && get("freq") == "call[newCmSketch](p[0])" && strings.HasPrefix(get("door"), "call[z.NewBloomFilter](")
		L.Check(ok, "R-C18-TINYLFU", "newTinyLFU", "resetAt = numCounters, freq = newCmSketch(numCounters), door = NewBloomFilter(...)", "constructor wiring is wrong: resetAt="+get("resetAt")+" freq="+get("freq"), fn.Pos())
	})
}

func keysInt(m map[int]bool) []int {
	var out []int
	for k := range m {
		out = append(out, k)
	}
	return out
}

// nibbleRule: cmRow.get/increment agree on byte, shift and mask; increment saturates. Shared by C18
// and C09 (a counter that wraps to 0 makes the hottest key look like the coldest candidate).
func nibbleRule(c *Ctx, ruleID string) {
	L, P := c.L, c.P
	var byteIdx, shift string
	var width, mask uint64

	c.Group(ruleID, "cmRow.get", func() {
		fn := P.Fn("ristretto", "cmRow", "get")
		L.Analysed(fname(fn))
		tb := newTB(fn)
		rs := returnsOf(fn)
		if len(rs) != 1 {
			L.Undecided(ruleID, "cmRow.get", "expected one return", fn.Pos())
			return
		}
		env := Env{}
		t := tb.T(returnValues(rs[0])[0])
		if !Match("and(?m,shr(idx(p[0],?b),?s))", t, env) || env["m"].Op != "c" {
			L.Fail(ruleID, "cmRow.get", "get is "+t.String()+", want (r[byte] >> shift) & mask", rs[0].Pos())
			return
		}
		env2 := Env{}
		if !Match("mul(and(c[1],p[1]),?w)", env["s"], env2) && !Match("mul(?w,and(c[1],p[1]))", env["s"], env2) || env2["w"].Op != "c" {
			L.Fail(ruleID, "cmRow.get", "shift is "+env["s"].String()+", want (n&1)*width", rs[0].Pos())
			return
		}
		byteIdx, shift = env["b"].String(), env["s"].String()
		mask, _ = strconv.ParseUint(env["m"].Sym, 10, 64)
		width, _ = strconv.ParseUint(env2["w"].Sym, 10, 64)
		ok := byteIdx == "quo(p[1],c[2])" && width > 0 && mask == (1<<width)-1 && 2*width == 8
		L.Check(ok, ruleID, "cmRow.get", fmt.Sprintf("(r[n/2] >> (n&1)*%d) & %d: two %d-bit counters per byte", width, mask, width),
			fmt.Sprintf("nibble addressing is inconsistent: byte index %s, width %d, mask %d (want n/2, mask = 2^width−1, 2·width = 8)", byteIdx, width, mask), rs[0].Pos())
	})
	c.Group(ruleID, "cmRow.increment", func() {
		fn := P.Fn("ristretto", "cmRow", "increment")
		L.Analysed(fname(fn))
		tb := newTB(fn)
		if byteIdx == "" {
			L.Undecided(ruleID, "cmRow.increment", "cmRow.get not recognised", fn.Pos())
			return
		}
		nib := "and(c[" + fmt.Sprint(mask) + "],shr(idx(p[0]," + byteIdx + ")," + shift + "))"
		below := edgesWhere(fn, tb, "lt("+nib+",c["+fmt.Sprint(mask)+"])", nil, true)
		var stores []*ssa.Store
		eachInstr(fn, func(in ssa.Instruction) {
			if st, ok := in.(*ssa.Store); ok {
				if _, isIdx := st.Addr.(*ssa.IndexAddr); isIdx {
					stores = append(stores, st)
				}
			}
		})
		if len(stores) != 1 {
			L.Fail(ruleID, "cmRow.increment", fmt.Sprintf("expected one store into the row, found %d", len(stores)), fn.Pos())
			return
		}
		st := stores[0]
		addr := tb.pointee(st.Addr).String()
		val := tb.T(st.Val).String()
		wantAddr := "idx(p[0]," + byteIdx + ")"
		wantVal1 := "add(" + wantAddr + ",shl(c[1]," + shift + "))"
		wantVal2 := "add(shl(c[1]," + shift + ")," + wantAddr + ")"
		if addr != wantAddr || (val != wantVal1 && val != wantVal2) {
			L.Fail(ruleID, "cmRow.increment", "updates "+addr+" with "+val+"; want r[n/2] += 1 << (n&1)*width on the byte and shift get() reads", st.Pos())
			return
		}
		if len(below) == 0 {
			L.Fail(ruleID, "cmRow.increment", "no saturation guard `counter < "+fmt.Sprint(mask)+"` on the nibble that is incremented (same byte, same shift, same mask): a full counter would wrap into its neighbour", st.Pos())
			return
		}
		bad, _ := reach(entryPos(fn), isInstr(st), nil, cutSet(below))
		L.Check(bad == nil, ruleID, "cmRow.increment", "r[n/2] += 1<<shift only when that nibble < "+fmt.Sprint(mask)+" (same byte/shift/mask as get)", "the increment is reachable without the saturation guard having passed", st.Pos())
	})
	c.Group(ruleID, "callers", func() {
		// get/increment are only called with an index below 2*len(row): index = (..) & mask, rows hold N/2 bytes (R-C18-SIZE)
		n := 0
		for _, fn := range P.SrcFuncs {
			if fn.Pkg != P.Pkgs["ristretto"] {
				continue
			}
			tb := newTB(fn)
			for _, callee := range []string{"cmRow.get", "cmRow.increment"} {
				for _, ci := range callsTo(fn, callee) {
					n++
					it := tb.T(ci.Common().Args[1])
					if !Match("and(_,fld[mask](p[0]))", it, nil) && !Match("and(fld[mask](p[0]),_)", it, nil) {
						L.Fail(ruleID, "caller:"+fname(fn), callee+" is called with index "+it.String()+" that is not reduced by s.mask", ci.Pos())
					}
				}
			}
		}
		L.Check(n >= 2, ruleID, "callers", "every counter index passed to get/increment is masked with s.mask", "fewer than two callers found", 0)
	})
}
