package main

import (
	"fmt"
	"strings"

	"golang.org/x/tools/go/ssa"
)

// Second group of C10 rules (round 3): the node-level primitives every tree operation is built from
// and the agreement between the descent of Tree.set and Tree.get. Still necessary conditions only:
// each obligation is a shape of the code whose violation makes some history return a wrong value.
//
//	R-C10-LAYOUT   word layout of a page: key i at word 2i, value at 2i+1, page id at word 2*maxKeys,
//	               key count in the low 32 bits and flags in the top byte of word 2*maxKeys+1; the
//	               writers of that word keep exactly the bits the other field's reader reads.
//	R-C10-NODESET  node.set: position from search(k); shift right exactly when the found key is larger;
//	               count raised exactly when the key is new, after the shift; key and value written at
//	               that position. moveRight copies [lo,numKeys) to [lo+1,numKeys+1). maxKey reads the
//	               last occupied slot.
//	R-C10-DESCEND  Tree.set and Tree.get follow the same child (slot search(k) of the inner node);
//	               get misses exactly on idx == numKeys || key(idx) == 0; set claims an empty slot with
//	               the key and count+1, creates a missing child as a leaf and links it in that slot of the
//	               re-read node, recurses with the same key and value, and after a child split re-files
//	               both halves under their max keys.
func runC10b(c *Ctx) {
	L, P := c.L, c.P
	L.Rule("R-C10-LAYOUT", "page word layout and the bit fields of the meta word agree between their readers and writers", 8)
	L.Rule("R-C10-NODESET", "node.set / moveRight / maxKey: position, shift, count and stores", 3)
	L.Rule("R-C10-EXACT", "DeleteBelow is exact: the max key compact retains for routing stops answering when its value is below the threshold (finding F7); every DeleteBelow scans; a leaf answers with node.compact's count; every Reset wipes", 4)
	L.Rule("R-C10-DESCEND", "Tree.set and Tree.get descend through the same slot; miss, claim, link and re-file conditions", 6)

	ret1 := func(fn *ssa.Function) (string, bool) {
		rs := returnsOf(fn)
		if len(rs) != 1 || len(returnValues(rs[0])) != 1 {
			return "", false
		}
		return newTB(fn).T(returnValues(rs[0])[0]).String(), true
	}
	expectRet := func(rule, recv, name string, want []string, why string) {
		c.Group(rule, recv+"."+name, func() {
			fn := P.Fn("z", recv, name)
			L.Analysed(fname(fn))
			got, ok := ret1(fn)
			cons := strings.TrimPrefix(recv+"."+name, ".")
			if !ok {
				L.Undecided(rule, cons, "expected a single one-result return", fn.Pos())
				return
			}
			for _, w := range want {
				if got == w {
					L.Ok(rule, cons, "returns "+got, fn.Pos())
					return
				}
			}
			L.Fail(rule, cons, "returns "+got+", want "+strings.Join(want, " or ")+": "+why, fn.Pos())
		})
	}
	meta := "call[z.valOffset](global[maxKeys])"
	expectRet("R-C10-LAYOUT", "", "keyOffset", []string{"mul(c[2],p[0])"}, "key i lives at word 2i")
	expectRet("R-C10-LAYOUT", "", "valOffset", []string{"add(c[1],mul(c[2],p[0]))"}, "value i lives at word 2i+1")
	expectRet("R-C10-LAYOUT", "node", "key", []string{"call[z.node.uint64](p[0],call[z.keyOffset](p[1]))"}, "key(i) reads word keyOffset(i)")
	expectRet("R-C10-LAYOUT", "node", "val", []string{"call[z.node.uint64](p[0],call[z.valOffset](p[1]))"}, "val(i) reads word valOffset(i)")
	expectRet("R-C10-LAYOUT", "node", "uint64", []string{"idx(p[0],p[1])"}, "uint64(i) reads word i")
	expectRet("R-C10-LAYOUT", "node", "pageID", []string{"call[z.node.uint64](p[0],call[z.keyOffset](global[maxKeys]))", "call[z.node.key](p[0],global[maxKeys])"}, "the page id lives in the key slot after the last entry (where newNode stamps it)")
	expectRet("R-C10-LAYOUT", "node", "isFull", []string{"eq(call[z.node.numKeys](p[0]),global[maxKeys])", "eq(global[maxKeys],call[z.node.numKeys](p[0]))"}, "a node is full at exactly maxKeys entries (one more would overwrite the page id)")

	c.Group("R-C10-LAYOUT", "meta word", func() {
		// numKeys reads word meta & R; setNumKeys writes (old & K1) | num; setBit writes (old & K2) | b;
		// bits reads word & B. Required: K1 == ^R (the count is replaced, everything else kept),
		// K2 == R (flags replaced, the count kept), B & R == 0, bitLeaf within B.
		mask := func(t *Term, want string) (uint64, *Term, bool) {
			// t = and(c[M], X)
			if t == nil || t.Op != "and" || len(t.Args) != 2 || t.Args[0].Op != "c" {
				return 0, nil, false
			}
			var m uint64
			if _, err := fmt.Sscan(t.Args[0].Sym, &m); err != nil {
				return 0, nil, false
			}
			return m, t.Args[1], true
		}
		word := []string{"call[z.node.uint64](p[0]," + meta + ")", "idx(p[0]," + meta + ")", "call[z.node.val](p[0],global[maxKeys])"}
		isWord := func(t *Term) bool {
			for _, w := range word {
				if t.String() == w {
					return true
				}
			}
			return false
		}
		var problems []string
		// numKeys
		nk := P.Fn("z", "node", "numKeys")
		var R uint64
		{
			tb := newTB(nk)
			rs := returnsOf(nk)
			t := tb.T(returnValues(rs[0])[0])
			if t.Op == "conv" && len(t.Args) == 1 {
				t = t.Args[0]
			}
			m, x, ok := mask(t, "")
			if !ok || !isWord(x) {
				problems = append(problems, "numKeys returns "+t.String()+", not the meta word masked with a constant")
			}
			R = m
		}
		storeOf := func(fn *ssa.Function) (*Term, *Term) {
			tb := newTB(fn)
			var val, addr *Term
			eachInstr(fn, func(in ssa.Instruction) {
				if st, ok := in.(*ssa.Store); ok {
					val, addr = tb.T(st.Val), tb.pointee(st.Addr)
				}
			})
			return val, addr
		}
		orParts := func(t *Term) (keep *Term, put *Term) {
			if t == nil || t.Op != "or" || len(t.Args) != 2 {
				return nil, nil
			}
			if t.Args[0].Op == "and" {
				return t.Args[0], t.Args[1]
			}
			return t.Args[1], t.Args[0]
		}
		// setNumKeys
		{
			fn := P.Fn("z", "node", "setNumKeys")
			L.Analysed(fname(fn))
			v, a := storeOf(fn)
			keep, put := orParts(v)
			m, x, ok := mask(keep, "")
			switch {
			case v == nil || a == nil || !isWord(a):
				problems = append(problems, "setNumKeys does not store into the meta word")
			case !ok || !isWord(x) || put == nil || put.String() != "conv[uint64](p[1])":
				problems = append(problems, "setNumKeys stores "+v.String()+", not (old & mask) | uint64(num)")
			case m != ^R:
				problems = append(problems, fmt.Sprintf("setNumKeys keeps the bits %#x of the meta word but numKeys reads %#x: the old count is not replaced exactly (kept mask must be the complement)", m, R))
			}
		}
		// setBit
		{
			fn := P.Fn("z", "node", "setBit")
			v, a := storeOf(fn)
			keep, put := orParts(v)
			m, x, ok := mask(keep, "")
			switch {
			case v == nil || a == nil || !isWord(a):
				problems = append(problems, "setBit does not store into the meta word")
			case !ok || !isWord(x) || put == nil || put.String() != "p[1]":
				problems = append(problems, "setBit stores "+v.String()+", not (old & mask) | bit")
			case m != R:
				problems = append(problems, fmt.Sprintf("setBit keeps the bits %#x of the meta word but the key count lives in %#x: stamping the flags of a page damages (or fails to preserve) its count", m, R))
			}
		}
		// bits / isLeaf
		{
			fn := P.Fn("z", "node", "bits")
			tb := newTB(fn)
			t := tb.T(returnValues(returnsOf(fn)[0])[0])
			B, x, ok := mask(t, "")
			leaf := P.Const("z", "bitLeaf")
			var lf uint64
			fmt.Sscan(leaf.Value.Value.ExactString(), &lf)
			switch {
			case !ok || !isWord(x):
				problems = append(problems, "bits returns "+t.String()+", not the meta word masked with a constant")
			case B&R != 0:
				problems = append(problems, fmt.Sprintf("the flag mask %#x overlaps the key-count field %#x", B, R))
			case lf == 0 || lf&B != lf:
				problems = append(problems, fmt.Sprintf("bitLeaf %#x is not inside the flag mask %#x: isLeaf can never be true / never false", lf, B))
			}
			il := P.Fn("z", "node", "isLeaf")
			if got, ok := ret1(il); !ok || (got != "lt(c[0],and(call[z.node.bits](p[0]),c["+leaf.Value.Value.ExactString()+"]))" && got != "ne(c[0],and(call[z.node.bits](p[0]),c["+leaf.Value.Value.ExactString()+"]))" && got != "lt(c[0],and(c["+leaf.Value.Value.ExactString()+"],call[z.node.bits](p[0])))" && got != "ne(c[0],and(c["+leaf.Value.Value.ExactString()+"],call[z.node.bits](p[0])))") {
				problems = append(problems, "isLeaf returns "+got+", not bits()&bitLeaf != 0")
			}
		}
		L.Check(len(problems) == 0, "R-C10-LAYOUT", "meta word", fmt.Sprintf("count field %#x: numKeys reads it, setNumKeys replaces exactly it, setBit keeps exactly it; flags in the top byte, bitLeaf inside", R), strings.Join(problems, "; "), nk.Pos())
	})

	// ---- R-C10-NODESET
	c.Group("R-C10-NODESET", "node.set", func() {
		fn := P.Fn("z", "node", "set")
		L.Analysed(fname(fn))
		tb := newTB(fn)
		S := "call[z.node.search](p[0],p[1])"
		K := "call[z.node.key](p[0]," + S + ")"
		var problems []string
		mr := callsTo(fn, "z.node.moveRight")
		snk := callsTo(fn, "z.node.setNumKeys")
		sa := callsTo(fn, "z.node.setAt")
		if len(mr) != 1 || len(snk) != 1 || len(sa) != 2 {
			L.Fail("R-C10-NODESET", "node.set", fmt.Sprintf("expected one moveRight, one setNumKeys and two setAt calls, found %d/%d/%d", len(mr), len(snk), len(sa)), fn.Pos())
			return
		}
		if got := termStrings(termsOf(tb, mr[0].Common().Args)); got != "p[0], "+S {
			problems = append(problems, "moveRight("+got+"), want moveRight(search(k))")
		}
		if got := termStrings(termsOf(tb, snk[0].Common().Args)); got != "p[0], add(c[1],call[z.node.numKeys](p[0]))" {
			problems = append(problems, "setNumKeys("+got+"), want numKeys()+1")
		}
		wantK := "p[0], call[z.keyOffset](" + S + "), p[1]"
		wantV := "p[0], call[z.valOffset](" + S + "), p[2]"
		g0, g1 := termStrings(termsOf(tb, sa[0].Common().Args)), termStrings(termsOf(tb, sa[1].Common().Args))
		if !(g0 == wantK && g1 == wantV) && !(g0 == wantV && g1 == wantK) {
			problems = append(problems, "the stores are setAt("+g0+") and setAt("+g1+"), want the key at keyOffset(search(k)) and the value at valOffset(search(k))")
		}
		larger := "lt(p[1]," + K + ")"
		isNew := "ne(" + K + ",p[1])"
		// shift exactly when the found key is larger
		if b, _ := reach(entryPos(fn), isInstr(mr[0]), nil, cutSet(edgesWhere(fn, tb, larger, nil, true))); b != nil || len(edgesWhere(fn, tb, larger, nil, true)) == 0 {
			problems = append(problems, "moveRight is not confined to the side where the key found at the position is larger than k")
		}
		if b, _ := reach(entryPos(fn), isAnyInstr(sa), isInstr(mr[0]), cutSet(edgesWhere(fn, tb, larger, nil, false))); b != nil {
			problems = append(problems, "when the key found is larger than k the entry is written without shifting the tail right first (the larger key is overwritten)")
		}
		// count raised exactly when the key is new
		if b, _ := reach(entryPos(fn), isInstr(snk[0]), nil, cutSet(edgesWhere(fn, tb, isNew, nil, true))); b != nil || len(edgesWhere(fn, tb, isNew, nil, true)) == 0 {
			problems = append(problems, "the key count is raised although the key already exists")
		}
		if b, _ := reach(entryPos(fn), isAnyInstr(sa), isInstr(snk[0]), cutSet(edgesWhere(fn, tb, isNew, nil, false))); b != nil {
			problems = append(problems, "a new key is written without raising the key count")
		}
		// the shift uses the old count: never after the count was raised
		if b, _ := reach(after(snk[0]), isInstr(mr[0]), nil, nil); b != nil {
			problems = append(problems, "moveRight runs after the key count was raised (it would move one slot too many, over the page id)")
		}
		L.Check(len(problems) == 0, "R-C10-NODESET", "node.set", "position = search(k); shift iff key(pos) > k, before the stores; count+1 iff key(pos) != k, after the shift; key and value stored at pos", strings.Join(problems, "; "), fn.Pos())
	})
	c.Group("R-C10-NODESET", "node.moveRight", func() {
		fn := P.Fn("z", "node", "moveRight")
		L.Analysed(fname(fn))
		tb := newTB(fn)
		cps := builtinCalls(fn, "copy")
		if len(cps) != 1 {
			L.Fail("R-C10-NODESET", "node.moveRight", fmt.Sprintf("expected one copy, found %d", len(cps)), fn.Pos())
			return
		}
		n := "call[z.node.numKeys](p[0])"
		dst, src := tb.T(cps[0].Call.Args[0]).String(), tb.T(cps[0].Call.Args[1]).String()
		wantD := "slice(p[0],call[z.keyOffset](add(c[1],p[1])),call[z.keyOffset](add(c[1]," + n + ")),_)"
		wantS := "slice(p[0],call[z.keyOffset](p[1]),call[z.keyOffset](" + n + "),_)"
		L.Check(dst == wantD && src == wantS, "R-C10-NODESET", "node.moveRight", "copy(n[2(lo+1):2(numKeys+1)], n[2lo:2numKeys])", "copies "+src+" to "+dst+", want entries [lo,numKeys) moved to [lo+1,numKeys+1)", cps[0].Pos())
	})
	c.Group("R-C10-NODESET", "node.maxKey", func() {
		fn := P.Fn("z", "node", "maxKey")
		L.Analysed(fname(fn))
		tb := newTB(fn)
		n := "call[z.node.numKeys](p[0])"
		got, ok := ret1(fn)
		env := Env{}
		okShape := ok && Match("call[z.node.key](p[0],?i)", tb.T(returnValues(returnsOf(fn)[0])[0]), env)
		var problems []string
		if !okShape {
			problems = append(problems, "returns "+got+", not key(last occupied slot)")
		} else if it := env["i"].String(); it == "call[max](sub("+n+",c[1]),c[0])" || it == "call[max](c[0],sub("+n+",c[1]))" {
			// builtin form: max(numKeys-1, 0)
		} else if ph, isPhi := env["i"].V.(*ssa.Phi); !isPhi || len(ph.Edges) != 2 {
			if env["i"].String() != "sub("+n+",c[1])" {
				problems = append(problems, "the slot read is "+env["i"].String()+", not numKeys-1 (or 0 for an empty node)")
			} else {
				problems = append(problems, "an empty node is read at slot -1")
			}
		} else {
			pos := edgesWhere(fn, tb, "lt(c[0],"+n+")", nil, true)
			for i, e := range ph.Edges {
				et := tb.T(e).String()
				pred := ph.Block().Preds[i]
				onPos := false
				if len(pred.Preds) == 1 {
					for k, s2 := range pred.Preds[0].Succs {
						if s2 == pred && pos[Edge{pred.Preds[0], k}] {
							onPos = true
						}
					}
				}
				switch et {
				case "sub(" + n + ",c[1])":
					if !onPos {
						problems = append(problems, "numKeys-1 is used without numKeys > 0")
					}
				case n:
					if onPos {
						problems = append(problems, "a non-empty node is read at slot numKeys (one past the last entry)")
					}
				default:
					problems = append(problems, "the slot read can be "+et)
				}
			}
		}
		L.Check(len(problems) == 0, "R-C10-NODESET", "node.maxKey", "key(numKeys-1) for a non-empty node, key(0) for an empty one", strings.Join(problems, "; "), fn.Pos())
	})

	// ---- R-C10-EXACT (finding F7): a retained max key does not keep a value below the threshold
	c.Group("R-C10-EXACT", "node.compact#maxkey", func() {
		// compact keeps the node's largest key whatever its value (the parent routes by it). "DeleteBelow
		// removes exactly the keys whose value is below ts" then needs the kept entry to stop answering:
		// after the count is set (setNumKeys(left)), on every path on which the last kept entry's value is
		// below lo, its value word is overwritten with 0 - the value node.get and IterateKV read as "no entry".
		fn := P.Fn("z", "node", "compact")
		L.Analysed(fname(fn))
		tb := newTB(fn)
		snk := callsTo(fn, "z.node.setNumKeys")
		if len(snk) != 1 {
			L.Undecided("R-C10-EXACT", "node.compact#maxkey", fmt.Sprintf("expected one setNumKeys, found %d", len(snk)), fn.Pos())
			return
		}
		Lt := tb.T(snk[0].Common().Args[1]).String()
		last := "sub(" + Lt + ",c[1])"
		var zero []ssa.Instruction
		for _, ci := range callsTo(fn, "z.node.setAt") {
			if termStrings(termsOf(tb, ci.Common().Args)) == "p[0], call[z.valOffset]("+last+"), c[0]" {
				zero = append(zero, ci)
			}
		}
		stale := "lt(call[z.node.val](p[0]," + last + "),p[1])"
		staleT := edgesWhere(fn, tb, stale, nil, true)
		if len(zero) == 0 || len(staleT) == 0 {
			L.Fail("R-C10-EXACT", "node.compact#maxkey", "the node's largest key is kept with its old value even when that value is below the threshold (no `if val(left-1) < lo { setAt(valOffset(left-1), 0) }` after the compaction): Get keeps returning it and IterateKV keeps visiting it after DeleteBelow, as long as its leaf holds another live key", fn.Pos())
			return
		}
		// explore only the paths on which there is a kept entry, it is the max key, and it is stale
		cut := cutSet(edgesWhere(fn, tb, stale, nil, false), edgesWhere(fn, tb, "lt(c[0],"+Lt+")", nil, false),
			edgesWhere(fn, tb, "eq(call[z.node.key](p[0],"+last+"),call[z.node.maxKey](p[0]))", nil, false))
		var problems []string
		if bad, path := reach(after(snk[0]), isReturn, isAnyInstr(zero), cut); bad != nil {
			problems = append(problems, "a path returns with the stale value still in place (block path "+pathString(path)+")")
		}
		for _, z := range zero {
			if b, _ := reach(entryPos(fn), isInstr(z), nil, cutSet(staleT)); b != nil {
				problems = append(problems, "the kept entry's value is wiped although it is not below the threshold (a live key is lost)")
			}
			if !instrDominates(snk[0], z) {
				problems = append(problems, "the value is wiped before the compaction finished (left is not final)")
			}
		}
		L.Check(len(problems) == 0, "R-C10-EXACT", "node.compact#maxkey", "the retained max key's value is overwritten with 0 exactly when it is below lo, after the compaction", strings.Join(problems, "; "), zero[0].Pos())
	})

	// ---- R-C10-EXACT: every DeleteBelow scans, every leaf reports what node.compact found, every Reset wipes
	c.Group("R-C10-EXACT", "Tree.DeleteBelow#always", func() {
		fn := P.Fn("z", "Tree", "DeleteBelow")
		L.Analysed(fname(fn))
		tb := newTB(fn)
		var scan []ssa.Instruction
		for _, ci := range callsTo(fn, "z.Tree.compact") {
			a := termsOf(tb, ci.Common().Args)
			if a[0].String() == "p[0]" && a[1].String() == "call[z.Tree.node](p[0],c[1])" && a[2].String() == "p[1]" {
				scan = append(scan, ci)
			}
		}
		if len(scan) == 0 {
			L.Fail("R-C10-EXACT", "Tree.DeleteBelow#always", "DeleteBelow does not compact from the root with its threshold", fn.Pos())
			return
		}
		bad, path := mustPass(entryPos(fn), isAnyInstr(scan), nil)
		L.Check(bad == nil, "R-C10-EXACT", "Tree.DeleteBelow#always", "every call scans the whole tree: t.compact(root, ts) on every path", "a DeleteBelow can return without scanning (block path "+pathString(path)+"): values written below an earlier threshold (Set, IterateKV rewrite) survive a later DeleteBelow", instrPos(bad))
	})
	c.Group("R-C10-EXACT", "Tree.compact#leaf", func() {
		// the leaf branch answers with what node.compact(ts) found (0 = only the routing key is left and it
		// is stale): a leaf declared empty without looking is recycled together with its live keys
		fn := P.Fn("z", "Tree", "compact")
		L.Analysed(fname(fn))
		tb := newTB(fn)
		inner := edgesWhere(fn, tb, "call[z.node.isLeaf](p[1])", nil, false)
		want := "call[z.node.compact](p[1],p[2])"
		var problems []string
		n := 0
		for _, r := range returnsOf(fn) {
			if b, _ := reach(entryPos(fn), isInstr(r), nil, cutSet(inner)); b == nil {
				continue // inner-node return
			}
			n++
			// leaf-side return (reachable without taking the not-a-leaf edge): must be node.compact's result
			leafOnly, _ := reach(entryPos(fn), isInstr(r), nil, cutSet(edgesWhere(fn, tb, "call[z.node.isLeaf](p[1])", nil, true)))
			if leafOnly != nil {
				continue // also reachable on the inner side: it is the inner node's own return
			}
			if got := tb.T(returnValues(r)[0]).String(); got != want {
				problems = append(problems, "a leaf answers "+got+" instead of the result of n.compact(ts)")
			}
		}
		if n == 0 {
			problems = append(problems, "no leaf-side return found")
		}
		L.Check(len(problems) == 0, "R-C10-EXACT", "Tree.compact#leaf", "a leaf's answer is node.compact(ts)'s count on every path", strings.Join(problems, "; "), fn.Pos())
	})
	c.Group("R-C10-EXACT", "Tree.Reset#always", func() {
		fn := P.Fn("z", "Tree", "Reset")
		L.Analysed(fname(fn))
		var problems []string
		for _, callee := range []string{"z.Memclr", "z.Buffer.Reset", "z.Tree.initRootNode"} {
			cs := callsTo(fn, callee)
			if len(cs) == 0 {
				problems = append(problems, "Reset does not call "+callee)
				continue
			}
			if bad, path := mustPass(entryPos(fn), isAnyInstr(cs), nil); bad != nil {
				problems = append(problems, "a Reset can return without "+callee+" (block path "+pathString(path)+"): whatever made the tree look empty (a counter that misses an overwritten sentinel) leaves old pairs readable")
			}
		}
		L.Check(len(problems) == 0, "R-C10-EXACT", "Tree.Reset#always", "every Reset wipes the pages, resets the buffer and re-creates the root, unconditionally", strings.Join(problems, "; "), fn.Pos())
	})

	c.Group("R-C10-DESCEND", "Tree.Set#from-root", func() {
		// every insertion walks down from the root: t.set(1, k, v) on every path past the key-domain
		// guard (a cached "last leaf" shortcut writes into a page DeleteBelow may have recycled meanwhile)
		fn := P.Fn("z", "Tree", "Set")
		L.Analysed(fname(fn))
		tb := newTB(fn)
		var walk []ssa.Instruction
		for _, ci := range callsTo(fn, "z.Tree.set") {
			if termStrings(termsOf(tb, ci.Common().Args)) == "p[0], c[1], p[1], p[2]" {
				walk = append(walk, ci)
			}
		}
		if len(walk) == 0 {
			L.Fail("R-C10-DESCEND", "Tree.Set#from-root", "Tree.Set does not call t.set(1, k, v)", fn.Pos())
			return
		}
		bad, path := reach(entryPos(fn), isReturn, isAnyInstr(walk), nil)
		L.Check(bad == nil, "R-C10-DESCEND", "Tree.Set#from-root", "t.set(1, k, v) on every returning path", "a Set can return without descending from the root (block path "+pathString(path)+"): it writes through a remembered page that may have left the tree", instrPos(bad))
	})
	// ---- R-C10-DESCEND
	c.Group("R-C10-DESCEND", "Tree.get", func() {
		fn := P.Fn("z", "Tree", "get")
		L.Analysed(fname(fn))
		tb := newTB(fn)
		S := "call[z.node.search](p[1],p[2])"
		slot := []string{"call[z.node.uint64](p[1],call[z.valOffset](" + S + "))", "call[z.node.val](p[1]," + S + ")"}
		var problems []string
		rec := callsTo(fn, "z.Tree.get")
		if len(rec) != 1 {
			L.Fail("R-C10-DESCEND", "Tree.get", fmt.Sprintf("expected one recursive call, found %d", len(rec)), fn.Pos())
			return
		}
		a := termsOf(tb, rec[0].Common().Args)
		okChild := false
		for _, s2 := range slot {
			if a[1].String() == "call[z.Tree.node](p[0],"+s2+")" {
				okChild = true
			}
		}
		if !okChild || a[2].String() != "p[2]" {
			problems = append(problems, "descends into "+a[1].String()+" with key "+a[2].String()+", want the child in slot search(k) and the same key")
		}
		// miss exactly on idx == numKeys || key(idx) == 0
		end := "eq(call[z.node.numKeys](p[1])," + S + ")"
		empty := "eq(c[0],call[z.node.key](p[1]," + S + "))"
		missEdges := cutSet(edgesWhere(fn, tb, end, nil, true), edgesWhere(fn, tb, empty, nil, true))
		isZeroRet := func(in ssa.Instruction) bool {
			r, ok := in.(*ssa.Return)
			return ok && isConst(returnValues(r)[0], "0")
		}
		leaf := edgesWhere(fn, tb, "call[z.node.isLeaf](p[1])", nil, true)
		if b, _ := reach(entryPos(fn), isZeroRet, nil, func(e Edge) bool { return missEdges(e) || leaf[e] }); b != nil {
			problems = append(problems, "an inner node answers 0 without the slot being past the end or empty")
		}
		if b, _ := reach(entryPos(fn), isInstr(rec[0]), nil, cutSet(edgesWhere(fn, tb, end, nil, false))); b != nil || len(edgesWhere(fn, tb, end, nil, false)) == 0 {
			problems = append(problems, "descends although search ran past the last key (idx == numKeys): reads a slot beyond the entries")
		}
		if b, _ := reach(entryPos(fn), isInstr(rec[0]), nil, cutSet(edgesWhere(fn, tb, empty, nil, false))); b != nil || len(edgesWhere(fn, tb, empty, nil, false)) == 0 {
			problems = append(problems, "descends through a slot whose key is 0 (no child)")
		}
		L.Check(len(problems) == 0, "R-C10-DESCEND", "Tree.get", "inner node: idx = search(k); 0 iff idx == numKeys || key(idx) == 0; otherwise get(child in slot idx, k); leaf: node.get(k)", strings.Join(problems, "; "), fn.Pos())
	})
	c.Group("R-C10-DESCEND", "Tree.set", func() {
		fn := P.Fn("z", "Tree", "set")
		L.Analysed(fname(fn))
		tb := newTB(fn)
		N := "call[z.Tree.node](p[0],p[1])"
		S := "call[z.node.search](" + N + ",p[2])"
		slotVal := []string{"call[z.node.val](" + N + "," + S + ")", "call[z.node.uint64](" + N + ",call[z.valOffset](" + S + "))"}
		problems := map[string][]string{}
		add := func(k, s string) { problems[k] = append(problems[k], s) }
		rec := callsTo(fn, "z.Tree.set")
		nn := callsTo(fn, "z.Tree.newNode")
		sp := callsTo(fn, "z.Tree.split")
		if len(rec) != 1 || len(nn) != 1 || len(sp) != 1 {
			L.Fail("R-C10-DESCEND", "Tree.set", fmt.Sprintf("expected one recursive set, one newNode and one split, found %d/%d/%d", len(rec), len(nn), len(sp)), fn.Pos())
			return
		}
		// #claim: an empty slot is claimed with the key and count+1
		empty := "eq(c[0],call[z.node.key](" + N + "," + S + "))"
		var claimKey, claimCnt, link ssa.CallInstruction
		for _, ci := range callsTo(fn, "z.node.setAt") {
			got := termStrings(termsOf(tb, ci.Common().Args))
			if got == N+", call[z.keyOffset]("+S+"), p[2]" {
				claimKey = ci
			}
			if got == N+", call[z.valOffset]("+S+"), call[z.node.pageID]("+tb.T(nn[0].(*ssa.Call)).String()+")" {
				link = ci
			}
		}
		for _, ci := range callsTo(fn, "z.node.setNumKeys") {
			if termStrings(termsOf(tb, ci.Common().Args)) == N+", add(c[1],call[z.node.numKeys]("+N+"))" {
				claimCnt = ci
			}
		}
		if claimKey == nil || claimCnt == nil {
			add("claim", "an empty slot (key(idx) == 0) is not claimed with setAt(keyOffset(idx), k) and setNumKeys(numKeys+1)")
		} else {
			em := edgesWhere(fn, tb, empty, nil, true)
			if b, _ := reach(entryPos(fn), isAnyInstr([]ssa.CallInstruction{claimKey, claimCnt}), nil, cutSet(em)); b != nil || len(em) == 0 {
				add("claim", "the slot is claimed although it already holds a key (an existing separator is overwritten / counted twice)")
			}
			if b, _ := reach(entryPos(fn), isInstr(rec[0]), isInstr(claimKey), cutSet(edgesWhere(fn, tb, empty, nil, false))); b != nil {
				add("claim", "an empty slot is descended into without its key being set")
			}
			if b, _ := reach(entryPos(fn), isInstr(rec[0]), isInstr(claimCnt), cutSet(edgesWhere(fn, tb, empty, nil, false))); b != nil {
				add("claim", "an empty slot is claimed without raising the key count")
			}
		}
		// #child: the child followed is the one in slot idx; a missing child is created as a leaf and linked there
		childTerm := ""
		for _, s2 := range slotVal {
			cand := "call[z.Tree.node](p[0]," + s2 + ")"
			if len(ifsMatching(fn, tb, "eq(c[nil],"+cand+")", nil)) > 0 {
				childTerm = cand // the spelling whose result is tested for "no child yet"
			}
		}
		leafBit := P.Const("z", "bitLeaf").Value.Value.ExactString()
		if childTerm == "" {
			add("child", "the child pointer is not read from slot search(k) of the node")
		} else {
			missing := "eq(c[nil]," + childTerm + ")"
			ms := edgesWhere(fn, tb, missing, nil, true)
			if tb.T(nn[0].Common().Args[1]).String() != "c["+leafBit+"]" {
				add("child", "a missing child is created with flags "+tb.T(nn[0].Common().Args[1]).String()+", not as a leaf")
			}
			if b, _ := reach(entryPos(fn), isInstr(nn[0]), nil, cutSet(ms)); b != nil || len(ms) == 0 {
				add("child", "a new child is created although the slot already points to one (the old subtree is orphaned)")
			}
			if link == nil {
				add("child", "the new child's page id is not stored in valOffset(search(k)) of the (re-read) node")
			} else if b, _ := reach(after(nn[0]), isInstr(rec[0]), isInstr(link), nil); b != nil {
				add("child", "the new child is descended into before it is linked into the parent")
			}
			// recursion target
			a := termsOf(tb, rec[0].Common().Args)
			okTarget := false
			at := a[1].String()
			if strings.HasPrefix(at, "call[z.node.pageID](") && strings.Contains(at, childTerm) && strings.Contains(at, tb.T(nn[0].(*ssa.Call)).String()) {
				okTarget = true
			}
			if !okTarget || a[2].String() != "p[2]" || a[3].String() != "p[3]" {
				add("child", "recurses into "+at+" with ("+a[2].String()+", "+a[3].String()+"), want the page id of the child (found or just created) and the same key and value")
			}
		}
		// #refile: after a child split both halves are re-filed under their max keys
		full := "call[z.node.isFull](" + tb.T(rec[0].(*ssa.Call)).String() + ")"
		fl := edgesWhere(fn, tb, full, nil, true)
		if tb.T(sp[0].Common().Args[1]).String() != "call[z.node.pageID]("+tb.T(rec[0].(*ssa.Call)).String()+")" {
			add("refile", "split is applied to "+tb.T(sp[0].Common().Args[1]).String()+", not to the child that came back full")
		}
		if b, _ := reach(entryPos(fn), isInstr(sp[0]), nil, cutSet(fl)); b != nil || len(fl) == 0 {
			add("refile", "the child is split although it is not full")
		}
		if b, _ := reach(after(rec[0]), isReturn, isInstr(sp[0]), cutSet(edgesWhere(fn, tb, full, nil, false))); b != nil {
			add("refile", "a child that came back full is left unsplit (the next insert into it overwrites the page id)")
		}
		spT := tb.T(sp[0].(*ssa.Call)).String()
		var left, right bool
		for _, ci := range callsTo(fn, "z.node.set") {
			a := termsOf(tb, ci.Common().Args)
			if a[0].String() != N || len(a) != 3 {
				continue
			}
			env := Env{}
			if Match("call[z.node.maxKey](?c)", a[1], env) && a[2].String() == "call[z.node.pageID]("+env["c"].String()+")" {
				if env["c"].String() == spT {
					right = true
				} else if childTerm != "" && (env["c"].String() == childTerm || strings.HasPrefix(env["c"].String(), "call[z.Tree.node](p[0],call[z.node.uint64]("+N) || strings.HasPrefix(env["c"].String(), "call[z.Tree.node](p[0],call[z.node.val]("+N)) {
					left = true
				}
				if b, _ := reach(entryPos(fn), isInstr(ci), isInstr(sp[0]), nil); b != nil {
					add("refile", "a half is re-filed on a path that did not split")
				}
			}
		}
		if !left || !right {
			add("refile", fmt.Sprintf("after the split the parent does not re-file both halves as set(half.maxKey(), half.pageID()) (left half: %v, right half: %v): keys of the unfiled half become unreachable", left, right))
		}
		for _, k := range []string{"claim", "child", "refile"} {
			ok := len(problems[k]) == 0
			detail := map[string]string{
				"claim":  "key(idx) == 0 ⇒ setAt(keyOffset(idx), k); setNumKeys(numKeys+1) before descending; never otherwise",
				"child":  "child = node(val(idx)); nil ⇒ newNode(bitLeaf) linked at valOffset(idx) before the descent; set(child.pageID(), k, v)",
				"refile": "child.isFull() ⇒ split(child); n.set(left.maxKey(), left.pageID()); n.set(right.maxKey(), right.pageID())",
			}[k]
			L.Check(ok, "R-C10-DESCEND", "Tree.set#"+k, detail, strings.Join(problems[k], "; "), fn.Pos())
		}
		// sibling agreement with Tree.get: same slot expression shape (search(k) of the node, value word of that slot)
		L.Check(childTerm != "", "R-C10-DESCEND", "set/get#same-slot", "both follow the pointer in the value word of slot search(k)", "Tree.set and Tree.get do not follow the same slot", fn.Pos())
	})
}
