package main

import (
	"fmt"
	"os"

	"golang.org/x/tools/go/packages"
	"golang.org/x/tools/go/ssa"
	"golang.org/x/tools/go/ssa/ssautil"
)

func main() {
	cfg := &packages.Config{Mode: packages.LoadAllSyntax, Dir: "/repo", Tests: false}
	pkgs, err := packages.Load(cfg, "./...")
	if err != nil {
		panic(err)
	}
	fmt.Println(len(pkgs), packages.PrintErrors(pkgs))
	prog, spkgs := ssautil.AllPackages(pkgs, ssa.BuilderMode(0))
	prog.Build()
	for _, p := range spkgs {
		if p != nil && p.Pkg.Name() == "ristretto" {
			for _, m := range p.Members {
				if t, ok := m.(*ssa.Type); ok && t.Name() == "Cache" {
					_ = t
				}
			}
			fn := p.Func("newPolicy")
			fn.WriteTo(os.Stdout)
		}
	}
}
