#!/bin/bash
# ./run.sh <Cxx|all> [quick|thorough]  -- decides the property's static rules on /repo's current tree.
cd "$(dirname "$0")"
. ./env.sh
prop="$1"; tier="${2:-${VERIF_TIER:-quick}}"
repo="${VERIF_REPO:-/repo}"
# rebuild the checker when its sources are newer than the binary
if [ ! -x bin/verifcheck ] || [ -n "$(find checker -newer bin/verifcheck \( -name '*.go' -o -name go.mod \) -print -quit)" ]; then
  ./setup.sh >/dev/null || { echo "checker build failed" >&2; exit 2; }
fi
if [ "$tier" = thorough ] && [ "$prop" != all ]; then
  # thorough = all build variants + the rule self-test (mutant corpus, both directions)
  st="$(mktemp "${TMPDIR:-/tmp}/vselftest.XXXXXX.json")"
  VERIF_REPO="$repo" ./selftest.py "$prop" --json "$st"; strc=$?
  ./bin/verifcheck -repo "$repo" -verif "$(pwd)" -prop "$prop" -tier thorough -selftest "$st"; rc=$?
  rm -f "$st"
  if [ $rc -ne 0 ]; then exit $rc; fi
  if [ $strc -ne 0 ]; then echo "selftest of the rules failed (a rule no longer catches its mutant, or alarms on a benign variant): the check cannot vouch" >&2; exit 2; fi
  exit 0
fi
exec ./bin/verifcheck -repo "$repo" -verif "$(pwd)" -prop "$prop" -tier "$tier"
