#!/bin/bash
# Builds the checker binary from /verif/checker (offline, module cache only).
set -e
cd "$(dirname "$0")"
. ./env.sh
mkdir -p bin evidence
(cd checker && go build -o ../bin/verifcheck .)
echo "built bin/verifcheck with $(go version)"
