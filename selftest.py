#!/usr/bin/env python3
"""Self-test of the static rules (both directions).

Each mutant in checker/selftest/mutants.json is applied to a scratch copy of /repo
(under $TMPDIR, removed afterwards), the copy is analysed with the same checker binary,
and the run must report the expected rule:construct (breaking mutants) or stay silent
(benign variants). The scratch copy must still type-check, otherwise the corpus entry is
wrong. Nothing here executes ristretto code.

usage: selftest.py <Cxx|all> [--jobs N] [--only id]
"""
import json, os, shutil, subprocess, sys, tempfile, concurrent.futures as cf

VERIF = os.path.dirname(os.path.abspath(__file__))
REPO = os.environ.get("VERIF_REPO", "/repo")

def run_one(m):
    tmp = tempfile.mkdtemp(prefix="vselftest.")
    try:
        dst = os.path.join(tmp, "repo")
        shutil.copytree(REPO, dst, ignore=shutil.ignore_patterns(".git"))
        for e in m["edits"]:
            p = os.path.join(dst, e["file"])
            s = open(p).read()
            if s.count(e["old"]) != e.get("count", 1):
                return (m, "corpus-error", "pattern occurs %d times in %s: %r" % (s.count(e["old"]), e["file"], e["old"][:60]))
            s = s.replace(e["old"], e["new"])
            open(p, "w").write(s)
        ev = os.path.join(tmp, "ev.json")
        r = subprocess.run([os.environ.get("VERIFCHECK_BIN", os.path.join(VERIF, "bin/verifcheck")), "-repo", dst, "-verif", VERIF, "-prop", m["prop"],
                            "-tier", "quick", "-evidence", ev], capture_output=True, text=True)
        out = r.stdout + r.stderr
        if r.returncode == 2:
            return (m, "corpus-error", "checker could not load/analyse the mutant: " + out[-600:])
        exp = m.get("expect", "")
        if exp == "":
            if r.returncode == 0:
                return (m, "ok", "silent as required")
            return (m, "FALSE-ALARM", out[-800:])
        if r.returncode == 1 and exp in out:
            return (m, "ok", "reported " + exp)
        if r.returncode == 1:
            return (m, "WRONG-RULE", "expected %s, got: %s" % (exp, out[-800:]))
        return (m, "MISSED", "expected %s, check was silent" % exp)
    finally:
        shutil.rmtree(tmp, ignore_errors=True)

def run_seeded(job):
    """A confirmed, independently written property-breaking change (seeded/<id>/patch.diff):
    the check of the property it breaks must report it."""
    d, prop = job
    meta = json.load(open(os.path.join(d, "meta.json")))
    m = {"id": "seeded:" + meta["id"], "prop": prop, "expect": "VIOLATION property=" + prop}
    tmp = tempfile.mkdtemp(prefix="vselftest.")
    try:
        dst = os.path.join(tmp, "repo")
        shutil.copytree(REPO, dst, ignore=shutil.ignore_patterns(".git"))
        r = subprocess.run(["patch", "-s", "-p1", "--fuzz=3", "-i", os.path.join(d, "patch.diff")], cwd=dst, capture_output=True, text=True)
        if r.returncode != 0:
            return (m, "ok", "patch no longer applies to the current tree (skipped)")
        r = subprocess.run([os.environ.get("VERIFCHECK_BIN", os.path.join(VERIF, "bin/verifcheck")), "-repo", dst, "-verif", VERIF, "-prop", prop,
                            "-tier", "quick", "-evidence", os.path.join(tmp, "ev.json")], capture_output=True, text=True)
        out = r.stdout + r.stderr
        if r.returncode == 2:
            return (m, "corpus-error", out[-500:])
        if meta.get("retired"):
            # the change stopped breaking the property when /repo was repaired (see meta.json): the
            # check must now stay silent on it
            if r.returncode == 0:
                return (m, "ok", "retired change: silent as required")
            return (m, "FALSE-ALARM", "retired change (%s) still reported: %s" % (meta["retired"][:80], out[-600:]))
        if r.returncode == 1 and m["expect"] in out:
            return (m, "ok", "reported")
        return (m, "MISSED", "the check of %s was silent on a confirmed %s-breaking change" % (prop, prop))
    finally:
        shutil.rmtree(tmp, ignore_errors=True)

def run_benign(job):
    """A behaviour-preserving refactoring (sub-agent written patch): the check must stay silent."""
    path, prop = job
    tmp = tempfile.mkdtemp(prefix="vselftest.")
    m = {"id": "benign:" + os.path.basename(path)[:-5], "prop": prop, "expect": ""}
    try:
        dst = os.path.join(tmp, "repo")
        shutil.copytree(REPO, dst, ignore=shutil.ignore_patterns(".git"))
        r = subprocess.run(["patch", "-s", "-p1", "--fuzz=3", "-i", path], cwd=dst, capture_output=True, text=True)
        if r.returncode != 0:
            return (m, "ok", "patch no longer applies to the current tree (skipped)")
        r = subprocess.run([os.environ.get("VERIFCHECK_BIN", os.path.join(VERIF, "bin/verifcheck")), "-repo", dst, "-verif", VERIF, "-prop", prop,
                            "-tier", "quick", "-evidence", os.path.join(tmp, "ev.json")], capture_output=True, text=True)
        out = r.stdout + r.stderr
        if r.returncode == 2:
            return (m, "corpus-error", out[-500:])
        if r.returncode == 0:
            return (m, "ok", "silent as required")
        return (m, "FALSE-ALARM", out[-800:])
    finally:
        shutil.rmtree(tmp, ignore_errors=True)

def main():
    prop = sys.argv[1] if len(sys.argv) > 1 else "all"
    jobs = 6
    only = None
    jout = None
    a = sys.argv[2:]
    while a:
        if a[0] == "--jobs": jobs = int(a[1]); a = a[2:]
        elif a[0] == "--only": only = a[1]; a = a[2:]
        elif a[0] == "--json": jout = a[1]; a = a[2:]
        else: a = a[1:]
    muts = json.load(open(os.path.join(VERIF, "checker/selftest/mutants.json")))
    muts = [m for m in muts if (prop == "all" or m["prop"] == prop) and (only is None or m["id"] == only)]
    bad = 0
    results = []
    with cf.ThreadPoolExecutor(max_workers=jobs) as ex:
        for m, status, detail in ex.map(run_one, muts):
            print("selftest %-28s %-4s %-12s %s" % (m["id"], m["prop"], status, detail if status != "ok" else detail[:100]))
            results.append({"id": m["id"], "expect": m.get("expect", ""), "status": status})
            if status != "ok":
                bad += 1
    import glob
    benign = sorted(glob.glob(os.path.join(VERIF, "checker/selftest/benign/*.diff")))
    if only is not None:
        benign = [b for b in benign if os.path.basename(b)[:-5] == only.replace("benign:", "")]
    nb = 0
    if benign and (only is None or only.startswith("benign:")):
        with cf.ThreadPoolExecutor(max_workers=jobs) as ex:
            for m, status, detail in ex.map(run_benign, [(b, prop) for b in benign]):
                nb += 1
                results.append({"id": m["id"], "expect": "", "status": status})
                if status != "ok":
                    print("selftest %-28s %-4s %-12s %s" % (m["id"], prop, status, detail))
                    bad += 1
    ns = 0
    if only is None or only.startswith("seeded:"):
        sjobs = []
        for mj in sorted(glob.glob(os.path.join(VERIF, "seeded", "*", "meta.json"))):
            meta = json.load(open(mj))
            if (prop == "all" or meta["breaks_property"] == prop) and (only is None or only == "seeded:" + meta["id"]):
                sjobs.append((os.path.dirname(mj), meta["breaks_property"]))
        with cf.ThreadPoolExecutor(max_workers=jobs) as ex:
            for m, status, detail in ex.map(run_seeded, sjobs):
                ns += 1
                results.append({"id": m["id"], "expect": m["expect"], "status": status})
                if status != "ok":
                    print("selftest %-28s %-4s %-12s %s" % (m["id"], m["prop"], status, detail))
                    bad += 1
    print("selftest: %d mutants + %d seeded changes + %d behaviour-preserving refactorings, %d problems" % (len(muts), ns, nb, bad))
    if jout:
        json.dump({"mutants": len(muts), "seeded_changes": ns, "benign_refactorings": nb, "problems": bad, "results": results}, open(jout, "w"))
    return 1 if bad else 0

if __name__ == "__main__":
    sys.exit(main())
