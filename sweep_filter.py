#!/usr/bin/env python3
"""Development tool (not a registered check): takes the mutants that survived sweep.py (no check
reported them) and runs the EXISTING test suite of the mutated package on each, in a scratch copy.
Survivors that the tests kill are uninteresting (the brief is about changes the tests do not catch);
what is left is the triage list for new rules: sweep_out/untested_survivors.txt.

usage: sweep_filter.py [--jobs N] [--in sweep_out/results.json]
"""
import json, os, shutil, subprocess, sys, tempfile, concurrent.futures as cf

VERIF = os.path.dirname(os.path.abspath(__file__))
REPO = "/repo"


def pkg_of(path):
    if path.startswith("z/simd/"):
        return "./z/simd/"
    if path.startswith("z/"):
        return "./z/"
    return "."


def run_one(x):
    tmp = tempfile.mkdtemp(prefix="vsweepf.")
    try:
        dst = os.path.join(tmp, "repo")
        shutil.copytree(REPO, dst, ignore=shutil.ignore_patterns(".git"))
        fp = os.path.join(dst, x["file"])
        lines = open(fp).read().split("\n")
        ln = x["line"] - 1
        if lines[ln].strip() != x["old"]:
            return dict(x, tests="stale")
        indent = lines[ln][: len(lines[ln]) - len(lines[ln].lstrip())]
        lines[ln] = indent + x["new"] if x["new"] else ""
        open(fp, "w").write("\n".join(lines))
        env = dict(os.environ, GOFLAGS="-mod=mod", GOPROXY="off")
        pass
        pkgs = [pkg_of(x["file"])]
        if pkgs[0] == "./z/" and x["file"] in ("z/z.go", "z/bbloom.go", "z/rtutil.go", "z/histogram.go"):
            pkgs.append(".")  # the cache uses these
        try:
            r = subprocess.run(["go", "test", "-vet=off", "-count=1", "-timeout", "400s"] + pkgs, cwd=dst, capture_output=True, text=True, env=env, timeout=900)
        except subprocess.TimeoutExpired:
            return dict(x, tests="timeout")
        return dict(x, tests="pass" if r.returncode == 0 else "fail", tail=(r.stdout + r.stderr)[-300:] if r.returncode != 0 else "")
    finally:
        shutil.rmtree(tmp, ignore_errors=True)


def main():
    jobs, inp = 3, os.path.join(VERIF, "sweep_out", "results.json")
    only_files = None
    a = sys.argv[1:]
    while a:
        if a[0] == "--jobs": jobs = int(a[1]); a = a[2:]
        elif a[0] == "--in": inp = a[1]; a = a[2:]
        elif a[0] == "--files": only_files = set(a[1].split(",")); a = a[2:]
        else: a = a[1:]
    res = json.load(open(inp))
    surv = [x for x in res if x["status"] == "survived" and (only_files is None or x["file"] in only_files)]
    outp = os.path.join(VERIF, "sweep_out", "filtered.json")
    done = {}
    if os.path.exists(outp):
        for y in json.load(open(outp)):
            done[(y["file"], y["line"], y["new"])] = y
    todo = [x for x in surv if (x["file"], x["line"], x["new"]) not in done]
    print("survivors: %d, already filtered: %d, to run: %d" % (len(surv), len(done), len(todo)), flush=True)
    out = list(done.values())
    with cf.ThreadPoolExecutor(max_workers=jobs) as ex:
        for i, y in enumerate(ex.map(run_one, todo)):
            out.append(y)
            if (i + 1) % 10 == 0:
                json.dump(out, open(outp, "w"), indent=0)
                print("progress %d/%d: pass %d" % (i + 1, len(todo), sum(1 for z in out if z.get("tests") == "pass")), flush=True)
    json.dump(out, open(outp, "w"), indent=0)
    with open(os.path.join(VERIF, "sweep_out", "untested_survivors.txt"), "w") as f:
        for z in sorted(out, key=lambda z: (z["file"], z["line"])):
            if z.get("tests") == "pass":
                f.write("%s:%d [%s]\n   - %s\n   + %s\n" % (z["file"], z["line"], z["kind"], z["old"], z["new"]))
    print("done: %d survive the checks AND the tests" % sum(1 for z in out if z.get("tests") == "pass"))


if __name__ == "__main__":
    main()
