#!/bin/bash
# ./trypatch.sh <patch.diff> <Cxx|all> : analyse a scratch copy of /repo with the patch applied (never touches /repo).
cd "$(dirname "$0")"; . ./env.sh
t="$(mktemp -d "${TMPDIR:-/tmp}/vtry.XXXXXX")"
rsync -a --exclude .git /repo/ "$t/repo/"
( cd "$t/repo" && patch -s -p1 < "$1" ) || { echo "patch failed"; rm -rf "$t"; exit 3; }
./bin/verifcheck -repo "$t/repo" -verif "$(pwd)" -prop "$2" -tier quick -evidence "$t/ev.json" 2>&1 | grep -v '^ADVISORY' | sed "s#$t/repo/##g"
rc=${PIPESTATUS[0]}
rm -rf "$t"; exit $rc
