#!/bin/bash
# ./trypatch.sh <ABSOLUTE patch.diff> <Cxx|all> : analyse a scratch copy of /repo with the patch applied (never touches /repo or /verif/evidence).
cd "$(dirname "$0")"; . ./env.sh
t="$(mktemp -d "${TMPDIR:-/tmp}/vtry.XXXXXX")"
rsync -a --exclude .git /repo/ "$t/repo/"
( cd "$t/repo" && patch -s -p1 < "$1" ) || { echo "patch failed"; rm -rf "$t"; exit 3; }
mkdir -p "$t/verif/checker" "$t/verif/evidence"
cp known_findings.json "$t/verif/"; cp checker/known_funcs.txt "$t/verif/checker/"
./bin/verifcheck -repo "$t/repo" -verif "$t/verif" -prop "$2" -tier quick 2>&1 | grep -v '^ADVISORY' | sed "s#$t/repo/##g"
rc=${PIPESTATUS[0]}
rm -rf "$t"; exit $rc
