#!/usr/bin/env python3
"""Confirms a sub-agent's seeded change in a scratch worktree of /repo (never in /repo itself):
 pristine+demo passes, mutant+demo fails, mutant+existing suite passes. Writes confirm.json next to the patch.
usage: confirm_seeded.py /tmp/mutout/C01/a [...]"""
import json, os, re, shutil, subprocess, sys, concurrent.futures as cf

ENV = dict(os.environ, GOFLAGS="-mod=mod", GOPROXY="off")

def sh(cmd, cwd, timeout=1500):
    r = subprocess.run(cmd, cwd=cwd, shell=True, capture_output=True, text=True, env=ENV, timeout=timeout)
    return r.returncode, (r.stdout + r.stderr)[-3000:]

def confirm(d):
    d = d.rstrip("/")
    tag = d.replace("/", "_").strip("_")
    wt = "/tmp/vseed/" + tag
    res = {"dir": d}
    try:
        head = open(os.path.join(d, "demo_test.go")).readline()
        m = re.search(r"copy to <worktree>/(\S+)", head)
        r = re.search(r"run:\s*(.*)$", head)
        rel, runcmd = m.group(1), r.group(1).strip()
        sub = ""
        mcd = re.match(r"^cd\s+(\S+)\s*&&\s*(.*)$", runcmd)
        if mcd:
            sub = mcd.group(1).replace("<worktree>", "").strip("/")
            runcmd = mcd.group(2)
        subprocess.run(["git", "-C", "/repo", "worktree", "remove", "--force", wt], capture_output=True)
        shutil.rmtree(wt, ignore_errors=True)
        subprocess.run(["git", "-C", "/repo", "worktree", "add", "-q", "--detach", wt, "HEAD"], check=True, capture_output=True)
        shutil.copy(os.path.join(d, "demo_test.go"), os.path.join(wt, rel))
        rundir = os.path.join(wt, sub) if sub else wt
        rc, out = sh(runcmd, rundir)
        res["pristine_demo_rc"] = rc; res["pristine_demo_tail"] = out[-600:]
        rc, out = sh("git apply --whitespace=nowarn " + os.path.join(d, "patch.diff"), wt)
        res["apply_rc"] = rc
        if rc != 0:
            res["apply_out"] = out
        rc, out = sh(runcmd, rundir)
        res["mutant_demo_rc"] = rc; res["mutant_demo_tail"] = out[-1200:]
        os.remove(os.path.join(wt, rel))
        rc, out = sh("go test -vet=off -count=1 ./...", wt)
        if rc != 0:  # timing-sensitive suite: one retry
            res["suite_first_fail_tail"] = out[-800:]
            rc, out = sh("go test -vet=off -count=1 ./...", wt)
        res["mutant_suite_rc"] = rc; res["mutant_suite_tail"] = out[-600:]
        res["runcmd"] = runcmd; res["demo_path"] = rel
        res["confirmed"] = (res["pristine_demo_rc"] == 0 and res["apply_rc"] == 0 and res["mutant_demo_rc"] != 0 and res["mutant_suite_rc"] == 0)
    except Exception as e:
        res["error"] = repr(e); res["confirmed"] = False
    finally:
        subprocess.run(["git", "-C", "/repo", "worktree", "remove", "--force", wt], capture_output=True)
        shutil.rmtree(wt, ignore_errors=True)
    json.dump(res, open(os.path.join(d, "confirm.json"), "w"), indent=1)
    return res

if __name__ == "__main__":
    with cf.ThreadPoolExecutor(max_workers=2) as ex:
        for r in ex.map(confirm, sys.argv[1:]):
            print(r["dir"], "CONFIRMED" if r.get("confirmed") else "NOT-CONFIRMED", {k: v for k, v in r.items() if k.endswith("_rc") or k == "error"})
