# sourced by setup.sh / run.sh: the only toolchain that can load /repo and build the checker offline
export GOTOOLCHAIN=local GOFLAGS=-mod=mod GOPROXY=off GOSUMDB=off GONOSUMDB=* GONOSUMCHECK=1 GOFLAGS=-mod=mod CGO_ENABLED=0
export PATH=/opt/veriftools/go1.26.8/bin:$PATH
unset GOWORK
