#!/usr/bin/env python3
"""Mutation sweep of the *checker*: systematic single-token mutants of the library source
are analysed by all 20 checks (statically — nothing is executed). Mutants that no check
reports are written out for triage: each is either behaviour-preserving / outside the 20
properties, or a gap in the rules. This is a development tool, not a registered check.

usage: sweep.py [--files f1,f2] [--jobs N] [--out dir] [--limit N] [--seed S]
"""
import json, os, random, re, shutil, subprocess, sys, tempfile, concurrent.futures as cf

VERIF = os.path.dirname(os.path.abspath(__file__))
REPO = os.environ.get("VERIF_REPO", "/repo")
FILES = ["cache.go", "policy.go", "store.go", "ttl.go", "ring.go", "sketch.go", "z/btree.go", "z/buffer.go",
         "z/allocator.go", "z/bbloom.go", "z/file.go", "z/z.go", "z/simd/search_amd64.go", "z/simd/search.go", "z/simd/baseline.go",
         "z/simd/search_amd64.s"]

TOKEN_OPS = [
    (r"(?<![<>=!])<=(?!=)", ["<"]), (r"(?<![<>=!-])<(?![<=-])", ["<="]), (r"(?<![<>=!-])>=(?!=)", [">"]), (r"(?<![<>=!-])>(?![>=])", [">="]),
    (r"==", ["!="]), (r"!=", ["=="]), (r"&&", ["||"]), (r"\|\|", ["&&"]),
    (r"(?<![+\w])\+(?![+=])", ["-"]), (r"(?<![-\w<])-(?![-=>])", ["+"]),
    (r"\b0\b", ["1"]), (r"\b1\b", ["0", "2"]), (r"\b2\b", ["1", "3"]), (r"\b8\b", ["4", "16"]), (r"\b7\b", ["3", "8"]), (r"\b4\b", ["8"]),
    (r"\btrue\b", ["false"]), (r"\bfalse\b", ["true"]), (r"\bcontinue\b", ["break"]), (r"\bbreak\b", ["continue"]),
    (r"\.RLock\(\)", [".Lock()"]), (r"\.RUnlock\(\)", [".Unlock()"]),
    (r"!(?=[a-zA-Z(])", [""]),
]
ASM_OPS = [(r"\bJAE\b", ["JA", "JGE"]), (r"\bJB\b", ["JBE"]), (r"\$0x0([0-9])", None), (r"\b(16|32|48)\(AX\)", None)]


def strip_comment(line):
    i = line.find("//")
    return line if i < 0 else line[:i]


def gen_mutants(path):
    src = open(os.path.join(REPO, path)).read().split("\n")
    out = []
    in_block_comment = False
    in_import = False
    for ln, line in enumerate(src):
        code = strip_comment(line)
        s = code.strip()
        if s.startswith("/*"):
            in_block_comment = True
        if in_block_comment:
            if "*/" in s:
                in_block_comment = False
            continue
        if s.startswith("import ("):
            in_import = True
        if in_import:
            if s == ")":
                in_import = False
            continue
        if not s or s.startswith("package ") or s.startswith("import ") or s.startswith("//") or s.startswith("#include") or s.startswith("TEXT"):
            continue
        if '"' in code and path.endswith(".go") and ("Errorf" in code or "panic(" in code or "Sprintf" in code or "Fatal" in code or "return \"" in code or "case " in code and "return" not in code):
            continue  # messages
        if path.endswith(".s"):
            for pat, reps in ASM_OPS:
                for m in re.finditer(pat, code):
                    if reps is None:
                        tok = m.group(0)
                        num = re.search(r"\d+", tok[::-1]).group(0)[::-1]
                        for nv in ({"2": ["4"], "4": ["6"], "6": ["4"], "8": ["4", "16"], "1": ["2"], "16": ["8", "24"], "32": ["16", "40"], "48": ["32", "56"]}.get(num, [])):
                            new = tok[: len(tok) - len(num)] + nv if tok.endswith(num) else tok.replace(num, nv, 1)
                            out.append((path, ln, m.start(), m.end(), new, "asm"))
                    else:
                        for r in reps:
                            out.append((path, ln, m.start(), m.end(), r, "asm"))
            continue
        for pat, reps in TOKEN_OPS:
            for m in re.finditer(pat, code):
                # skip inside string literals (rough)
                if code[: m.start()].count('"') % 2 == 1:
                    continue
                for r in reps:
                    out.append((path, ln, m.start(), m.end(), r, "tok"))
        # statement deletion: simple call or assignment statements
        if re.match(r"^[\w.\[\]()*&]+\(.*\)$", s) or re.match(r"^[\w.\[\]]+\s*(=|\+=|-=|\+\+|--)(\s|$)", s) or re.match(r"^[\w.\[\]]+(\+\+|--)$", s):
            if not s.startswith("defer") and not s.startswith("go "):
                out.append((path, ln, 0, len(line), "", "del"))
    return out


def run_one(job):
    idx, (path, ln, a, b, rep, kind) = job
    tmp = tempfile.mkdtemp(prefix="vsweep.")
    try:
        dst = os.path.join(tmp, "repo")
        shutil.copytree(REPO, dst, ignore=shutil.ignore_patterns(".git"))
        fp = os.path.join(dst, path)
        lines = open(fp).read().split("\n")
        old = lines[ln]
        lines[ln] = old[:a] + rep + old[b:]
        if lines[ln] == old:
            return None
        open(fp, "w").write("\n".join(lines))
        tv = os.path.join(tmp, "verif")
        os.makedirs(tv)
        shutil.copy(os.path.join(VERIF, "known_findings.json"), tv)
        os.makedirs(os.path.join(tv, "checker"), exist_ok=True)
        shutil.copy(os.path.join(VERIF, "checker", "known_funcs.txt"), os.path.join(tv, "checker"))
        r = subprocess.run([os.environ.get("VERIFCHECK_BIN", os.path.join(VERIF, "bin/verifcheck")), "-repo", dst, "-verif", tv, "-prop", "all"], capture_output=True, text=True)
        out = r.stdout + r.stderr
        if r.returncode == 2:
            return {"idx": idx, "file": path, "line": ln + 1, "old": old.strip(), "new": lines[ln].strip(), "kind": kind, "status": "nocompile" if "type/load errors" in out else "error", "detail": out[-300:] if "type/load errors" not in out else ""}
        props = sorted(set(re.findall(r"VIOLATION property=(C\d\d)", out)))
        rules = sorted(set(re.findall(r"^\s+(?:VIOLATION|UNDECIDED) (R-C\d\d-[A-Z0-9]+)", out, re.M)))
        return {"idx": idx, "file": path, "line": ln + 1, "old": old.strip(), "new": lines[ln].strip(), "kind": kind,
                "status": "caught" if props else "survived", "props": props, "rules": rules}
    finally:
        shutil.rmtree(tmp, ignore_errors=True)


def main():
    files, jobs, outdir, limit, seed = FILES, 8, os.path.join(VERIF, "sweep_out"), 0, 1
    a = sys.argv[1:]
    while a:
        if a[0] == "--files": files = a[1].split(","); a = a[2:]
        elif a[0] == "--jobs": jobs = int(a[1]); a = a[2:]
        elif a[0] == "--out": outdir = a[1]; a = a[2:]
        elif a[0] == "--limit": limit = int(a[1]); a = a[2:]
        elif a[0] == "--seed": seed = int(a[1]); a = a[2:]
        else: a = a[1:]
    os.makedirs(outdir, exist_ok=True)
    muts = []
    for f in files:
        muts += gen_mutants(f)
    random.Random(seed).shuffle(muts)
    if limit:
        muts = muts[:limit]
    print("mutants:", len(muts), flush=True)
    res = []
    with cf.ThreadPoolExecutor(max_workers=jobs) as ex:
        for i, r in enumerate(ex.map(run_one, list(enumerate(muts)))):
            if r is None:
                continue
            res.append(r)
            if len(res) % 50 == 0:
                c = sum(1 for x in res if x["status"] == "caught"); s = sum(1 for x in res if x["status"] == "survived"); n = sum(1 for x in res if x["status"] == "nocompile")
                print("progress %d: caught %d survived %d nocompile %d" % (len(res), c, s, n), flush=True)
                json.dump(res, open(os.path.join(outdir, "results.json"), "w"), indent=0)
    json.dump(res, open(os.path.join(outdir, "results.json"), "w"), indent=0)
    surv = [x for x in res if x["status"] == "survived"]
    with open(os.path.join(outdir, "survivors.txt"), "w") as f:
        for x in sorted(surv, key=lambda x: (x["file"], x["line"])):
            f.write("%s:%d [%s]\n   - %s\n   + %s\n" % (x["file"], x["line"], x["kind"], x["old"], x["new"]))
    c = sum(1 for x in res if x["status"] == "caught")
    print("done: %d analysed, caught %d, survived %d, nocompile %d, error %d" % (len(res), c, len(surv), sum(1 for x in res if x["status"] == "nocompile"), sum(1 for x in res if x["status"] == "error")))


if __name__ == "__main__":
    main()
