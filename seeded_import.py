#!/usr/bin/env python3
"""Imports confirmed sub-agent mutants into /verif/seeded/<id>/ and records which checks catch them.
usage: seeded_import.py /tmp/mutout [round-tag]  (expects Cxx/{a,b,c}/{patch.diff,demo_test.go,notes.md,confirm.json});
ids are Cxx-a (no tag) or Cxx-<tag>a. The matrix is rebuilt from every seeded/*/meta.json.
"""
import concurrent.futures as cf
import json, os, re, shutil, subprocess, sys, tempfile, glob

VERIF = os.path.dirname(os.path.abspath(__file__))

def run_all(patch):
    tmp = tempfile.mkdtemp(prefix="vseedm.")
    try:
        dst = os.path.join(tmp, "repo")
        shutil.copytree("/repo", dst, ignore=shutil.ignore_patterns(".git"))
        r = subprocess.run(["patch", "-s", "-p1", "--fuzz=3", "-i", patch], cwd=dst, capture_output=True, text=True)
        if r.returncode != 0:
            return None, "patch does not apply: " + r.stdout + r.stderr
        tv = os.path.join(tmp, "verif")
        os.makedirs(tv)
        shutil.copy(os.path.join(VERIF, "known_findings.json"), tv)
        os.makedirs(os.path.join(tv, "checker"), exist_ok=True)
        shutil.copy(os.path.join(VERIF, "checker", "known_funcs.txt"), os.path.join(tv, "checker"))
        env = dict(os.environ)
        r = subprocess.run([os.environ.get("VERIFCHECK_BIN", os.path.join(VERIF, "bin/verifcheck")), "-repo", dst, "-verif", tv, "-prop", "all"], capture_output=True, text=True, env=env)
        out = r.stdout + r.stderr
        caught = {}
        cur = None
        for line in out.splitlines():
            m = re.match(r"^\s+(VIOLATION|UNDECIDED) (R-(C\d\d)-[A-Z0-9]+):(\S+)", line)
            if m:
                caught.setdefault(m.group(3), []).append(m.group(2) + ":" + m.group(4))
        return caught, out if r.returncode == 2 else ""
    finally:
        shutil.rmtree(tmp, ignore_errors=True)

def main():
    root = sys.argv[1]
    tag = sys.argv[2] if len(sys.argv) > 2 else ""
    jobs = []
    for d in sorted(glob.glob(os.path.join(root, "C??", "[abc]"))):
        cj = os.path.join(d, "confirm.json")
        if not os.path.exists(cj):
            continue
        conf = json.load(open(cj))
        if not conf.get("confirmed"):
            print("skip (not confirmed)", d)
            continue
        jobs.append((d, conf))
    with cf.ThreadPoolExecutor(max_workers=int(os.environ.get("JOBS", "5"))) as ex:
        results = list(ex.map(lambda j: run_all(os.path.join(j[0], "patch.diff")), jobs))
    for (d, conf), (caught, err) in zip(jobs, results):
        prop = d.split("/")[-2]
        ab = d.split("/")[-1]
        sid = "%s-%s%s" % (prop, tag, ab)
        if caught is None:
            print("skip", sid, err[:200])
            continue
        out = os.path.join(VERIF, "seeded", sid)
        os.makedirs(out, exist_ok=True)
        for f in ("patch.diff", "demo_test.go", "notes.md"):
            if os.path.exists(os.path.join(d, f)):
                shutil.copy(os.path.join(d, f), os.path.join(out, f if f != "demo_test.go" else "demo_test.go.txt"))
        notes = open(os.path.join(d, "notes.md")).read() if os.path.exists(os.path.join(d, "notes.md")) else ""
        needs = ""
        m = re.search(r"(?is)(what it needs to manifest|needs to manifest|what it needs)[^\n]*\n(.*?)(\n#|\Z)", notes)
        if m:
            needs = " ".join(m.group(2).split())[:600]
        first = " ".join(notes.strip().splitlines()[0:1])
        meta = {
            "id": sid,
            "breaks_property": prop,
            "round": int(tag[1:]) if tag[1:].isdigit() else (2 if tag else 1),
            "origin": "independent sub-agent given only the property text and a scratch worktree" + (" (later rounds: told what earlier rounds produced and asked for other mechanisms)" if tag else ""),
            "summary": first.lstrip("# ").strip(),
            "needs_to_manifest": needs,
            "confirmed_by_me": {
                "how": "confirm_seeded.py in a fresh scratch worktree of /repo (removed afterwards): demo on pristine tree, demo with patch applied, full existing suite with patch applied",
                "pristine_demo_exit": conf.get("pristine_demo_rc"), "mutant_demo_exit": conf.get("mutant_demo_rc"), "mutant_suite_exit": conf.get("mutant_suite_rc"),
                "demo_command": conf.get("runcmd"), "demo_path": conf.get("demo_path"),
            },
            "caught_by_own_property_check": prop in caught,
            "caught_by": caught,
        }
        json.dump(meta, open(os.path.join(out, "meta.json"), "w"), indent=1)
        print(sid, "OWN" if prop in caught else "MISSED-BY-OWN", sorted(caught))
    rows = []
    for mj in sorted(glob.glob(os.path.join(VERIF, "seeded", "*", "meta.json"))):
        m = json.load(open(mj))
        rows.append({"id": m["id"], "own": m["caught_by_own_property_check"], "checks": sorted(m["caught_by"])})
    json.dump(rows, open(os.path.join(VERIF, "seeded", "matrix.json"), "w"), indent=1)
    print("matrix: %d seeded changes, %d caught by their own property's check" % (len(rows), sum(1 for r in rows if r["own"])))

if __name__ == "__main__":
    main()
