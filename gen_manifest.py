#!/usr/bin/env python3
"""Regenerates MANIFEST.json from the table below (one entry per claimed property)."""
import json, os
HERE = os.path.dirname(os.path.abspath(__file__))
props = {json.loads(l)["id"]: json.loads(l) for l in open(os.path.join(HERE, "properties.jsonl"))}

# id -> (design section, what the level 'other' claim is, what is not decided, technique)
CLAIMS = json.load(open(os.path.join(HERE, "claims.json")))

checks = []
for pid in sorted(CLAIMS):
    c = CLAIMS[pid]
    checks.append({
        "property_id": pid,
        "quick_cmd": "./run.sh %s quick" % pid,
        "thorough_cmd": "./run.sh %s thorough" % pid,
        "evidence_file": "evidence/%s.json" % pid,
        "replay_cmd_template": "./run.sh %s quick  # static finding: re-running the check re-derives it; details in {path}" % pid,
        "engine": "verifcheck",
        "level_claimed": {"category": "other", "text": c["text"], "design_ref": c["design_ref"]},
        "level_note": c["note"],
        "technique": c["technique"],
    })
na = [{"property_id": pid, "reason": r} for pid, r in sorted(json.load(open(os.path.join(HERE, "not_applicable.json"))).items()) if pid not in CLAIMS]
for pid in sorted(props):
    assert pid in CLAIMS or any(x["property_id"] == pid for x in na), "property %s neither claimed nor not_applicable" % pid
m = {
    "version": 1,
    "setup_cmd": "./setup.sh",
    "hooks": {
        "guard": "verif",
        "enable": "no hooks: every check is a static analysis of /repo's source (type-checked SSA / Plan 9 asm); nothing in /repo is built with a tag",
        "baseline_off_cmd": "cd /repo && GOFLAGS=-mod=mod go test -vet=off -count=1 -timeout 25m ./...",
        "source_commits": [],
        "add_only": True,
    },
    "engines": [{
        "name": "verifcheck",
        "path": "checker/",
        "serves_properties": sorted(CLAIMS),
        "kind_free_text": "custom static analyser over go/packages + go/ssa (x/tools v0.50.0, go1.26.8): repository-specific rules on dominance/path cuts, value provenance terms, locksets, who-may-write tables, linear effect summaries, bit-dependency and an abstract interpreter for the amd64 assembly; no ristretto code is executed and no solver is called",
    }],
    "checks": checks,
    "notes": "Every claim is level 'other': a set of structural necessary conditions decided statically for /repo's current source; see DESIGN.md section 0 for what each does not decide. quick = all rules on linux/amd64 (+arm64 where a property has portable siblings); thorough = more build variants + the rule self-test (mutant corpus under checker/selftest, both directions). Genuine defects found and repaired in /repo (one 'fix:' commit each): known_findings.json (F1, F2, F4, F5, F6, F7 fixed; F3 advisory only).",
    "not_applicable": na,
}
json.dump(m, open(os.path.join(HERE, "MANIFEST.json"), "w"), indent=1)
print("MANIFEST.json: %d checks, %d not_applicable" % (len(checks), len(na)))
